/*
 * C12 -- SLIP framing (src/rfc1055.c) is transparent, bounded and
 * self-resynchronising.
 *
 * One source file, two harnesses:
 *
 *   default       E-SPACE: bounded-exhaustive odometers over payloads, raw
 *                 decoder inputs, garbage-prefix x frame-sequence streams and
 *                 fault positions of scripted octet Source/Sink drivers.
 *   -DC12_ESTATE  E-STATE: explicit-state search to fixpoint over the decoder
 *                 context (the whole object image); operation = "decode this
 *                 octet string until the source is exhausted", fault-free or
 *                 with one driver failure on the way and the context used on
 *                 afterwards.  Every reachable context is a possible "after
 *                 any corrupted prefix" state, so the resynchronisation rule
 *                 is checked from each of them; each is also handed to the
 *                 encoder and to rfc1055_context_init (re-initialisation
 *                 history).
 *
 * The oracle is declarative (lexical), not a second decoder state machine: a
 * stream is cut at its delimiter octets, frames are recognised by an
 * independent un-stuffing routine, and the log of decode calls (return code,
 * source offset reached, octets emitted) is compared with what the property
 * statement demands for that stream:
 *
 *   - from the initial context, the maximal run of well-formed frames at the
 *     start of the stream is delivered exactly and in order (round trip and
 *     concatenation clause);
 *   - classic mode: after every delimiter octet the next well-formed
 *     non-empty frame is delivered intact (hence every frame after the first
 *     delimiter following any corrupted prefix);
 *   - start-of-frame mode: for every cut position g, of the maximal run of
 *     well-formed frames starting at g every non-empty frame but the first
 *     non-empty one is delivered intact;
 *   - empty deliveries are never counted against the decoder while
 *     resynchronising; a non-empty delivery inside a synchronised run that is
 *     not one of its frames is;
 *   - an invalid escape at a position where the decoder is certainly inside
 *     a frame is answered with -EILSEQ by a call ending between the offending
 *     octet and the next delimiter;
 *   - after every call of a decode sequence over one stream: octets emitted
 *     so far <= octets consumed so far;
 *   - the source's end/error code and injected sink/source codes come back
 *     unchanged.
 *
 * Delivery = a decode call returning 1 (the value the repository's unit test
 * pins for end-of-frame) together with the octets that call put into the
 * sink.  Like the unit test, the driver discards the sink after every return.
 *
 * Environment histories (fault_sequences of the quantifier).  The drivers
 * answer, per call position: one octet / everything offered (default), a short
 * write (one of several octets), a zero-length return to a multi-octet write,
 * -EAGAIN, -EINTR, or a hard error (-EIO, -EPIPE); and the *same* context and
 * the same source are used on after the answer:
 *
 *   - a decode call that returns the -EAGAIN/-EINTR its source answered is an
 *     interruption, not a result: it consumed no octet, so the stream is still
 *     the same octet string and every sentence of the statement applies to it.
 *     Such calls are folded into the call that follows (offsets and emitted
 *     octets are accumulated, the caller keeps the sink over an interruption)
 *     and the folded log is judged exactly like a fault-free one;
 *   - after a hard source error, and after any sink error (the octet the sink
 *     refused may be gone), the decoder is at most "behind a corrupted
 *     prefix": only the resynchronisation sentences are applied, to the
 *     delimiters / cut positions behind the point of failure;
 *   - the encoder in front of a sink that writes short, interrupts or fails:
 *     a hard error comes back unchanged; -EAGAIN/-EINTR come back unchanged
 *     or are retried (when the sink answered several errors in one execution,
 *     any of the codes it answered is "unchanged"; a code it never answered
 *     is not); and whenever encode reports success, what reached the sink is
 *     a complete encoding (all encoding clauses + decode round trip).
 */
#include "mc.h"

#include <limits.h>

#include <ufw/compat/errno.h>

#include <ufw/endpoints.h>
#include <ufw/rfc1055.h>

#define O_END 0xc0u
#define O_ESC 0xdbu
#define O_ESC_END 0xdcu
#define O_ESC_ESC 0xddu

/* octet classes, simplest first: other, END, ESC, ESC_END, ESC_ESC */
static const unsigned char CLS[5] = { 0x41, O_END, O_ESC, O_ESC_END, O_ESC_ESC };

static uint64_t P5[14];

static void
nth_string(size_t len, uint64_t idx, unsigned char *out)
{
    for (size_t i = 0; i < len; ++i) {
        out[len - 1 - i] = CLS[idx % 5];
        idx /= 5;
    }
}

/* rotating buffers for descriptors */
static const char *
hex(const unsigned char *p, size_t n)
{
    static char buf[8][160];
    static int k;
    char *b = buf[k = (k + 1) & 7];
    if (n == 0)
        return "-";
    size_t l = 0;
    for (size_t i = 0; i < n && l + 3 < sizeof buf[0]; ++i)
        l += (size_t)snprintf(b + l, sizeof buf[0] - l, "%02x", p[i]);
    return b;
}

static const char *
errname(int rc)
{
    static char buf[4][24];
    static int k;
    if (rc == -EILSEQ) return "-EILSEQ";
    if (rc == -ENODATA) return "-ENODATA";
    if (rc == -EIO) return "-EIO";
    if (rc == -EPIPE) return "-EPIPE";
    if (rc == -EAGAIN) return "-EAGAIN";
    if (rc == -EINTR) return "-EINTR";
    char *b = buf[k = (k + 1) & 3];
    snprintf(b, sizeof buf[0], "%d", rc);
    return b;
}

/* The error alphabet of the "returned unchanged" sentence: every errno value
 * the platform defines (Linux: 1..133, the two unassigned numbers 41 and 58
 * included - a driver may answer any negative number) and a few negative
 * values no errno has: just below the table, around the limits of 8/12/16 bit
 * storage, and the ends of int.  Several of them are codes rfc1055.c itself
 * uses as sentinels (-ENODATA = the source's "no more payload", -EILSEQ = its
 * own "invalid escape", -EAGAIN/-EINTR = "call again"); the statement makes no
 * exception for them when a *driver* answers them. */
#define ERRNO_LAST 133
static int ALPHA[ERRNO_LAST + 16];
static int NALPHA;

static void
alpha_build(void)
{
    static const int extra[] = { -(ERRNO_LAST + 1), -255, -256, -1000, -4095, -4096, -32768, -32769,
                                 -65536, INT_MIN + 1, INT_MIN };
    NALPHA = 0;
    for (int e = 1; e <= ERRNO_LAST; ++e)
        ALPHA[NALPHA++] = -e;
    for (size_t i = 0; i < sizeof extra / sizeof *extra; ++i)
        ALPHA[NALPHA++] = extra[i];
}

/* ------------------------------------------------------------------------- */
/* scripted drivers                                                          */

enum kind { K_OCTET, K_CHUNK };

/* answers of a scripted sink, per call position (default: take everything) */
enum answer { A_ALL, A_ONE /* short write: one octet of several */,
              A_ZERO /* zero-length return to a write of several octets */,
              A_EAGAIN, A_EINTR, A_EIO,
              A_ENODATA /* a hard error whose code is the one the encoder's source ends with */,
              A_NANSWERS };
#define ANS_BIT(a) (1u << (a))
#define ANS_HARD (ANS_BIT(A_EIO) | ANS_BIT(A_ENODATA))
static const char *const ANS_NAME[A_NANSWERS] = { "all", "short", "zero", "-EAGAIN", "-EINTR", "-EIO", "-ENODATA" };

struct src {
    const unsigned char *d;
    size_t len, pos;
    long calls, budget, err_at; /* err_at: index of the call that fails, -1 none */
    long err_at2;               /* a second failing call, -1 none */
    int err_code, err_code2, end_code;
    int fcode;                  /* the code the last failing call answered */
    bool fired, overrun;
};

struct snk {
    unsigned char *buf;
    size_t cap, n;
    long calls, budget, err_at;
    int err_code;
    int fcode;
    bool fired, overrun, overflow;
    /* answer script (encoder families): answers for calls 0..nscript-1 */
    const signed char *script;
    int nscript;
    size_t block;      /* > 0: a FIFO drained in blocks, a write ends at the next block boundary */
    unsigned answered; /* ANS_BIT()s of the non-default answers really given */
    bool zero_any;     /* a scripted zero answer is given to a single-octet call, too (run family) */
    long dead_from;    /* >= 0: from this call on the sink takes nothing, for ever (answers zero) */
};

static int
src_octet(void *drv, void *out)
{
    struct src *s = drv;
    if (s->calls >= s->budget) {
        s->overrun = true;
        return -EBADF;
    }
    const long k = s->calls++;
    if (k == s->err_at) {
        s->fired = true;
        return s->fcode = s->err_code;
    }
    if (k == s->err_at2) {
        s->fired = true;
        return s->fcode = s->err_code2;
    }
    if (s->pos >= s->len)
        return s->end_code;
    *(unsigned char *)out = s->d[s->pos++];
    return 1;
}

static ssize_t
src_chunk(void *drv, void *out, size_t n)
{
    if (n == 0)
        return -EINVAL;
    return src_octet(drv, out); /* a short read of one octet is a legal answer */
}

/* the scripted answer to sink call k offering n octets: a negative code, or
 * the number of octets to take */
static long
snk_answer(struct snk *s, long k, size_t n)
{
    const int a = k < s->nscript ? s->script[k] : A_ALL;
    size_t take = n;
    if (s->dead_from >= 0 && k >= s->dead_from) {
        s->answered |= ANS_BIT(A_ZERO);
        return 0;
    }
    switch (a) {
    case A_EAGAIN: s->answered |= ANS_BIT(a); return -EAGAIN;
    case A_EINTR: s->answered |= ANS_BIT(a); return -EINTR;
    case A_EIO: s->answered |= ANS_BIT(a); s->fired = true; return s->fcode = -EIO;
    case A_ENODATA: s->answered |= ANS_BIT(a); s->fired = true; return s->fcode = -ENODATA;
    case A_ZERO:
        /* only a write of several octets is answered with 0: what a zero
         * answer to a single-octet call means to the caller of
         * sink_put_octet is C17's business, not scripted here */
        if (n > 1 || s->zero_any) {
            s->answered |= ANS_BIT(a);
            return 0;
        }
        break;
    case A_ONE:
        if (n > 1) {
            s->answered |= ANS_BIT(a);
            take = 1;
        }
        break;
    default: break;
    }
    if (s->block) {
        const size_t room = s->block - (s->n % s->block);
        if (take > room) {
            take = room;
            s->answered |= ANS_BIT(A_ONE);
        }
    }
    return (long)take;
}

static int
snk_octet(void *drv, unsigned char c)
{
    struct snk *s = drv;
    if (s->calls >= s->budget) {
        s->overrun = true;
        return -EBADF;
    }
    const long k = s->calls++;
    if (k == s->err_at) {
        s->fired = true;
        return s->fcode = s->err_code;
    }
    if (s->script || s->dead_from >= 0) {
        const long a = snk_answer(s, k, 1);
        if (a <= 0) /* zero: only when the script says so for single octets (zero_any, dead_from) */
            return (int)a;
    }
    if (s->n >= s->cap) {
        s->overflow = true;
        return -ENOMEM;
    }
    s->buf[s->n++] = c;
    return 1;
}

static ssize_t
snk_chunk(void *drv, const void *p, size_t n)
{
    /* accepts the whole chunk unless an answer script / block size says otherwise */
    struct snk *s = drv;
    if (s->calls >= s->budget) {
        s->overrun = true;
        return -EBADF;
    }
    const long k = s->calls++;
    if (k == s->err_at) {
        s->fired = true;
        return s->fcode = s->err_code;
    }
    if (s->script || s->block || s->dead_from >= 0) {
        const long a = snk_answer(s, k, n);
        if (a <= 0)
            return (ssize_t)a;
        n = (size_t)a;
    }
    if (s->n + n > s->cap) {
        s->overflow = true;
        return -ENOMEM;
    }
    memcpy(s->buf + s->n, p, n);
    s->n += n;
    return (ssize_t)n;
}

static void
src_setup(struct src *s, Source *h, enum kind k, const unsigned char *d, size_t len)
{
    memset(s, 0, sizeof *s);
    s->d = d;
    s->len = len;
    s->budget = 2 * (long)len + 16;
    s->err_at = -1;
    s->err_at2 = -1;
    s->end_code = -ENODATA;
    if (k == K_OCTET)
        octet_source_init(h, src_octet, s);
    else
        chunk_source_init(h, src_chunk, s);
}

static void
snk_setup(struct snk *s, Sink *h, enum kind k, unsigned char *buf, size_t cap)
{
    memset(s, 0, sizeof *s);
    s->buf = buf;
    s->cap = cap;
    s->budget = 2 * (long)cap + 16;
    s->err_at = -1;
    s->dead_from = -1;
    if (k == K_OCTET)
        octet_sink_init(h, snk_octet, s);
    else
        chunk_sink_init(h, snk_chunk, s);
}

/* ------------------------------------------------------------------------- */
/* reference: RFC 1055 stuffing, written from the RFC text                    */

static size_t
ref_encode(bool sof, const unsigned char *p, size_t n, unsigned char *out)
{
    size_t m = 0;
    if (sof)
        out[m++] = O_END;
    for (size_t i = 0; i < n; ++i) {
        if (p[i] == O_END) {
            out[m++] = O_ESC;
            out[m++] = O_ESC_END;
        } else if (p[i] == O_ESC) {
            out[m++] = O_ESC;
            out[m++] = O_ESC_ESC;
        } else {
            out[m++] = p[i];
        }
    }
    out[m++] = O_END;
    return m;
}

#define MAXPL 64
struct frame {
    size_t s, e; /* the encoding occupies stream[s, e) */
    size_t n;
    unsigned char pl[MAXPL];
};

/* Is there a well-formed frame whose encoding starts at pos?  classic:
 * stuffed* END; start-of-frame: END stuffed* END. */
static bool
parse_frame(bool sof, const unsigned char *st, size_t len, size_t pos, struct frame *f)
{
    size_t i = pos;
    if (sof) {
        if (i >= len || st[i] != O_END)
            return false;
        i++;
    }
    size_t n = 0;
    for (;;) {
        if (i >= len)
            return false;
        const unsigned char c = st[i];
        if (c == O_END) {
            f->s = pos;
            f->e = i + 1;
            f->n = n;
            return true;
        }
        if (n >= MAXPL)
            return false;
        if (c == O_ESC) {
            if (i + 1 >= len)
                return false;
            if (st[i + 1] == O_ESC_END)
                f->pl[n++] = O_END;
            else if (st[i + 1] == O_ESC_ESC)
                f->pl[n++] = O_ESC;
            else
                return false;
            i += 2;
        } else {
            f->pl[n++] = c;
            i++;
        }
    }
}

#define MAXFR 40
static int
parse_run(bool sof, const unsigned char *st, size_t len, size_t pos, struct frame *fr)
{
    int k = 0;
    while (k < MAXFR && parse_frame(sof, st, len, pos, &fr[k])) {
        pos = fr[k].e;
        k++;
    }
    return k;
}

/* Scan stuffed octets from i.  Returns the index of an ESC that is followed by
 * an octet which is neither ESC_END nor ESC_ESC, if such an escape comes
 * before the next delimiter and before the stream ends; otherwise -1. */
static long
first_invalid_escape(const unsigned char *st, size_t len, size_t i)
{
    while (i < len) {
        if (st[i] == O_END)
            return -1;
        if (st[i] == O_ESC) {
            if (i + 1 >= len)
                return -1;
            if (st[i + 1] != O_ESC_END && st[i + 1] != O_ESC_ESC)
                return (long)i;
            i += 2;
        } else {
            i++;
        }
    }
    return -1;
}

/* ------------------------------------------------------------------------- */
/* running the real decoder over a stream                                     */

#define MAXSTREAM 2200
struct dcall {
    int rc;
    size_t off0, off1; /* source offset before / after the call */
    size_t o0, olen;   /* what the call put into the sink */
    bool sfired, kfired;
    int fcode;         /* the code the failing driver call answered during this call */
};
static struct {
    struct dcall c[MAXSTREAM + 8];
    int n;
    int folded;        /* interruptions folded away by fold_interruptions() */
    unsigned char out[MAXSTREAM + 16];
    bool hang, overflow;
    bool latched;      /* the run ended at a call that repeated a hard driver error without consuming anything */
    unsigned flags_after;
    int state_after;
    unsigned char ctx_after[sizeof(RFC1055Context)]; /* the whole context, octet by octet */
} R;

/* E-STATE: the context image (all octets of the struct, as the library left
 * them on a zeroed block) the next run_decoder call starts from; NULL: build
 * the context from the arguments.  The harness never assumes which members
 * the context has beyond `flags` and `state` being readable. */
static const unsigned char *ctx_image_in;

struct inject {
    long src_at, snk_at;
    int code;
    long src_at2_plus1; /* a second failing source call: its index + 1, 0 = none */
    int code2;
};
static const struct inject NO_INJECT = { -1, -1, 0, 0, 0 };

/* Calls rfc1055_decode until the source reports its end code.  The context
 * the decoder starts in: the image ctx_image_in of an explicit-state search
 * node when set; else rfc1055_context_init(flags0) when use_init_fn, the
 * header's static initialiser when state0 < 0, else rfc1055_context_init(flags0)
 * with only `state` overwritten by state0.  The block is zeroed first (filled
 * with a5 in front of rfc1055_context_init), so the context image after the
 * run is deterministic. */
static void
run_decoder(unsigned flags0, int state0, bool use_init_fn, enum kind kind,
            const unsigned char *stream, size_t len, struct inject inj)
{
    unsigned char *in = mc_exact_copy(stream, len);
    RFC1055Context *ctx = mc_exact(sizeof *ctx);
    memset(ctx, 0, sizeof *ctx);
    if (ctx_image_in) {
        memcpy(ctx, ctx_image_in, sizeof *ctx);
    } else if (use_init_fn) {
        /* rfc1055_context_init is what makes a context out of arbitrary
         * memory (a stack variable, a block used for something else before) */
        memset(ctx, 0xa5, sizeof *ctx);
        rfc1055_context_init(ctx, flags0);
    } else if (state0 < 0) {
        /* the header's static initialisers */
        const RFC1055Context c0 = RFC1055_CONTEXT_INIT_DEFAULT;
        const RFC1055Context c1 = RFC1055_CONTEXT_INIT_WITH_SOF;
        if (flags0 & RFC1055_WITH_SOF)
            memcpy(ctx, &c1, sizeof *ctx);
        else
            memcpy(ctx, &c0, sizeof *ctx);
    } else {
        rfc1055_context_init(ctx, flags0);
        ctx->state = state0;
    }
    struct src s;
    struct snk k;
    Source source;
    Sink sink;
    src_setup(&s, &source, kind, in, len);
    snk_setup(&k, &sink, kind, R.out, len + 8);
    s.err_at = inj.src_at;
    s.err_code = inj.code;
    s.err_at2 = inj.src_at2_plus1 - 1;
    s.err_code2 = inj.code2;
    k.err_at = inj.snk_at;
    k.err_code = inj.code;
    R.n = 0;
    R.folded = 0;
    R.hang = R.overflow = false;
    R.latched = false;
    for (;;) {
        struct dcall *c = &R.c[R.n];
        c->off0 = s.pos;
        c->o0 = k.n;
        s.fired = k.fired = false;
        c->rc = rfc1055_decode(ctx, &source, &sink);
        mc_trans(1);
        c->off1 = s.pos;
        c->olen = k.n - c->o0;
        c->sfired = s.fired;
        c->kfired = k.fired;
        c->fcode = s.fired ? s.fcode : k.fired ? k.fcode : 0;
        R.n++;
        mc_log("decode call %d: rc=%s source %zu->%zu state=%d%s", R.n - 1, errname(c->rc),
               c->off0, c->off1, (int)ctx->state,
               s.fired ? " (source call failed)" : k.fired ? " (sink call failed)" : "");
        mc_log_hex("  emitted", R.out + c->o0, c->olen);
        if (s.overrun || k.overrun) {
            R.hang = true;
            break;
        }
        if (k.overflow) {
            R.overflow = true;
            break;
        }
        if (c->rc == s.end_code && !c->sfired && !c->kfired && s.pos >= len)
            break;
        /* A decoder may latch a hard driver error: the statement says that the
         * code comes back unchanged, not that the decoder is usable afterwards
         * without rfc1055_context_init.  The call right behind the one in which
         * a driver answered a hard code (anything but -EAGAIN/-EINTR) and which
         * returned that code, that returns the same code again without any
         * driver failing, consumes nothing and emits nothing, ends the run: the
         * call is taken out of the log, nothing behind the failure is judged. */
        if (R.n >= 2 && !c->sfired && !c->kfired && c->off1 == c->off0 && c->olen == 0 && c->rc < 0) {
            const struct dcall *f = &R.c[R.n - 2];
            if ((f->sfired || f->kfired) && f->rc == f->fcode && f->fcode != -EAGAIN && f->fcode != -EINTR
                && c->rc == f->fcode) {
                mc_log("the decoder repeats the hard error without consuming: latched, run ended");
                R.latched = true;
                R.n--;
                break;
            }
        }
        /* progress: every call but the last consumes an octet (or meets one
         * of the at most two injected faults); more calls than that cannot end */
        if (R.n > (int)len + 5) {
            R.hang = true;
            break;
        }
    }
    R.flags_after = ctx->flags;
    R.state_after = (int)ctx->state;
    memcpy(R.ctx_after, ctx, sizeof *ctx);
    free(ctx);
    free(in);
}

static bool
delivered(const struct frame *f)
{
    for (int i = 0; i < R.n; ++i) {
        const struct dcall *c = &R.c[i];
        if (c->rc == 1 && c->off1 == f->e && c->olen == f->n
            && memcmp(R.out + c->o0, f->pl, f->n) == 0)
            return true;
    }
    return false;
}

static bool
eilseq_between(size_t lo, size_t hi)
{
    for (int i = 0; i < R.n; ++i)
        if (R.c[i].rc == -EILSEQ && R.c[i].off1 >= lo && R.c[i].off1 <= hi)
            return true;
    return false;
}

/* Interruption families: every oracle sentence that fails on a folded log is
 * reported under one clause (the interruption is what made it fail - the same
 * stream without interruptions is judged by the fault-free families); the
 * sentence is named in the detail. */
static const char *clause_override;

static void c12_fail(const char *clause, const char *fmt, ...) __attribute__((format(printf, 2, 3)));
static void
c12_fail(const char *clause, const char *fmt, ...)
{
    char detail[500];
    va_list ap;
    va_start(ap, fmt);
    vsnprintf(detail, sizeof detail, fmt, ap);
    va_end(ap);
    if (clause_override)
        mc_fail(clause_override, "[%s] %s", clause, detail);
    else
        mc_fail(clause, "%s", detail);
}

/* A decode call that returned the transient code (-EAGAIN/-EINTR) its source
 * answered during that call is an interruption: no octet was consumed by the
 * failing source call, the stream is unchanged.  Fold every such call into the
 * one that follows (the caller keeps the sink across an interruption), so
 * that the log reads like the log of an uninterrupted decode of the same
 * stream.  A call during which the source failed but which returned something
 * else retried the source by itself; it stays as it is. */
static bool g_fold_enodata; /* family (g): the source ran dry (-ENODATA) and was refilled */

static void
fold_interruptions(void)
{
    int w = 0;
    bool carry = false;
    size_t off0 = 0, o0 = 0;
    for (int i = 0; i < R.n; ++i) {
        struct dcall c = R.c[i];
        if (carry) {
            c.olen += c.o0 - o0;
            c.o0 = o0;
            c.off0 = off0;
        }
        if (c.sfired && !c.kfired && c.rc == c.fcode && (c.rc == -EAGAIN || c.rc == -EINTR || (g_fold_enodata && c.rc == -ENODATA))
            && i + 1 < R.n) {
            carry = true;
            off0 = c.off0;
            o0 = c.o0;
            R.folded++;
            continue;
        }
        carry = false;
        c.sfired = false;
        R.c[w++] = c;
    }
    R.n = w;
}

/* offset just behind the first delimiter at index >= i, or len */
static size_t
behind_next_end(const unsigned char *st, size_t len, size_t i)
{
    while (i < len && st[i] != O_END)
        i++;
    return i < len ? i + 1 : len;
}

static void
demand_eilseq(const unsigned char *st, size_t len, size_t from, const char *why)
{
    const long j = first_invalid_escape(st, len, from);
    if (j < 0)
        return;
    const size_t lo = (size_t)j + 2;
    const size_t hi = behind_next_end(st, len, (size_t)j + 1);
    if (!eilseq_between(lo, hi))
        c12_fail("C12/invalid-escape-eilseq",
                "%s: ESC at offset %ld is followed by %02x, no decode call ending in [%zu,%zu] returned -EILSEQ",
                why, j, st[j + 1], lo, hi);
}

/* non-empty deliveries ending in (lo, hi] must be frames of the run */
static void
no_spurious(const struct frame *fr, int k, size_t lo, size_t hi, const char *clause)
{
    for (int i = 0; i < R.n; ++i) {
        const struct dcall *c = &R.c[i];
        if (c->rc != 1 || c->olen == 0 || c->off1 <= lo || c->off1 > hi)
            continue;
        bool ok = false;
        for (int j = 0; j < k; ++j)
            if (fr[j].e == c->off1 && fr[j].n == c->olen
                && memcmp(fr[j].pl, R.out + c->o0, c->olen) == 0)
                ok = true;
        if (!ok) {
            c12_fail(clause, "call %d delivered %zu octets (%s) at offset %zu inside a synchronised run of well-formed frames; no such frame ends there",
                    i, c->olen, hex(R.out + c->o0, c->olen), c->off1);
            return;
        }
    }
}

struct verdict {
    int deliveries, nonempty, eilseq;
    int required, lost_first; /* resync bookkeeping of the designated cut */
};

/* The oracle.  `initial`: the decoder started in the context a fresh
 * rfc1055_context_init produces.  `faulted`: an error was injected, only the
 * per-call clauses apply.  cut: the designated garbage length of family (c)
 * (-1: none), only for the outcome class.  from: the resynchronisation
 * sentences are applied to delimiters / cut positions at stream index >= from
 * only (the decoder is behind a failure at that offset; 0: everywhere). */
static struct verdict
judge_from(bool sof, bool initial, bool faulted, const unsigned char *st, size_t len, long cut,
           size_t from)
{
    struct verdict v;
    memset(&v, 0, sizeof v);
    static struct frame fr[MAXFR];

    if (R.hang) {
        c12_fail("C12/hang", "decode made no progress or exceeded the call budget after %d calls", R.n);
        return v;
    }
    if (R.overflow) {
        c12_fail("C12/emits-at-most-consumed", "decoder put more than %zu octets into the sink for a %zu octet stream", len + 8, len);
        return v;
    }
    for (int i = 0; i < R.n; ++i) {
        const struct dcall *c = &R.c[i];
        if (c->rc == 1) {
            v.deliveries++;
            if (c->olen)
                v.nonempty++;
        } else if (c->rc == -EILSEQ) {
            v.eilseq++;
        }
        /* cumulative over the call sequence on this stream (sink and source
         * both start at 0): a decoder may hold octets back across calls */
        if (c->o0 + c->olen > c->off1)
            c12_fail("C12/emits-at-most-consumed", "after call %d the decoder has consumed %zu octets and emitted %zu",
                    i, c->off1, c->o0 + c->olen);
        const bool last = (i == R.n - 1);
        if (c->sfired || c->kfired)
            continue; /* judged by the fault family */
        if (last) {
            if (c->rc != -ENODATA || c->off1 != len)
                c12_fail("C12/source-error-unchanged", "source ended with -ENODATA at offset %zu, decode returned %s at offset %zu",
                        len, errname(c->rc), c->off1);
        } else if (c->rc == 0 || c->rc > 1) {
            /* which negative code a decoder uses for anything but an invalid
             * escape is not fixed by the statement */
            c12_fail("C12/return-domain", "call %d returned %d (end-of-frame is 1, errors are negative)", i, c->rc);
        }
    }
    if (faulted)
        return v;

    /* round trip / concatenation: from the initial context the leading run of
     * well-formed frames is delivered exactly, in order, nothing else */
    if (initial) {
        const int k = parse_run(sof, st, len, 0, fr);
        for (int i = 0; i < k; ++i) {
            const struct dcall *c = i < R.n ? &R.c[i] : NULL;
            if (c == NULL || c->rc != 1 || c->off1 != fr[i].e || c->olen != fr[i].n
                || memcmp(R.out + c->o0, fr[i].pl, fr[i].n) != 0) {
                c12_fail("C12/roundtrip-in-order",
                        "frame %d of the leading well-formed run (stream[%zu,%zu), payload %s) was not delivered by call %d: rc=%s offset=%zu emitted=%s",
                        i, fr[i].s, fr[i].e, hex(fr[i].pl, fr[i].n), i,
                        c ? errname(c->rc) : "none", c ? c->off1 : 0,
                        c ? hex(R.out + c->o0, c->olen) : "-");
                break;
            }
        }
        if (sof) {
            /* certainly at a frame boundary: at 0 and behind each of them */
            if (len > 0 && st[0] == O_END)
                demand_eilseq(st, len, 1, "first frame");
            for (int i = 0; i < k; ++i)
                if (fr[i].e < len && st[fr[i].e] == O_END)
                    demand_eilseq(st, len, fr[i].e + 1, "frame behind the leading run");
        }
    }

    if (!sof) {
        /* every delimiter synchronises: the frame behind it, if well-formed
         * and non-empty, is delivered; an invalid escape in it is reported */
        if (initial)
            demand_eilseq(st, len, 0, "first frame");
        for (size_t d = from; d < len; ++d) {
            if (st[d] != O_END)
                continue;
            const int k = parse_run(false, st, len, d + 1, fr);
            if (k > 0) {
                if (fr[0].n > 0 && !delivered(&fr[0]))
                    c12_fail("C12/resync-classic",
                            "well-formed frame stream[%zu,%zu) payload %s follows the delimiter at offset %zu and was not delivered intact",
                            fr[0].s, fr[0].e, hex(fr[0].pl, fr[0].n), d);
                no_spurious(fr, k, d + 1, fr[k - 1].e, "C12/resync-classic");
            }
            demand_eilseq(st, len, d + 1, "frame behind a delimiter");
        }
        if (cut >= 0) {
            const size_t d = behind_next_end(st, len, (size_t)cut);
            const int k = parse_run(false, st, len, d, fr);
            for (int i = 0; i < k; ++i)
                if (fr[i].n)
                    v.required++;
        }
        return v;
    }

    /* start-of-frame mode: every cut position */
    for (size_t g = from; g < len; ++g) {
        const int k = parse_run(true, st, len, g, fr);
        int seen = 0;
        size_t sync = 0;
        for (int i = 0; i < k; ++i) {
            if (fr[i].n == 0)
                continue;
            if (seen++ == 0) {
                if ((long)g == cut)
                    v.lost_first = !delivered(&fr[i]);
                continue; /* the first non-empty frame may be lost */
            }
            if ((long)g == cut)
                v.required++;
            if (!delivered(&fr[i])) {
                c12_fail("C12/resync-sof",
                        "cut at offset %zu: well-formed frame stream[%zu,%zu) payload %s is not the first non-empty frame behind the cut and was not delivered intact",
                        g, fr[i].s, fr[i].e, hex(fr[i].pl, fr[i].n));
                break;
            }
            if (sync == 0)
                sync = fr[i].e;
            if (fr[i].e < len && st[fr[i].e] == O_END)
                demand_eilseq(st, len, fr[i].e + 1, "frame behind a delivered frame");
        }
        if (sync)
            no_spurious(fr, k, sync, fr[k - 1].e, "C12/resync-sof");
    }
    return v;
}

static struct verdict
judge(bool sof, bool initial, bool faulted, const unsigned char *st, size_t len, long cut)
{
    return judge_from(sof, initial, faulted, st, len, cut, 0);
}

/* ------------------------------------------------------------------------- */
/* running the real encoder                                                   */

static struct {
    int rc;
    unsigned char out[MAXSTREAM + 16];
    size_t n;
    size_t consumed;
    bool overflow, hang, sfired, kfired;
    unsigned answered; /* non-default answers the scripted sink really gave */
} E;

/* environment of the next run_encoder call (reset by the caller) */
static struct {
    const signed char *script; /* sink answer script */
    int nscript;
    size_t block;              /* sink is a FIFO drained in blocks of this size */
    RFC1055Context *ctx;       /* use this context (reused across frames) instead of a fresh one */
    long src_at2_plus1;        /* second failing source call */
    int code2;
    bool zero_any;             /* scripted zero answers also to single-octet calls */
    long dead_from_plus1;      /* the sink takes nothing from this call (index + 1) on; 0: never */
} EENV;

/* Appends to E.out when append is set (concatenation family). */
static void
run_encoder(bool sof, bool use_init_fn, enum kind kind, const unsigned char *p, size_t n,
            struct inject inj, bool append)
{
    unsigned char *in = mc_exact_copy(p, n);
    RFC1055Context *ctx = mc_exact(sizeof *ctx);
    if (EENV.ctx) {
        free(ctx);
        ctx = EENV.ctx;
    } else if (use_init_fn) {
        memset(ctx, 0xa5, sizeof *ctx);
        rfc1055_context_init(ctx, sof ? RFC1055_WITH_SOF : RFC1055_DEFAULT);
    } else if (sof) {
        const RFC1055Context c = RFC1055_CONTEXT_INIT_WITH_SOF;
        *ctx = c;
    } else {
        const RFC1055Context c = RFC1055_CONTEXT_INIT_DEFAULT;
        *ctx = c;
    }
    struct src s;
    struct snk k;
    Source source;
    Sink sink;
    const size_t base = append ? E.n : 0;
    src_setup(&s, &source, kind, in, n);
    /* room for the stated bound plus slack, so that an overlong encoding is
     * observed as a number and not as a sink error */
    snk_setup(&k, &sink, kind, E.out + base, 2 * n + 2 + 6);
    s.err_at = inj.src_at;
    s.err_code = inj.code;
    s.err_at2 = EENV.src_at2_plus1 - 1;
    s.err_code2 = EENV.code2;
    k.err_at = inj.snk_at;
    k.err_code = inj.code;
    k.script = EENV.script;
    k.nscript = EENV.nscript;
    k.block = EENV.block;
    k.zero_any = EENV.zero_any;
    k.dead_from = EENV.dead_from_plus1 - 1;
    k.budget += 2 * (long)EENV.nscript;
    E.rc = rfc1055_encode(ctx, &source, &sink);
    mc_trans(1);
    E.n = base + k.n;
    E.consumed = s.pos;
    E.overflow = k.overflow;
    E.hang = s.overrun || k.overrun;
    E.sfired = s.fired;
    E.kfired = k.fired;
    E.answered = k.answered;
    mc_log("encode rc=%s consumed=%zu of %zu, %ld sink calls", errname(E.rc), s.pos, n, k.calls);
    mc_log_hex("  encoding", E.out + base, k.n);
    if (ctx != EENV.ctx)
        free(ctx);
    free(in);
}

/* Clauses about one fault-free encoding E.out[base, E.n) of p. */
static bool
judge_encoding(bool sof, const unsigned char *p, size_t n, size_t base)
{
    const unsigned char *e = E.out + base;
    const size_t m = E.n - base;
    if (E.hang) {
        mc_fail("C12/hang", "encode exceeded the driver call budget");
        return false;
    }
    if (E.overflow || m > 2 * n + (sof ? 2 : 1)) {
        mc_fail("C12/encoding-length-bound", "payload of %zu octets encoded to %s%zu octets, bound %zu",
                n, E.overflow ? "more than " : "", m, 2 * n + (sof ? 2 : 1));
        return false;
    }
    if (E.rc < 0) {
        mc_fail("C12/encode-succeeds", "fault-free encode returned %s", errname(E.rc));
        return false;
    }
    if (E.consumed != n) {
        mc_fail("C12/encode-succeeds", "encode consumed %zu of %zu payload octets", E.consumed, n);
        return false;
    }
    /* the delimiter octet appears only as frame delimiter */
    const size_t lead = sof ? 1 : 0;
    if (m < lead + 1 || e[m - 1] != O_END || (sof && e[0] != O_END)) {
        mc_fail("C12/delimiter-only-delimits", "encoding %s is not framed by the delimiter", hex(e, m > 60 ? 60 : m));
        return false;
    }
    for (size_t i = lead; i + 1 < m; ++i)
        if (e[i] == O_END) {
            mc_fail("C12/delimiter-only-delimits", "delimiter octet inside the frame body at offset %zu", i);
            return false;
        }
    (void)p;
    return true;
}

/* ------------------------------------------------------------------------- */
/* anchors: the reference against literal vectors of test/t-rfc1055.c         */

static void
anchors(void)
{
    static const unsigned char payload[] = {
        0xc0, 'a', 'b', 'c', 0xc0, 'd', 'e', 'f', 0xdb, 'g', 'h', 'i',
        0xdd, 'j', 'k', 'l', 0xdc, 'm', 'n', 'o', 0xdc, 'e', 'n', 'd' };
    static const unsigned char expect_with_sof[] = {
        0xc0, 0xdb, 0xdc, 'a', 'b', 'c', 0xdb, 0xdc, 'd', 'e', 'f', 0xdb, 0xdd,
        'g', 'h', 'i', 0xdd, 'j', 'k', 'l', 0xdc, 'm', 'n', 'o', 0xdc, 'e', 'n', 'd', 0xc0 };
    static const unsigned char sync_to_start[] = {
        0xc0, 'a', 'b', 'c', 0xc0, 0xc0, 'd', 'e', 'f', 0xc0, 'g', 'h', 'i', 0xc0,
        0xc0, 'j', 'k', 'l', 0xc0, 0xc0, 'm', 'n', 'o', 0xc0 };
    static const char *without_sof[] = { "", "abc", "", "def", "ghi", "", "jkl", "", "mno" };
    static const unsigned char with_error[] = {
        'i', 'g', 'n', 'o', 'r', 'e', 0xc0, 0xc0, 'f', 0xdb, 'o', 'o', 0xc0,
        0xc0, 'f', 0xdb, 0xc0, 0xc0, 'f', 'o', 'o', 0xc0 };
    unsigned char buf[80];
    static struct frame fr[MAXFR];

    MC_ANCHOR(ref_encode(true, payload, sizeof payload, buf) == sizeof expect_with_sof
              && memcmp(buf, expect_with_sof, sizeof expect_with_sof) == 0,
              "reference encoder vs expect_with_sof");
    MC_ANCHOR(ref_encode(false, payload, sizeof payload, buf) == sizeof expect_with_sof - 1
              && memcmp(buf, expect_with_sof + 1, sizeof expect_with_sof - 1) == 0,
              "reference encoder vs expect_with_sof+1 (classic)");
    MC_ANCHOR(parse_run(true, expect_with_sof, sizeof expect_with_sof, 0, fr) == 1
              && fr[0].e == sizeof expect_with_sof && fr[0].n == sizeof payload
              && memcmp(fr[0].pl, payload, sizeof payload) == 0,
              "reference frame recogniser vs expect_with_sof");
    MC_ANCHOR(parse_run(false, expect_with_sof + 1, sizeof expect_with_sof - 1, 0, fr) == 1
              && fr[0].n == sizeof payload && memcmp(fr[0].pl, payload, sizeof payload) == 0,
              "reference frame recogniser vs classic encoding");
    int k = parse_run(false, sync_to_start, sizeof sync_to_start, 0, fr);
    MC_ANCHOR(k == 9, "sync_to_start has 9 classic frames");
    for (int i = 0; i < 9; ++i)
        MC_ANCHOR(fr[i].n == strlen(without_sof[i]) && memcmp(fr[i].pl, without_sof[i], fr[i].n) == 0,
                  "sync_without_sof list");
    k = parse_run(true, sync_to_start, sizeof sync_to_start, 0, fr);
    MC_ANCHOR(k == 2 && fr[0].n == 3 && !memcmp(fr[0].pl, "abc", 3) && !memcmp(fr[1].pl, "def", 3)
              && fr[1].e == 10, "sync_with_sof: abc def, then out of sync at offset 10");
    k = parse_run(true, sync_to_start, sizeof sync_to_start, 14, fr);
    MC_ANCHOR(k == 2 && !memcmp(fr[0].pl, "jkl", 3) && !memcmp(fr[1].pl, "mno", 3),
              "sync_with_sof: jkl mno behind the double delimiter");
    MC_ANCHOR(first_invalid_escape(with_error, sizeof with_error, 8) == 9, "with_error: ESC o at offset 9");
    MC_ANCHOR(first_invalid_escape(with_error, sizeof with_error, 14) == 15, "with_error: ESC EOF at offset 15");
    k = parse_run(true, with_error, sizeof with_error, 17, fr);
    MC_ANCHOR(k == 1 && fr[0].n == 3 && !memcmp(fr[0].pl, "foo", 3), "with_error: foo behind the errors");
#ifdef EHWPOISON
    MC_ANCHOR(EHWPOISON == ERRNO_LAST, "the platform's errno table ends at 133");
#endif
    MC_ANCHOR(ENODATA <= ERRNO_LAST && EILSEQ <= ERRNO_LAST && EAGAIN <= ERRNO_LAST && EINTR <= ERRNO_LAST,
              "the codes rfc1055 gives a meaning to are part of the alphabet");
    MC_ANCHOR(-EILSEQ < 0 && -ENODATA < 0 && EILSEQ != ENODATA && EIO != EILSEQ && EPIPE != EILSEQ
              && EIO != ENODATA && EPIPE != ENODATA, "error codes are distinct");
}

static const char *
modename(bool sof)
{
    return sof ? "sof" : "classic";
}

static bool
has_special(const unsigned char *p, size_t n)
{
    for (size_t i = 0; i < n; ++i)
        if (p[i] == O_END || p[i] == O_ESC)
            return true;
    return false;
}

static bool
all_special(const unsigned char *p, size_t n)
{
    for (size_t i = 0; i < n; ++i)
        if (p[i] != O_END && p[i] != O_ESC)
            return false;
    return n > 0;
}

/* What a stream is, lexically (outcome classes must not depend on what the
 * implementation under test makes of the stream: a misbehaving decoder has to
 * end in a violation, never in a vacuity failure of the check). */
struct lexclass {
    int frames, nonempty_frames; /* of the leading run of well-formed frames */
    bool invalid_escape;         /* some ESC is followed by an octet other than dc/dd */
};

static struct lexclass
lex_class(bool sof, const unsigned char *st, size_t len)
{
    static struct frame fr[MAXFR];
    struct lexclass lc = { 0, 0, false };
    lc.frames = parse_run(sof, st, len, 0, fr);
    for (int i = 0; i < lc.frames; ++i)
        if (fr[i].n)
            lc.nonempty_frames++;
    for (size_t i = 0; i + 1 < len; ++i)
        if (st[i] == O_ESC && st[i + 1] != O_ESC_END && st[i + 1] != O_ESC_ESC)
            lc.invalid_escape = true;
    return lc;
}

/* decode E.out[0,E.n) from a fresh context and demand exactly `want` */
static void
roundtrip_decode(bool sof, bool use_init_fn, enum kind kind)
{
    static unsigned char stream[MAXSTREAM + 16];
    const size_t len = E.n;
    memcpy(stream, E.out, len);
    run_decoder(sof ? RFC1055_WITH_SOF : RFC1055_DEFAULT, -1, use_init_fn, kind,
                stream, len, NO_INJECT);
}

/* a complete, successful encode of p: all encoding clauses + decode round trip */
static void
judge_complete_encoding(bool sof, bool initfn, const unsigned char *p, size_t n)
{
    if (!judge_encoding(sof, p, n, 0))
        return;
    roundtrip_decode(sof, initfn, K_OCTET);
    judge(sof, true, false, E.out, E.n, -1);
    if (!mc.cur_failed
        && !(R.n == 2 && R.c[0].rc == 1 && R.c[0].olen == n && memcmp(R.out, p, n) == 0
             && R.c[0].off1 == E.n))
        mc_fail("C12/roundtrip-in-order", "encode reported success, but what reached the sink (%s) does not decode to the payload followed by the end of the source: %d calls, first rc=%s emitted=%s",
                hex(E.out, E.n > 40 ? 40 : E.n), R.n, errname(R.c[0].rc), hex(R.out, R.c[0].olen));
}

/* where a source interruption hits the stream */
enum at { AT_BOUNDARY, AT_INSIDE_FRAME, AT_INSIDE_ESCAPE, AT_UNFRAMED, AT_END, AT_N };
static const char *const AT_NAME[AT_N] = { "frame-boundary", "inside-frame", "inside-escape", "unframed", "end-of-stream" };

/* where in the stream the decoder is when the source call that would deliver
 * st[k] fails - by what the stream is */
static enum at
position_class(bool sof, const unsigned char *st, size_t len, size_t k)
{
    static struct frame fr[MAXFR];
    if (k > 0 && st[k - 1] == O_ESC) {
        /* is that ESC the first octet of an escape, pairing from the last delimiter? */
        size_t b = k - 1;
        while (b > 0 && st[b - 1] != O_END)
            b--;
        for (size_t i = b; i < k;) {
            if (st[i] != O_ESC)
                i++;
            else if (i == k - 1)
                return AT_INSIDE_ESCAPE;
            else
                i += 2;
        }
    }
    const int nfr = parse_run(sof, st, len, 0, fr);
    if (k == 0)
        return AT_BOUNDARY;
    for (int i = 0; i < nfr; ++i)
        if (k == fr[i].e)
            return AT_BOUNDARY;
    if (k == len)
        return AT_END;
    if (nfr && k < fr[nfr - 1].e)
        return AT_INSIDE_FRAME;
    return AT_UNFRAMED;
}

#ifndef C12_ESTATE
/* ========================================================================= */
/* E-SPACE families                                                           */

/* (a) every payload: encode, clauses on the encoding, decode back */
static void
family_roundtrip(size_t maxlen)
{
    unsigned char p[16];
    for (int sof = 0; sof < 2; ++sof)
        for (size_t n = 0; n <= maxlen; ++n)
            for (uint64_t idx = 0; idx < P5[n]; ++idx) {
                if (!mc_would_run()) {
                    mc_skip_case();
                    continue;
                }
                nth_string(n, idx, p);
                mc_case("roundtrip mode=%s payload=%s", modename(sof), hex(p, n));
                run_encoder(sof, true, K_OCTET, p, n, NO_INJECT, false);
                if (judge_encoding(sof, p, n, 0)) {
                    roundtrip_decode(sof, true, K_OCTET);
                    struct verdict v = judge(sof, true, false, E.out, E.n, -1);
                    /* the encoding must be one frame carrying p: R.c[0] */
                    if (!mc.cur_failed
                        && !(R.n == 2 && R.c[0].rc == 1 && R.c[0].olen == n
                             && memcmp(R.out, p, n) == 0 && R.c[0].off1 == E.n))
                        mc_fail("C12/roundtrip-in-order", "decode(encode(p)) is not p followed by the end of the source: %d calls, first rc=%s emitted=%s",
                                R.n, errname(R.c[0].rc), hex(R.out, R.c[0].olen));
                    (void)v;
                }
                mc_end(n > 0, n == 0 ? "rt-empty" : all_special(p, n) ? "rt-worst-case"
                       : has_special(p, n) ? "rt-escaped" : "rt-plain");
            }
}

/* (a') every ordered pair: two encode calls into one sink, decode the lot.
 * ctxmode 0: a fresh rfc1055_context_init context per call (encode, encode,
 * decode); 1: one context object set up by rfc1055_context_init and used for
 * both encode calls and then for the decode; 2: the same with a context set
 * up by the header's static initialiser. */
static void
family_pairs(size_t maxlen)
{
    unsigned char p1[8], p2[8];
    static const char *const cm[3] = { "fresh", "reused-init-function", "reused-static-initialiser" };
    for (int sof = 0; sof < 2; ++sof)
        for (int ctxmode = 0; ctxmode < 3; ++ctxmode)
        for (size_t n1 = 0; n1 <= maxlen; ++n1)
            for (uint64_t i1 = 0; i1 < P5[n1]; ++i1)
                for (size_t n2 = 0; n2 <= maxlen; ++n2)
                    for (uint64_t i2 = 0; i2 < P5[n2]; ++i2) {
                        if (!mc_would_run()) {
                            mc_skip_case();
                            continue;
                        }
                        nth_string(n1, i1, p1);
                        nth_string(n2, i2, p2);
                        mc_case("pair mode=%s context=%s p1=%s p2=%s", modename(sof), cm[ctxmode],
                                hex(p1, n1), hex(p2, n2));
                        RFC1055Context *shared = NULL;
                        if (ctxmode) {
                            shared = mc_exact(sizeof *shared);
                            memset(shared, 0, sizeof *shared);
                            if (ctxmode == 1) {
                                memset(shared, 0xa5, sizeof *shared);
                                rfc1055_context_init(shared, sof ? RFC1055_WITH_SOF : RFC1055_DEFAULT);
                            } else {
                                const RFC1055Context c0 = RFC1055_CONTEXT_INIT_DEFAULT;
                                const RFC1055Context c1 = RFC1055_CONTEXT_INIT_WITH_SOF;
                                memcpy(shared, sof ? &c1 : &c0, sizeof *shared);
                            }
                        }
                        EENV.ctx = shared;
                        run_encoder(sof, true, K_OCTET, p1, n1, NO_INJECT, false);
                        bool ok = judge_encoding(sof, p1, n1, 0);
                        const size_t mid = E.n;
                        if (ok) {
                            run_encoder(sof, true, K_OCTET, p2, n2, NO_INJECT, true);
                            ok = judge_encoding(sof, p2, n2, mid);
                        }
                        EENV.ctx = NULL;
                        if (ok) {
                            /* the context object that encoded is the one that decodes */
                            if (shared)
                                ctx_image_in = (const unsigned char *)shared;
                            roundtrip_decode(sof, true, K_OCTET);
                            ctx_image_in = NULL;
                            judge(sof, true, false, E.out, E.n, -1);
                            if (!mc.cur_failed
                                && !(R.n == 3 && R.c[0].rc == 1 && R.c[1].rc == 1
                                     && R.c[0].olen == n1 && memcmp(R.out + R.c[0].o0, p1, n1) == 0
                                     && R.c[1].olen == n2 && memcmp(R.out + R.c[1].o0, p2, n2) == 0
                                     && R.c[0].off1 == mid && R.c[1].off1 == E.n))
                                mc_fail("C12/roundtrip-in-order", "concatenated encodings did not decode to (p1, p2, end of source): %d calls", R.n);
                        }
                        free(shared);
                        mc_end(n1 + n2 > 0, ctxmode ? "pair-context-reused"
                               : (n1 == 0 || n2 == 0) ? "pair-with-empty" : "pair");
                    }
}

/* RFC1055_WORST_CASE dimensions buffers for the statement's bound: a value
 * below 2n+1 (2n+2) would let a worst-case encoding overflow them; a larger
 * (conservative) value is fine - the statement bounds the encoding, not the
 * macro */
static void
family_macro(void)
{
    for (int sof = 0; sof < 2; ++sof) {
        if (!mc_case("worst-case-macro mode=%s n=0..1100", modename(sof)))
            continue;
        for (size_t n = 0; n <= 1100; ++n) {
            const size_t w = sof ? RFC1055_WORST_WITHSOF(n) : RFC1055_WORST_CLASSIC(n);
            const size_t g = RFC1055_WORST_CASE(n, sof != 0);
            if (w < 2 * n + (sof ? 2 : 1) || g < 2 * n + (sof ? 2 : 1)) {
                mc_fail("C12/worst-case-macro", "RFC1055_WORST_CASE(%zu,%s) = %zu / %zu is below the worst-case encoding length %zu",
                        n, sof ? "true" : "false", g, w, 2 * n + (sof ? 2 : 1));
                break;
            }
        }
        mc_end(true, "worst-case-macro");
    }
    /* The same for lengths of type size_t / uint64_t around every power of
     * two (a payload that long is a stream, not a buffer: the encoder has no
     * length limit), and for arguments that are expressions.  Pure
     * arithmetic, no memory.  Lengths with headroom only, n <= SIZE_MAX/4:
     * a conservative macro (2n plus some slack, 3n, ...) is admissible and
     * wraps by the language's own rules before 2n+2 does, so nothing is
     * demanded where the bound itself is within a factor two of SIZE_MAX. */
    const int kmax = (int)(sizeof(size_t) * 8) - 2;
    for (int sof = 0; sof < 2; ++sof)
        for (int k = 1; k <= kmax; ++k) {
            if (!mc_case("worst-case-macro-wide mode=%s n=2^%d-2..2^%d+2 (size_t and uint64_t arguments, plain and as expressions)",
                         modename(sof), k, k))
                continue;
            for (int d = -2; d <= 2; ++d) {
                const size_t n = ((size_t)1 << k) + (size_t)(long)d;
                if (n > SIZE_MAX / 4)
                    continue;
                const size_t want = 2 * n + (sof ? 2 : 1);
                const uint64_t n64 = n;
                const size_t a = n / 3, b = n - n / 3;
                const unsigned flags = sof ? RFC1055_WITH_SOF : RFC1055_DEFAULT;
                const size_t got[6] = {
                    sof ? RFC1055_WORST_WITHSOF(n) : RFC1055_WORST_CLASSIC(n),
                    RFC1055_WORST_CASE(n, sof != 0),
                    (size_t)(sof ? RFC1055_WORST_WITHSOF(n64) : RFC1055_WORST_CLASSIC(n64)),
                    sof ? RFC1055_WORST_WITHSOF(a + b) : RFC1055_WORST_CLASSIC(a + b),
                    RFC1055_WORST_CASE(a + b, flags & RFC1055_WITH_SOF),
                    RFC1055_WORST_CASE(n, sof ? true : false) + 0u,
                };
                static const char *const form[6] = {
                    "WORST_CLASSIC/WITHSOF(n)", "WORST_CASE(n, sof != 0)", "WORST_CLASSIC/WITHSOF((uint64_t)n)",
                    "WORST_CLASSIC/WITHSOF(a + b)", "WORST_CASE(a + b, flags & RFC1055_WITH_SOF)",
                    "WORST_CASE(n, sof ? true : false) + 0u" };
                for (int i = 0; i < 6; ++i)
                    if (got[i] < want) {
                        mc_fail("C12/worst-case-macro", "RFC1055_%s with n = %zu (a = %zu, b = %zu), mode %s, is %zu: below the worst-case encoding length %zu",
                                form[i], n, a, b, modename(sof), got[i], want);
                        break;
                    }
                /* the macro as an operand: a caller adding a header to it */
                if (n < 100000) {
                    const size_t t = 3u * RFC1055_WORST_CASE(n, sof != 0);
                    if (t < 3 * want)
                        mc_fail("C12/worst-case-macro", "3u * RFC1055_WORST_CASE(%zu,%s) is %zu: below 3 x the worst-case encoding length %zu",
                                n, sof ? "true" : "false", t, want);
                }
            }
            mc_end(true, k >= 31 ? "worst-case-macro-beyond-32-bit" : "worst-case-macro-wide");
        }
}

/* (b) every class string as raw decoder input */
static void
family_raw(size_t maxlen)
{
    unsigned char st[16];
    for (int sof = 0; sof < 2; ++sof)
        for (size_t n = 0; n <= maxlen; ++n)
            for (uint64_t idx = 0; idx < P5[n]; ++idx) {
                if (!mc_would_run()) {
                    mc_skip_case();
                    continue;
                }
                nth_string(n, idx, st);
                mc_case("raw mode=%s stream=%s", modename(sof), hex(st, n));
                run_decoder(sof ? RFC1055_WITH_SOF : RFC1055_DEFAULT, 0, true, K_OCTET, st, n, NO_INJECT);
                judge(sof, true, false, st, n, -1);
                /* classes by what the stream is, not by what the decoder made of it */
                const struct lexclass lc = lex_class(sof, st, n);
                const char *o = lc.invalid_escape ? (lc.nonempty_frames ? "raw-eilseq-and-frames" : "raw-eilseq")
                    : lc.nonempty_frames ? "raw-frames" : lc.frames ? "raw-empty-frames" : "raw-no-frame";
                mc_end(lc.invalid_escape || lc.frames > 0, o);
            }
}

/* (b') ESC followed by each of the 256 octet values inside a frame that is
 * followed by a good frame: only dc and dd are valid second octets */
static void
family_raw_escape_all(void)
{
    unsigned char st[16];
    for (int sof = 0; sof < 2; ++sof)
        for (int lead = 0; lead < 2; ++lead) /* escape first in the frame / behind an ordinary octet */
            for (int v = 0; v < 256; ++v) {
                if (!mc_case("raw-escape mode=%s lead=%d second-octet=%02x", modename(sof), lead, v))
                    continue;
                size_t n = 0;
                if (sof)
                    st[n++] = O_END;
                if (lead)
                    st[n++] = 0x61;
                st[n++] = O_ESC;
                st[n++] = (unsigned char)v;
                st[n++] = 0x62;
                st[n++] = O_END;
                for (int f = 0; f < 2; ++f) {
                    if (sof)
                        st[n++] = O_END;
                    st[n++] = (unsigned char)(0x63 + f);
                    st[n++] = O_END;
                }
                mc_log_hex("stream", st, n);
                run_decoder(sof ? RFC1055_WITH_SOF : RFC1055_DEFAULT, 0, true, K_OCTET, st, n, NO_INJECT);
                judge(sof, true, false, st, n, -1);
                mc_end(true, (v == O_ESC_END || v == O_ESC_ESC) ? "escape-valid" : "escape-invalid");
            }
}

/* (c) garbage prefix x sequence of well-formed frames */
#define NPL2 31 /* payloads of length <= 2 */
static unsigned char PL[NPL2][2];
static size_t PLN[NPL2];

static void
resync_case(bool sof, const unsigned char *g, size_t gl, const int *f, int nf)
{
    if (!mc_would_run()) {
        mc_skip_case();
        return;
    }
    unsigned char st[64];
    size_t len = gl;
    memcpy(st, g, gl);
    for (int i = 0; i < nf; ++i)
        len += ref_encode(sof, PL[f[i]], PLN[f[i]], st + len);
    mc_case("resync mode=%s garbage=%s frames=%s|%s|%s", modename(sof), hex(g, gl),
            hex(PL[f[0]], PLN[f[0]]), nf > 1 ? hex(PL[f[1]], PLN[f[1]]) : "",
            nf > 2 ? hex(PL[f[2]], PLN[f[2]]) : "");
    mc_log_hex("stream", st, len);
    run_decoder(sof ? RFC1055_WITH_SOF : RFC1055_DEFAULT, 0, true, K_OCTET, st, len, NO_INJECT);
    /* gl == 0 is the concatenation clause again, judged as `initial` */
    struct verdict v = judge(sof, true, false, st, len, (long)gl);
    /* classes by what the stream is (v.required is computed from the stream) */
    const char *o;
    if (v.required == 0)
        o = "resync-nothing-owed";
    else if (gl == 0)
        o = "resync-no-garbage";
    else if (lex_class(false, g, gl).invalid_escape)
        o = "resync-after-invalid-escape";
    else if (memchr(g, O_END, gl))
        o = "resync-garbage-with-delimiter";
    else
        o = "resync-garbage-without-delimiter";
    mc_end(v.required > 0, o);
}

static void
family_resync(size_t gmax, int nframes_max, int plmax /* payload ids < plmax */, size_t gmin)
{
    unsigned char g[8];
    int f[3];
    for (int sof = 0; sof < 2; ++sof)
        for (size_t gl = gmin; gl <= gmax; ++gl)
            for (uint64_t gi = 0; gi < P5[gl]; ++gi) {
                nth_string(gl, gi, g);
                for (int nf = 1; nf <= nframes_max; ++nf) {
                    const int n0 = plmax, n1 = nf > 1 ? plmax : 1, n2 = nf > 2 ? plmax : 1;
                    for (f[0] = 0; f[0] < n0; ++f[0])
                        for (f[1] = 0; f[1] < n1; ++f[1])
                            for (f[2] = 0; f[2] < n2; ++f[2])
                                resync_case(sof, g, gl, f, nf);
                }
            }
}

/* three frames with payload length <= 1 (quick tier complement) */
static void
family_resync3(size_t gmax)
{
    unsigned char g[8];
    int f[3];
    for (int sof = 0; sof < 2; ++sof)
        for (size_t gl = 0; gl <= gmax; ++gl)
            for (uint64_t gi = 0; gi < P5[gl]; ++gi) {
                nth_string(gl, gi, g);
                for (f[0] = 0; f[0] < 6; ++f[0])
                    for (f[1] = 0; f[1] < 6; ++f[1])
                        for (f[2] = 0; f[2] < 6; ++f[2])
                            resync_case(sof, g, gl, f, 3);
            }
}

/* (d) error injection.  Hard codes come back unchanged; the two codes the
 * endpoint contract defines as "nothing done, call again" (-EAGAIN, -EINTR)
 * come back unchanged or are retried by the library (sink_put_chunk does). */
static const int CODES[4] = { -EIO, -EPIPE, -EAGAIN, -EINTR };
#define NHARD 2
#define TRANSIENT(code) ((code) == -EAGAIN || (code) == -EINTR)

static void
family_fault_encode(size_t maxlen)
{
    unsigned char p[8], ref[24];
    for (int sof = 0; sof < 2; ++sof)
        for (size_t n = 0; n <= maxlen; ++n)
            for (uint64_t idx = 0; idx < P5[n]; ++idx) {
                nth_string(n, idx, p);
                const size_t m = ref_encode(sof, p, n, ref);
                for (int which = 0; which < 2; ++which) {
                    /* sink: one position per octet of the encoding; source:
                     * one per payload octet plus the call that reports the end */
                    const long npos = which == 0 ? (long)m : (long)n + 1;
                    for (long at = 0; at < npos; ++at)
                        for (int ci = 0; ci < 4; ++ci) {
                            if (!mc_would_run()) {
                                mc_skip_case();
                                continue;
                            }
                            mc_case("fault-encode mode=%s payload=%s %s-call=%ld code=%s",
                                    modename(sof), hex(p, n), which ? "source" : "sink", at,
                                    errname(CODES[ci]));
                            struct inject inj = { which ? at : -1, which ? -1 : at, CODES[ci], 0, 0 };
                            run_encoder(sof, true, K_OCTET, p, n, inj, false);
                            const bool fired = which ? E.sfired : E.kfired;
                            if (E.hang)
                                mc_fail("C12/hang", "encode exceeded the driver call budget");
                            else if (fired && E.rc != CODES[ci]) {
                                if (ci < NHARD || E.rc < 0)
                                    mc_fail(which ? "C12/source-error-unchanged" : "C12/sink-error-unchanged",
                                            "%s failed with %s, encode returned %s", which ? "source" : "sink",
                                            errname(CODES[ci]), errname(E.rc));
                                else /* retried the interrupted call: then the encoding is complete */
                                    judge_complete_encoding(sof, true, p, n);
                            } else if (!fired && E.rc < 0)
                                mc_fail("C12/encode-succeeds", "no driver failed, encode returned %s", errname(E.rc));
                            mc_end(fired, !fired ? "fault-not-reached"
                                   : which ? (ci < NHARD ? "encode-source-error" : "encode-source-interrupted")
                                   : (ci < NHARD ? "encode-sink-error" : "encode-sink-interrupted"));
                        }
                }
            }
}

/* Streams of the history families: every class string up to rawmax octets,
 * every sequence of two well-formed frames with payload ids < p2 and of three
 * with payload ids < p3 (PL[]: payloads by length, then class order). */
struct sset {
    size_t rawmax;
    int p2, p3;
};

static uint64_t
sset_count(const struct sset *ss)
{
    uint64_t c = 0;
    for (size_t n = 0; n <= ss->rawmax; ++n)
        c += P5[n];
    return c + (uint64_t)ss->p2 * ss->p2 + (uint64_t)ss->p3 * ss->p3 * ss->p3;
}

static void
sset_get(const struct sset *ss, bool sof, uint64_t id, unsigned char *st, size_t *len)
{
    for (size_t n = 0; n <= ss->rawmax; ++n) {
        if (id < P5[n]) {
            nth_string(n, id, st);
            *len = n;
            return;
        }
        id -= P5[n];
    }
    int f[3], nf;
    const uint64_t q2 = (uint64_t)ss->p2 * ss->p2;
    if (id < q2) {
        nf = 2;
        f[0] = (int)(id / ss->p2);
        f[1] = (int)(id % ss->p2);
    } else {
        id -= q2;
        nf = 3;
        f[0] = (int)(id / ((uint64_t)ss->p3 * ss->p3));
        f[1] = (int)(id / ss->p3 % ss->p3);
        f[2] = (int)(id % ss->p3);
    }
    size_t l = 0;
    for (int i = 0; i < nf; ++i)
        l += ref_encode(sof, PL[f[i]], PLN[f[i]], st + l);
    *len = l;
}

/* (d') hard source errors and all sink errors while decoding, and the decoder
 * used on with the same context and source: the injected code comes back
 * unchanged (-EAGAIN/-EINTR of the sink: or the call is retried), and behind
 * the failure the decoder resynchronises like behind any corrupted prefix
 * (the statement does not say more about the frame that was in flight: with a
 * sink that refused an octet, that octet may be gone). */
static void
family_fault_decode(const struct sset *ss)
{
    unsigned char st[40];
    size_t n;
    const uint64_t ns = sset_count(ss);
    for (int sof = 0; sof < 2; ++sof)
        for (uint64_t sid = 1; sid < ns; ++sid) {
            sset_get(ss, sof, sid, st, &n);
            for (int which = 0; which < 2; ++which) {
                /* source call k (k = 0..n; without faults call n reports
                 * the end); sink call k < n (emitted <= consumed) */
                const long npos = which ? (long)n + 1 : (long)n;
                const int ncodes = which ? NHARD : 4; /* -EAGAIN/-EINTR of the source: family (g) */
                for (long at = 0; at < npos; ++at)
                    for (int ci = 0; ci < ncodes; ++ci) {
                        if (!mc_would_run()) {
                            mc_skip_case();
                            continue;
                        }
                        mc_case("fault-decode mode=%s stream=%s %s-call=%ld code=%s, decoding continued",
                                modename(sof), hex(st, n), which ? "source" : "sink", at,
                                errname(CODES[ci]));
                        struct inject inj = { which ? at : -1, which ? -1 : at, CODES[ci], 0, 0 };
                        run_decoder(sof ? RFC1055_WITH_SOF : RFC1055_DEFAULT, 0, true, K_OCTET, st, n, inj);
                        judge(sof, true, true, st, n, -1);
                        bool fired = false;
                        size_t behind = 0;
                        for (int i = 0; i < R.n; ++i) {
                            const struct dcall *c = &R.c[i];
                            if (!(c->sfired || c->kfired))
                                continue;
                            fired = true;
                            behind = c->off1;
                            const bool retried = ci >= NHARD
                                && (c->rc == 1 || c->rc == -EILSEQ || (c->rc == -ENODATA && c->off1 == n));
                            if (c->rc != CODES[ci] && !retried)
                                mc_fail(which ? "C12/source-error-unchanged" : "C12/sink-error-unchanged",
                                        "%s failed with %s during call %d, decode returned %s",
                                        which ? "source" : "sink", errname(CODES[ci]), i, errname(c->rc));
                        }
                        if (fired && !R.hang && !R.overflow && !R.latched)
                            judge_from(sof, false, false, st, n, -1, behind);
                        mc_end(fired, !fired ? "fault-not-reached"
                               : which ? "decode-source-error"
                               : ci < NHARD ? "decode-sink-error" : "decode-sink-interrupted");
                    }
            }
        }
}

/* (d'') the whole error alphabet.  "Source or sink errors are returned
 * unchanged" names no code: every code of ALPHA[] is answered by the source
 * and by the sink at every driver call position of the encoder and of the
 * decoder, through octet drivers (context from rfc1055_context_init) and
 * through chunk drivers (context from the static initialiser; an escape pair
 * then reaches the sink in one call).  Readings kept from (d)/(d')/(g):
 *   - -EAGAIN/-EINTR answered to the encoder, or by the sink of the decoder:
 *     unchanged, or the call is retried (then the result is complete);
 *   - -EAGAIN/-EINTR answered by the decoder's source are interruptions
 *     (family g), not generated here;
 *   - -ENODATA answered by the *encoder's source* is that source's way to say
 *     "no more payload" (it is how every encode ends), not an error: not
 *     generated.  Answered by a sink, or by the decoder's source in the middle
 *     of the stream, it is a code like any other: returned unchanged; behind
 *     it the decoder owes what it owes behind any failure (resynchronisation). */
static void
family_alphabet_encode(size_t maxlen)
{
    unsigned char p[8], ref[24];
    for (int sof = 0; sof < 2; ++sof)
        for (int kind = 0; kind < 2; ++kind)
            for (size_t n = 0; n <= maxlen; ++n)
                for (uint64_t idx = 0; idx < P5[n]; ++idx) {
                    nth_string(n, idx, p);
                    const size_t m = ref_encode(sof, p, n, ref);
                    for (int which = 0; which < 2; ++which) {
                        /* sink: at most one call per octet of the encoding (chunk
                         * drivers need fewer: the positions behind are "not
                         * reached"); source: one per payload octet plus the end */
                        const long npos = which == 0 ? (long)m : (long)n + 1;
                        for (long at = 0; at < npos; ++at)
                            for (int ci = 0; ci < NALPHA; ++ci) {
                                const int code = ALPHA[ci];
                                if (which && code == -ENODATA)
                                    continue;
                                if (!mc_would_run()) {
                                    mc_skip_case();
                                    continue;
                                }
                                mc_case("fault-alphabet-encode mode=%s drivers=%s payload=%s %s-call=%ld code=%s",
                                        modename(sof), kind == K_CHUNK ? "chunk/static-initialiser" : "octet/init-function",
                                        hex(p, n), which ? "source" : "sink", at, errname(code));
                                struct inject inj = { which ? at : -1, which ? -1 : at, code, 0, 0 };
                                run_encoder(sof, kind == K_OCTET, (enum kind)kind, p, n, inj, false);
                                const bool fired = which ? E.sfired : E.kfired;
                                if (E.hang)
                                    mc_fail("C12/hang", "encode exceeded the driver call budget");
                                else if (fired && E.rc != code) {
                                    if (!TRANSIENT(code) || E.rc < 0)
                                        mc_fail(which ? "C12/source-error-unchanged" : "C12/sink-error-unchanged",
                                                "%s failed with %s, encode returned %s", which ? "source" : "sink",
                                                errname(code), errname(E.rc));
                                    else /* retried the interrupted call: then the encoding is complete */
                                        judge_complete_encoding(sof, kind == K_OCTET, p, n);
                                } else if (!fired && E.rc < 0)
                                    mc_fail("C12/encode-succeeds", "no driver failed, encode returned %s", errname(E.rc));
                                mc_end(fired, !fired ? "fault-not-reached"
                                       : which ? (TRANSIENT(code) ? "encode-source-interrupted" : "encode-source-error-alphabet")
                                       : (TRANSIENT(code) ? "encode-sink-interrupted" : "encode-sink-error-alphabet"));
                            }
                    }
                }
}

static void
family_alphabet_decode(const struct sset *ss_octet, const struct sset *ss_chunk)
{
    unsigned char st[40];
    size_t n;
    for (int sof = 0; sof < 2; ++sof)
        for (int kind = 0; kind < 2; ++kind) {
            const struct sset *ss = kind == K_CHUNK ? ss_chunk : ss_octet;
            const uint64_t ns = sset_count(ss);
            for (uint64_t sid = 1; sid < ns; ++sid) {
                sset_get(ss, sof, sid, st, &n);
                for (int which = 0; which < 2; ++which) {
                    const long npos = which ? (long)n + 1 : (long)n;
                    for (long at = 0; at < npos; ++at)
                        for (int ci = 0; ci < NALPHA; ++ci) {
                            const int code = ALPHA[ci];
                            if (which && TRANSIENT(code))
                                continue; /* interruptions of the source: family (g) */
                            if (!mc_would_run()) {
                                mc_skip_case();
                                continue;
                            }
                            mc_case("fault-alphabet-decode mode=%s drivers=%s stream=%s %s-call=%ld code=%s, decoding continued",
                                    modename(sof), kind == K_CHUNK ? "chunk/static-initialiser" : "octet/init-function",
                                    hex(st, n), which ? "source" : "sink", at, errname(code));
                            struct inject inj = { which ? at : -1, which ? -1 : at, code, 0, 0 };
                            run_decoder(sof ? RFC1055_WITH_SOF : RFC1055_DEFAULT, -1, kind == K_OCTET, (enum kind)kind,
                                        st, n, inj);
                            judge(sof, true, true, st, n, -1);
                            bool fired = false;
                            size_t behind = 0;
                            for (int i = 0; i < R.n; ++i) {
                                const struct dcall *c = &R.c[i];
                                if (!(c->sfired || c->kfired))
                                    continue;
                                fired = true;
                                behind = c->off1;
                                /* the sink's "call again": the decoder may have done so itself */
                                const bool retried = TRANSIENT(code)
                                    && (c->rc == 1 || c->rc == -EILSEQ || (c->rc == -ENODATA && c->off1 == n));
                                if (c->rc != code && !retried)
                                    mc_fail(which ? "C12/source-error-unchanged" : "C12/sink-error-unchanged",
                                            "%s failed with %s during call %d, decode returned %s",
                                            which ? "source" : "sink", errname(code), i, errname(c->rc));
                            }
                            if (fired && !R.hang && !R.overflow && !R.latched)
                                judge_from(sof, false, false, st, n, -1, behind);
                            mc_end(fired, !fired ? "fault-not-reached"
                                   : which ? "decode-source-error-alphabet"
                                   : TRANSIENT(code) ? "decode-sink-interrupted" : "decode-sink-error-alphabet");
                        }
                }
            }
        }
}

/* (g) the source interrupts the decoder: -EAGAIN / -EINTR / -ENODATA (empty
 * for now, refilled) at every source
 * call position (one interruption; two, also back to back), both modes, both
 * ways to set a context up, octet and chunk drivers; same context, same
 * source afterwards.  The interruption consumed nothing, so the statement
 * speaks about the stream as if it had not happened. */
static void
interrupt_case(bool sof, int setup, const unsigned char *st, size_t len, long k1, int c1, long k2, int c2)
{
    if (!mc_would_run()) {
        mc_skip_case();
        return;
    }
    /* setup 0: rfc1055_context_init + octet drivers; 1: static initialiser + chunk drivers */
    const enum at at1 = position_class(sof, st, len, (size_t)k1);
    if (k2 < 0) {
        mc_case("interrupt mode=%s setup=%s stream=%s source-call=%ld code=%s at=%s", modename(sof),
                setup ? "static-initialiser/chunk-drivers" : "init-function/octet-drivers", hex(st, len),
                k1, errname(c1), AT_NAME[at1]);
    } else {
        /* the second failing call comes one call later than the position it is at */
        const enum at at2 = position_class(sof, st, len, (size_t)(k2 - 1));
        mc_case("interrupt mode=%s setup=%s stream=%s source-call=%ld code=%s at=%s and source-call=%ld code=%s at=%s",
                modename(sof), setup ? "static-initialiser/chunk-drivers" : "init-function/octet-drivers",
                hex(st, len), k1, errname(c1), AT_NAME[at1], k2, errname(c2), AT_NAME[at2]);
    }
    struct inject inj = { k1, -1, c1, k2 >= 0 ? k2 + 1 : 0, c2 };
    run_decoder(sof ? RFC1055_WITH_SOF : RFC1055_DEFAULT, -1, setup == 0, setup ? K_CHUNK : K_OCTET,
                st, len, inj);
    bool fired = false;
    for (int i = 0; i < R.n; ++i) {
        const struct dcall *c = &R.c[i];
        if (!c->sfired)
            continue;
        fired = true;
        /* returned unchanged, or the source was asked again within the call */
        if (c->rc != c->fcode && c->rc != 1 && c->rc != -EILSEQ && !(c->rc == -ENODATA && c->off1 == len))
            mc_fail("C12/source-error-unchanged", "source answered %s during call %d, decode returned %s",
                    errname(c->fcode), i, errname(c->rc));
    }
    const bool dry = c1 == -ENODATA || (k2 >= 0 && c2 == -ENODATA);
    g_fold_enodata = true;
    fold_interruptions();
    g_fold_enodata = false;
    if (R.folded)
        mc_log("%d interrupted call(s) folded into their successors", R.folded);
    if (dry && R.latched) {
        /* a decoder that takes -ENODATA for the end of its source for good and
         * repeats it is owed nothing behind it (see run_decoder) */
        mc_log("the decoder latched the source's -ENODATA: nothing judged behind it");
    } else {
        clause_override = "C12/source-interruption-transparent";
        judge(sof, true, false, st, len, -1);
        clause_override = NULL;
    }
    mc_end(fired, dry ? (k2 >= 0 ? "source-refilled-twice" : at1 == AT_INSIDE_ESCAPE ? "source-refilled-inside-escape" : "source-refilled")
           : k2 >= 0 ? "interrupt-twice"
           : at1 == AT_BOUNDARY ? "interrupt-at-frame-boundary"
           : at1 == AT_INSIDE_FRAME ? "interrupt-inside-frame"
           : at1 == AT_INSIDE_ESCAPE ? "interrupt-inside-escape"
           : at1 == AT_UNFRAMED ? "interrupt-unframed" : "interrupt-at-end-of-stream");
}

static void
family_interrupt(const struct sset *one, const struct sset *two)
{
    unsigned char st[40];
    size_t len;
    /* -ENODATA: the source has no octet for now (what the library's own buffer
     * sources answer when they are empty) and is refilled; the call consumed
     * nothing, the stream is the same stream */
    static const int TC[3] = { -EAGAIN, -EINTR, -ENODATA };
    for (int sof = 0; sof < 2; ++sof)
        for (int setup = 0; setup < 2; ++setup) {
            const uint64_t n1 = sset_count(one);
            for (uint64_t sid = 0; sid < n1; ++sid) {
                sset_get(one, sof, sid, st, &len);
                for (long k = 0; k <= (long)len; ++k)
                    for (int ci = 0; ci < 3; ++ci)
                        interrupt_case(sof, setup, st, len, k, TC[ci], -1, 0);
            }
            const uint64_t n2 = sset_count(two);
            for (uint64_t sid = 0; sid < n2; ++sid) {
                sset_get(two, sof, sid, st, &len);
                for (long k1 = 0; k1 <= (long)len; ++k1)
                    for (long k2 = k1 + 1; k2 <= (long)len + 1; ++k2)
                        for (int ci = 0; ci < 9; ++ci)
                            interrupt_case(sof, setup, st, len, k1, TC[ci % 3], k2, TC[ci / 3]);
            }
        }
}

/* (h) the encoder in front of a sink that writes short, takes nothing,
 * interrupts or fails, per call position.  Hard error: an error the sink
 * answered is returned (never success, never a code the sink did not answer).
 * -EAGAIN/-EINTR: returned unchanged or retried.  Behind a zero-length answer
 * (and no hard error) the encoder may give up with a code of its own.  Whenever
 * encode reports success, what reached the sink is a complete encoding of the
 * payload. */
static void
script_text(const signed char *sc, int ns, char *buf, size_t n)
{
    size_t l = 0;
    buf[0] = 0;
    for (int i = 0; i < ns && l + 12 < n; ++i)
        if (sc[i] != A_ALL)
            l += (size_t)snprintf(buf + l, n - l, "%s%d:%s", l ? "," : "", i, ANS_NAME[sc[i]]);
    if (l == 0)
        snprintf(buf, n, "none");
}

static void
judge_scripted_encode(bool sof, bool initfn, const unsigned char *p, size_t n)
{
    /* "Sink errors are returned unchanged": a negative result is one of the
     * codes the sink really answered in this execution - whichever of them
     * when it answered several (an encoder that, after a first error, still
     * tries to close the frame and meets a second error may report either). */
    const bool answered_rc = (E.rc == -EAGAIN && (E.answered & ANS_BIT(A_EAGAIN)))
        || (E.rc == -EINTR && (E.answered & ANS_BIT(A_EINTR)))
        || (E.rc == -EIO && (E.answered & ANS_BIT(A_EIO)))
        || (E.rc == -ENODATA && (E.answered & ANS_BIT(A_ENODATA)));
    if (E.hang) {
        mc_fail("C12/hang", "encode exceeded the driver call budget");
    } else if (E.answered & ANS_HARD) {
        /* a hard error was answered: encode cannot report success, and what
         * it reports is an error the sink answered */
        if (!answered_rc)
            mc_fail("C12/sink-error-unchanged", "sink failed with %s%s%s, encode returned %s",
                    (E.answered & ANS_BIT(A_EIO)) ? ((E.answered & ANS_BIT(A_ENODATA)) ? "-EIO and -ENODATA" : "-EIO") : "-ENODATA",
                    (E.answered & ANS_BIT(A_EAGAIN)) ? " and answered -EAGAIN" : "",
                    (E.answered & ANS_BIT(A_EINTR)) ? " and answered -EINTR" : "", errname(E.rc));
    } else if (E.rc < 0) {
        /* behind a zero-length answer (and no hard one) an encoder may give up
         * on a sink that takes nothing, with a code of its own: the statement
         * names no code for that (the same rule as in the run family) */
        if (!answered_rc && (E.answered & ANS_BIT(A_ZERO)))
            mc_log("encode gave up behind a zero answer with %s", errname(E.rc));
        else if (!answered_rc)
            mc_fail("C12/encode-succeeds", "encode returned %s, the sink never answered that", errname(E.rc));
    } else {
        judge_complete_encoding(sof, initfn, p, n);
    }
}

static void
scripted_encode_case(bool sof, enum kind kind, const unsigned char *p, size_t n,
                     const signed char *sc, int ns, int ndev)
{
    if (!mc_would_run()) {
        mc_skip_case();
        return;
    }
    char txt[96];
    script_text(sc, ns, txt, sizeof txt);
    /* chunk sink + static initialiser, octet sink + init function */
    mc_case("encode-script mode=%s sink=%s payload=%s sink-answers=[%s]", modename(sof),
            kind == K_CHUNK ? "chunk/static-initialiser" : "octet/init-function", hex(p, n), txt);
    memset(&EENV, 0, sizeof EENV);
    EENV.script = sc;
    EENV.nscript = ns;
    run_encoder(sof, kind == K_OCTET, kind, p, n, NO_INJECT, false);
    memset(&EENV, 0, sizeof EENV);
    judge_scripted_encode(sof, kind == K_OCTET, p, n);
    unsigned has = 0;
    for (int i = 0; i < ns; ++i)
        has |= ANS_BIT(sc[i]);
    mc_end(E.answered != 0, ndev > 1 ? "encode-sink-two-deviations"
           : (has & ANS_BIT(A_ONE)) ? "encode-sink-short-write"
           : (has & ANS_BIT(A_ZERO)) ? "encode-sink-zero-write"
           : (has & ANS_HARD) ? "encode-sink-hard-error" : "encode-sink-interrupt");
}

static void
family_encode_scripts(size_t max1, size_t max2, size_t maxfifo)
{
    unsigned char p[8];
    signed char sc[24];
    for (int sof = 0; sof < 2; ++sof)
        for (int kind = 0; kind < 2; ++kind)
            for (size_t n = 0; n <= max1; ++n)
                for (uint64_t idx = 0; idx < P5[n]; ++idx) {
                    nth_string(n, idx, p);
                    /* call slots: no sane encoder needs more than one call per encoded octet */
                    const int slots = (int)(2 * n + 3);
                    /* an octet sink is offered one octet per call: no short / zero writes */
                    const int a0 = kind == K_OCTET ? A_EAGAIN : A_ONE;
                    for (int s1 = 0; s1 < slots; ++s1)
                        for (int a1 = a0; a1 < A_NANSWERS; ++a1) {
                            memset(sc, A_ALL, sizeof sc);
                            sc[s1] = (signed char)a1;
                            scripted_encode_case(sof, (enum kind)kind, p, n, sc, slots, 1);
                        }
                    if (n > max2)
                        continue;
                    for (int s1 = 0; s1 < slots; ++s1)
                        for (int s2 = s1 + 1; s2 < slots; ++s2)
                            for (int a1 = a0; a1 < A_NANSWERS; ++a1)
                                for (int a2 = a0; a2 < A_NANSWERS; ++a2) {
                                    memset(sc, A_ALL, sizeof sc);
                                    sc[s1] = (signed char)a1;
                                    sc[s2] = (signed char)a2;
                                    scripted_encode_case(sof, (enum kind)kind, p, n, sc, slots, 2);
                                }
                }
    /* a transmit FIFO drained in blocks: every write ends at the next block boundary */
    for (int sof = 0; sof < 2; ++sof)
        for (size_t n = 0; n <= maxfifo; ++n)
            for (uint64_t idx = 0; idx < P5[n]; ++idx)
                for (size_t block = 1; block <= 8; ++block) {
                    if (!mc_would_run()) {
                        mc_skip_case();
                        continue;
                    }
                    nth_string(n, idx, p);
                    const bool initfn = (block & 1) != 0;
                    mc_case("encode-fifo mode=%s init=%s payload=%s chunk sink accepting up to the next multiple of %zu octets",
                            modename(sof), initfn ? "function" : "macro", hex(p, n), block);
                    memset(&EENV, 0, sizeof EENV);
                    EENV.block = block;
                    run_encoder(sof, initfn, K_CHUNK, p, n, NO_INJECT, false);
                    memset(&EENV, 0, sizeof EENV);
                    judge_scripted_encode(sof, initfn, p, n);
                    mc_end(n > 0, "encode-sink-fifo-blocks");
                }
}

/* (h') runs of answers.  At every sink call position the sink answers k = 1..8
 * times in a row "took nothing" (zero; also to a call offering one octet, the
 * endpoint contract allows it and says the system offers again), -EAGAIN or
 * -EINTR, then takes everything - or answers -EIO once behind the run; and a
 * sink that takes nothing for ever from that position on.  Oracle (the same
 * sentences as (h)): a success return means that a complete encoding reached
 * the sink; a negative return is a code the sink answered - or, behind a zero
 * answer, any negative code (an encoder may give up on a sink that takes
 * nothing; the statement names no code for that); behind an -EIO answer
 * success is not accepted.  In front of the dead sink the encoder may run into
 * the call budget (it offers for ever) or give up with an error; it cannot
 * report success. */
static void
run_script_case(bool sof, enum kind kind, const unsigned char *p, size_t n, int at, int runkind, int k, bool then_eio,
                bool dead)
{
    static const char *const RK[3] = { "zero", "-EAGAIN", "-EINTR" };
    static const signed char RA[3] = { A_ZERO, A_EAGAIN, A_EINTR };
    if (!mc_would_run()) {
        mc_skip_case();
        return;
    }
    signed char sc[48];
    memset(sc, A_ALL, sizeof sc);
    int ns = 0;
    if (dead) {
        mc_case("encode-run mode=%s sink=%s payload=%s the sink takes nothing (answers zero) from call %d on, for ever",
                modename(sof), kind == K_CHUNK ? "chunk/static-initialiser" : "octet/init-function", hex(p, n), at);
    } else {
        for (int i = 0; i < k; ++i)
            sc[at + i] = RA[runkind];
        ns = at + k;
        if (then_eio)
            sc[ns++] = A_EIO;
        mc_case("encode-run mode=%s sink=%s payload=%s sink calls %d..%d answer %s (also to a single octet)%s, every other call takes everything",
                modename(sof), kind == K_CHUNK ? "chunk/static-initialiser" : "octet/init-function", hex(p, n), at,
                at + k - 1, RK[runkind], then_eio ? ", the call behind them answers -EIO" : "");
    }
    memset(&EENV, 0, sizeof EENV);
    EENV.script = sc;
    EENV.nscript = ns;
    EENV.zero_any = true;
    EENV.dead_from_plus1 = dead ? at + 1 : 0;
    run_encoder(sof, kind == K_OCTET, kind, p, n, NO_INJECT, false);
    memset(&EENV, 0, sizeof EENV);
    const bool zeroed = (E.answered & ANS_BIT(A_ZERO)) != 0;
    if (dead) {
        /* reached the dead position: the budget overrun (offering for ever) and
         * any error are admissible, success is not */
        if (zeroed && E.rc >= 0 && !E.hang)
            mc_fail("C12/encode-succeeds", "the sink took nothing from call %d on, encode returned %d (success) with %zu octets in the sink",
                    at, E.rc, E.n);
        else if (!zeroed)
            judge_scripted_encode(sof, kind == K_OCTET, p, n);
    } else if (zeroed && !(E.answered & ANS_HARD) && E.rc < 0 && !E.hang) {
        /* gave up on a sink that took nothing: admissible, whatever the code */
        mc_log("encode gave up behind a zero answer with %s", errname(E.rc));
    } else {
        judge_scripted_encode(sof, kind == K_OCTET, p, n);
    }
    mc_end(E.answered != 0, dead ? "encode-sink-dead" : runkind == 0 ? "encode-sink-zero-run" : "encode-sink-interrupt-run");
}

static void
family_encode_runs(size_t maxlen)
{
    unsigned char p[8];
    for (int sof = 0; sof < 2; ++sof)
        for (int kind = 0; kind < 2; ++kind)
            for (size_t n = 0; n <= maxlen; ++n)
                for (uint64_t idx = 0; idx < P5[n]; ++idx) {
                    nth_string(n, idx, p);
                    const int slots = (int)(2 * n + 3);
                    for (int at = 0; at < slots; ++at) {
                        for (int rk = 0; rk < 3; ++rk)
                            for (int k = 1; k <= 8; ++k)
                                for (int te = 0; te < 2; ++te)
                                    run_script_case(sof, (enum kind)kind, p, n, at, rk, k, te != 0, false);
                        run_script_case(sof, (enum kind)kind, p, n, at, 0, 0, false, true);
                    }
                }
}

/* (f) the "random full-alphabet payloads up to 1 KiB" clause, replaced by
 * structured exhaustive families over all 256 octet values */
static void
long_case(bool sof, bool initfn, enum kind kind, const unsigned char *p, size_t n, const char *what)
{
    run_encoder(sof, initfn, kind, p, n, NO_INJECT, false);
    if (judge_encoding(sof, p, n, 0)) {
        roundtrip_decode(sof, initfn, kind);
        if (R.hang)
            mc_fail("C12/hang", "decode made no progress");
        else if (!(R.n == 2 && R.c[0].rc == 1 && R.c[0].olen == n && memcmp(R.out, p, n) == 0
                   && R.c[0].off1 == E.n && R.c[1].rc == -ENODATA))
            mc_fail("C12/roundtrip-in-order", "decode(encode(p)) is not p followed by the end of the source: %d calls, first rc=%s emitted %zu octets",
                    R.n, errname(R.c[0].rc), R.c[0].olen);
        else if (R.c[0].olen > R.c[0].off1)
            mc_fail("C12/emits-at-most-consumed", "emitted %zu consumed %zu", R.c[0].olen, R.c[0].off1);
    }
    mc_end(n > 0, what);
}

static void
family_long(void)
{
    static unsigned char p[1100];
    const bool th = mc_thorough();
    /* every ordered pair of octet values */
    for (int sof = 0; sof < 2; ++sof)
        for (int v = 0; v < 256; ++v)
            for (int w = 0; w < 256; ++w) {
                if (!mc_case("octet-pair mode=%s payload=%02x%02x", modename(sof), v, w))
                    continue;
                p[0] = (unsigned char)v;
                p[1] = (unsigned char)w;
                long_case(sof, true, K_OCTET, p, 2, "full-alphabet-pair");
            }
    /* constant fill, every octet value, lengths around the 1 KiB bound */
    static const size_t fl_q[] = { 1, 3, 1024 }, fl_t[] = { 1, 3, 255, 256, 257, 1023, 1024 };
    const size_t *fl = th ? fl_t : fl_q;
    const int nfl = th ? 7 : 3;
    for (int sof = 0; sof < 2; ++sof)
        for (int kind = 0; kind < 2; ++kind)
            for (int li = 0; li < nfl; ++li)
                for (int v = 0; v < 256; ++v) {
                    if (!mc_case("fill mode=%s drivers=%s n=%zu octet=%02x", modename(sof),
                                 kind ? "chunk" : "octet", fl[li], v))
                        continue;
                    memset(p, v, fl[li]);
                    long_case(sof, true, (enum kind)kind, p, fl[li],
                              (v == O_END || v == O_ESC) ? "fill-worst-case" : "fill");
                }
    /* ramp over the whole alphabet from every start value */
    for (int sof = 0; sof < 2; ++sof)
        for (int start = 0; start < 256; ++start) {
            const size_t n = th ? 1024 : 300;
            if (!mc_case("ramp mode=%s n=%zu start=%02x", modename(sof), n, start))
                continue;
            for (size_t i = 0; i < n; ++i)
                p[i] = (unsigned char)(start + i);
            long_case(sof, false, K_CHUNK, p, n, "ramp");
        }
    /* the five classes cycling, every length up to 1 KiB, every phase */
    for (int sof = 0; sof < 2; ++sof)
        for (int initfn = 0; initfn < 2; ++initfn)
            for (size_t n = 0; n <= 1024; ++n) {
                if (!th && n > 48 && n < 1016)
                    continue;
                for (int ph = 0; ph < 5; ++ph) {
                    if (!mc_case("cycle mode=%s init=%s n=%zu phase=%d (octet i = class[(i+phase)%%5] of 41,c0,db,dc,dd)",
                                 modename(sof), initfn ? "function" : "macro", n, ph))
                        continue;
                    for (size_t i = 0; i < n; ++i)
                        p[i] = CLS[(i + (size_t)ph) % 5];
                    long_case(sof, initfn, K_OCTET, p, n, "cycle");
                }
            }
}

int
main(int argc, char **argv)
{
    mc_init(argc, argv);
    P5[0] = 1;
    for (int i = 1; i < 14; ++i)
        P5[i] = P5[i - 1] * 5;
    int k = 0;
    for (size_t n = 0; n <= 2; ++n)
        for (uint64_t idx = 0; idx < P5[n]; ++idx) {
            nth_string(n, idx, PL[k]);
            PLN[k++] = n;
        }
    anchors();
    alpha_build();
    const bool th = mc_thorough();

    family_roundtrip(th ? 9 : 7);
    family_pairs(th ? 4 : 3);
    family_macro();
    family_raw(th ? 9 : 7);
    family_raw_escape_all();
    if (th) {
        family_resync(4, 3, NPL2, 0);
        family_resync(6, 2, 6, 5);
    } else {
        family_resync(3, 2, NPL2, 0);
        family_resync3(3);
    }
    family_fault_encode(th ? 5 : 3);
    {
        const struct sset fd_q = { 5, NPL2, 6 }, fd_t = { 6, NPL2, 6 };
        family_fault_decode(th ? &fd_t : &fd_q);
    }
    family_encode_scripts(th ? 6 : 4, th ? 4 : 3, th ? 6 : 5);
    family_encode_runs(th ? 5 : 3);
    family_alphabet_encode(th ? 4 : 3);
    {
        const struct sset ao_q = { 4, 6, 0 }, ac_q = { 3, 6, 0 };
        const struct sset ao_t = { 5, 6, 6 }, ac_t = { 4, 6, 0 };
        family_alphabet_decode(th ? &ao_t : &ao_q, th ? &ac_t : &ac_q);
    }
    family_long();
    {
        /* last: the one family in which a finding is open on the unchanged
         * tree (at=inside-escape), so that a shard stopping at the violation
         * cap has done everything else before */
        const struct sset i1_q = { 6, NPL2, 6 }, i2_q = { 4, 6, 0 };
        const struct sset i1_t = { 7, NPL2, 6 }, i2_t = { 5, NPL2, 6 };
        family_interrupt(th ? &i1_t : &i1_q, th ? &i2_t : &i2_q);
    }

    mc_finish(true, th
              ? "payloads and raw streams of length 0..9 over {41,c0,db,dc,dd}; pairs of payloads <= 4 x {fresh, reused init-function, reused static-initialiser context}; garbage <= 4 x 1-3 frames of payload <= 2, garbage 5-6 x 1-2 frames of payload <= 1; "
                "encode faults at every driver call (payload <= 5) x {-EIO,-EPIPE,-EAGAIN,-EINTR}; decode faults at every driver call (sink: 4 codes, source: -EIO,-EPIPE) with decoding continued, streams = class strings <= 6 + frame pairs (payload <= 2) + frame triples (payload <= 1); "
                "source interruptions {-EAGAIN,-EINTR,-ENODATA = empty for now, refilled}: one at every source call (class strings <= 7 + frame pairs + triples), two at every pair of source calls (class strings <= 5 + frame pairs + triples), x 2 set-ups; "
                "encoder sink scripts: 1 deviation (payload <= 6) and 2 deviations (payload <= 4) over 2n+3 call slots x {short, zero, -EAGAIN, -EINTR, -EIO, -ENODATA}, FIFO blocks 1..8 (payload <= 6); "
                "runs of 1..8 equal answers {zero (also to a single octet), -EAGAIN, -EINTR} starting at each of the 2n+3 call slots, then everything taken or -EIO once, and a sink that takes nothing for ever from each slot on (payload <= 5), octet and chunk sinks; "
                "error alphabet (every errno 1..133 and -134,-255,-256,-1000,-4095,-4096,-32768,-32769,-65536,INT_MIN+1,INT_MIN) at every driver call x {octet, chunk drivers}: encode payload <= 4 (source and sink), decode class strings <= 5 (octet) / <= 4 (chunk) + frame pairs and triples of payload <= 1 (sink: all codes, source: all but -EAGAIN/-EINTR) with decoding continued; "
                "worst-case macro n <= 1100 and 2^k-2..2^k+2 (n <= SIZE_MAX/4) for k <= 62; ESC x all 256 second octets; all 65536 octet pairs, fills/ramps/cycles up to 1024"
              : "payloads and raw streams of length 0..7 over {41,c0,db,dc,dd}; pairs of payloads <= 3 x {fresh, reused init-function, reused static-initialiser context}; garbage <= 3 x (1-2 frames of payload <= 2, 3 frames of payload <= 1); "
                "encode faults at every driver call (payload <= 3) x {-EIO,-EPIPE,-EAGAIN,-EINTR}; decode faults at every driver call (sink: 4 codes, source: -EIO,-EPIPE) with decoding continued, streams = class strings <= 5 + frame pairs (payload <= 2) + frame triples (payload <= 1); "
                "source interruptions {-EAGAIN,-EINTR,-ENODATA = empty for now, refilled}: one at every source call (class strings <= 6 + frame pairs + triples), two at every pair of source calls (class strings <= 4 + frame pairs of payload <= 1), x 2 set-ups; "
                "encoder sink scripts: 1 deviation (payload <= 4) and 2 deviations (payload <= 3) over 2n+3 call slots x {short, zero, -EAGAIN, -EINTR, -EIO, -ENODATA}, FIFO blocks 1..8 (payload <= 5); "
                "runs of 1..8 equal answers {zero (also to a single octet), -EAGAIN, -EINTR} starting at each of the 2n+3 call slots, then everything taken or -EIO once, and a sink that takes nothing for ever from each slot on (payload <= 3), octet and chunk sinks; "
                "error alphabet (every errno 1..133 and -134,-255,-256,-1000,-4095,-4096,-32768,-32769,-65536,INT_MIN+1,INT_MIN) at every driver call x {octet, chunk drivers}: encode payload <= 3 (source and sink), decode class strings <= 4 (octet) / <= 3 (chunk) + frame pairs of payload <= 1 (sink: all codes, source: all but -EAGAIN/-EINTR) with decoding continued; "
                "worst-case macro n <= 1100 and 2^k-2..2^k+2 (n <= SIZE_MAX/4) for k <= 62; ESC x all 256 second octets; all 65536 octet pairs, fills/ramps/cycles up to 1024");
    return 0;
}

#else /* C12_ESTATE */
/* ========================================================================= */
/* E-STATE: search over the decoder context                                   */

#define CTX_CAP 64

/* a search node is the whole context image, not a selection of members */
struct key {
    unsigned char image[sizeof(RFC1055Context)];
    /* 1: this image is what rfc1055_context_init made (on a zeroed block, or
     * out of a used context): it is owed everything an initial context is */
    unsigned char as_initial;
};

static void
key_ctx(const struct key *k, RFC1055Context *out)
{
    memcpy(out, k->image, sizeof *out);
}

static const char *
statename(int s)
{
    switch (s) {
    case RFC1055_SEARCH_FOR_START: return "SEARCH_FOR_START";
    case RFC1055_SEARCH_FOR_END: return "SEARCH_FOR_END";
    case RFC1055_NORMAL: return "NORMAL";
    default: return "?";
    }
}

/* Operations of the search: "decode this octet string until the source is
 * exhausted", fault-free or with one driver failure on the way (after which
 * the same context and source are used on):
 *   F_NONE
 *   F_SRC_AGAIN k   source call k answers -EAGAIN   (k = 0..len)
 *   F_SRC_EIO k     source call k answers -EIO      (k = 0..len)
 *   F_SNK_EIO k     sink call k answers -EIO        (k = 0..len-1)
 *   F_SRC_ENODATA / F_SRC_EILSEQ / F_SNK_ENODATA / F_SNK_EILSEQ k
 *                   the same with the two codes the decoder itself gives a
 *                   meaning to (end of the source, invalid escape): answered
 *                   by a driver they are errors like -EIO (the E-SPACE harness
 *                   runs the whole alphabet from the initial contexts; here
 *                   the sentinels are answered in every reachable context)
 * Which (stream, failure) pairs exist depends on the stream only. */
enum fkind { F_NONE, F_SRC_AGAIN, F_SRC_EIO, F_SNK_EIO, F_SRC_ENODATA, F_SRC_EILSEQ, F_SNK_ENODATA, F_SNK_EILSEQ, F_N };
static const bool F_IS_SINK[F_N] = { false, false, false, true, false, false, true, true };
static int
f_code(int fk)
{
    switch (fk) {
    case F_SRC_AGAIN: return -EAGAIN;
    case F_SRC_EIO: case F_SNK_EIO: return -EIO;
    case F_SRC_ENODATA: case F_SNK_ENODATA: return -ENODATA;
    case F_SRC_EILSEQ: case F_SNK_EILSEQ: return -EILSEQ;
    default: return 0;
    }
}
struct op {
    unsigned char len, fkind, pos;
    uint32_t idx;
};
static struct op *OPS;
static int NOPS;

static void
ops_build(size_t maxlen, size_t maxlen_faults)
{
    size_t cap = 0;
    for (size_t n = 0; n <= maxlen; ++n)
        cap += (size_t)P5[n] * (n <= maxlen_faults ? (F_N - 1) * (n + 1) + 1 : 1);
    OPS = calloc(cap, sizeof *OPS);
    if (OPS == NULL)
        mc_broken("out of memory");
    for (size_t n = 0; n <= maxlen; ++n)
        for (uint64_t idx = 0; idx < P5[n]; ++idx) {
            struct op o = { (unsigned char)n, F_NONE, 0, (uint32_t)idx };
            OPS[NOPS++] = o;
            if (n > maxlen_faults)
                continue;
            for (int fk = F_SRC_AGAIN; fk < F_N; ++fk)
                for (size_t k = 0; k < (F_IS_SINK[fk] ? n : n + 1); ++k) {
                    o.fkind = (unsigned char)fk;
                    o.pos = (unsigned char)k;
                    OPS[NOPS++] = o;
                }
        }
}

static const char *
op_text(int op)
{
    static char buf[4][96];
    static int k;
    char *b = buf[k = (k + 1) & 3];
    unsigned char st[16];
    const struct op *o = &OPS[op < NOPS ? op : 0];
    nth_string(o->len, o->idx, st);
    static const char *const fk[2] = { "source-call", "sink-call" };
    if (op >= NOPS)
        snprintf(b, sizeof buf[0], "rfc1055_context_init(%s)", op == NOPS ? "classic" : "sof");
    else if (o->fkind == F_NONE)
        snprintf(b, sizeof buf[0], "%s", hex(st, o->len));
    else
        snprintf(b, sizeof buf[0], "%s(%s %d answers %s)", hex(st, o->len), fk[F_IS_SINK[o->fkind]], o->pos,
                 errname(f_code(o->fkind)));
    return b;
}

static void
path_text(const struct mc_set *s, int64_t id, char *buf, size_t n)
{
    int ops[32];
    int k = 0;
    while (id >= 0 && s->parent[id] >= 0 && k < 32) {
        ops[k++] = s->op[id];
        id = s->parent[id];
    }
    size_t l = 0;
    buf[0] = 0;
    while (k-- > 0 && l + 60 < n)
        l += (size_t)snprintf(buf + l, n - l, "%s%s", op_text(ops[k]), k ? "," : "");
}

int
main(int argc, char **argv)
{
    mc_init(argc, argv);
    P5[0] = 1;
    for (int i = 1; i < 14; ++i)
        P5[i] = P5[i - 1] * 5;
    anchors();
    const size_t maxlen = mc_thorough() ? 7 : 5;
    const size_t maxlen_faults = mc_thorough() ? 6 : 5;
    ops_build(maxlen, maxlen_faults);

    struct mc_set set;
    mc_set_init(&set);
    /* the two initial contexts, produced by the library itself on a zeroed block */
    struct key init_key[2];
    for (int sof = 0; sof < 2; ++sof) {
        RFC1055Context c;
        memset(&c, 0, sizeof c);
        rfc1055_context_init(&c, sof ? RFC1055_WITH_SOF : RFC1055_DEFAULT);
        memset(&init_key[sof], 0, sizeof init_key[sof]);
        memcpy(init_key[sof].image, &c, sizeof c);
        init_key[sof].as_initial = 1;
        mc_set_add(&set, &init_key[sof], sizeof init_key[sof], -1, -1, NULL);
    }
    /* outcome classes: by what the harness did (which context, which driver
     * answers), never by what state the implementation went to */
    static const char *const OUTCOME[2][F_N] = {
        { "derived-context", "derived-context-source-interrupted", "derived-context-source-error",
          "derived-context-sink-error", "derived-context-source-sentinel-code", "derived-context-source-sentinel-code",
          "derived-context-sink-sentinel-code", "derived-context-sink-sentinel-code" },
        { "initial-context", "initial-context-source-interrupted", "initial-context-source-error",
          "initial-context-sink-error", "initial-context-source-sentinel-code", "initial-context-source-sentinel-code",
          "initial-context-sink-sentinel-code", "initial-context-sink-sentinel-code" } };
    /* Two passes over the queue.  Pass 0 explores with every operation and
     * judges all of them but the source interruptions, which it only executes
     * for their successors; pass 1 goes over the (then complete) set of
     * contexts again and judges the interruptions.  So a run that stops at
     * the violation cap inside the interruption clause has judged everything
     * else before. */
    /* The search is meant for a context whose image reaches a fixpoint after
     * a handful of nodes.  If it does not (a context that counts what went
     * through it never repeats), the search stops as soon as more than
     * CTX_CAP images are known: no further image is recorded, the node in
     * hand is finished (its cases are judged like any other), no further node
     * is expanded, and pass 1 goes over the nodes pass 0 expanded only.  The
     * cap is recorded (exhaustive = false); the run ends within seconds. */
    bool capped = false;
    int64_t expanded = 0; /* nodes pass 0 went through */
    for (int pass = 0; pass < 2; ++pass)
    for (int64_t cur = 0; cur < (pass == 0 ? (int64_t)set.n : expanded); ++cur) {
        if (pass == 0) {
            if (capped)
                break;
            expanded = cur + 1;
        }
        struct key k;
        memcpy(&k, mc_set_key(&set, cur), sizeof k);
        RFC1055Context kc;
        key_ctx(&k, &kc);
        const bool sof = (kc.flags & RFC1055_WITH_SOF) != 0;
        /* "initial" = what rfc1055_context_init produced */
        const bool initial = k.as_initial != 0;
        char path[240];
        path_text(&set, cur, path, sizeof path);
        for (int op = 0; op < NOPS; ++op) {
            unsigned char st[16];
            const struct op *o = &OPS[op];
            const size_t len = o->len;
            if (pass == 1 && o->fkind != F_SRC_AGAIN)
                continue;
            const bool silent = pass == 0 && o->fkind == F_SRC_AGAIN;
            nth_string(len, o->idx, st);
            if (silent)
                mc.active = false; /* executed for its successor only, judged in pass 1 */
            else
            mc_case("context mode=%s state=%s%s stream=%s%s%s reached-by=[%s]", modename(sof),
                    statename((int)kc.state),
                    (!initial && kc.state == (sof ? RFC1055_SEARCH_FOR_START : RFC1055_NORMAL))
                        ? "(other members differ from the initial context)" : "",
                    op_text(op), o->fkind == F_SRC_AGAIN ? " at=" : "",
                    o->fkind == F_SRC_AGAIN ? AT_NAME[position_class(sof, st, len, o->pos)] : "", path);
            struct inject inj = NO_INJECT;
            if (o->fkind != F_NONE) {
                if (F_IS_SINK[o->fkind])
                    inj.snk_at = o->pos;
                else
                    inj.src_at = o->pos;
                inj.code = f_code(o->fkind);
            }
            ctx_image_in = k.image;
            run_decoder(kc.flags, (int)kc.state, false, K_OCTET, st, len, inj);
            ctx_image_in = NULL;
            /* the injected code comes back unchanged (-EAGAIN: or the source is asked again) */
            bool fired = false;
            size_t behind = 0;
            for (int i = 0; i < R.n && !silent; ++i) {
                const struct dcall *c = &R.c[i];
                if (!(c->sfired || c->kfired))
                    continue;
                fired = true;
                behind = c->off1;
                const bool retried = o->fkind == F_SRC_AGAIN
                    && (c->rc == 1 || c->rc == -EILSEQ || (c->rc == -ENODATA && c->off1 == len));
                if (c->rc != c->fcode && !retried)
                    mc_fail(c->sfired ? "C12/source-error-unchanged" : "C12/sink-error-unchanged",
                            "%s answered %s during call %d, decode returned %s",
                            c->sfired ? "source" : "sink", errname(c->fcode), i, errname(c->rc));
            }
            if (silent) {
                ;
            } else if (!fired || o->fkind == F_SRC_AGAIN) {
                /* an interruption consumed nothing: judged like the same stream without it */
                if (fired) {
                    fold_interruptions();
                    clause_override = "C12/source-interruption-transparent";
                }
                judge(sof, initial, false, st, len, -1);
                clause_override = NULL;
            } else {
                /* behind a hard failure: the resynchronisation sentences only */
                judge(sof, false, true, st, len, -1);
                if (!R.hang && !R.overflow && !R.latched)
                    judge_from(sof, false, false, st, len, -1, behind);
            }
            struct key nk;
            memset(&nk, 0, sizeof nk);
            memcpy(nk.image, R.ctx_after, sizeof nk.image);
            for (int m = 0; m < 2; ++m)
                if (memcmp(nk.image, init_key[m].image, sizeof nk.image) == 0)
                    nk.as_initial = 1;
            /* An initial context that decoded nothing but complete
             * well-formed frames up to the end of its source (one received
             * block) holds no part of a frame: the frames of the next block
             * are owed like the first ones (concatenated encodings decode in
             * order, through however many sources they arrive). */
            if (initial && o->fkind == F_NONE) {
                static struct frame fr[MAXFR];
                const int nfr = parse_run(sof, st, len, 0, fr);
                if (len == 0 || (nfr > 0 && fr[nfr - 1].e == len))
                    nk.as_initial = 1;
            }
            /* a context that latched a hard driver error is not a context "after a
             * corrupted prefix": it is owed nothing until rfc1055_context_init */
            if (!R.hang && !R.overflow && !R.latched && !capped && pass == 0)
                mc_set_add(&set, &nk, sizeof nk, cur, op, NULL);
            if (set.n > CTX_CAP)
                capped = true;
            if (!silent)
                mc_end(len > 0, OUTCOME[initial ? 1 : 0][o->fkind]);
        }
        if (pass == 1)
            continue;
        /* the context in the encoder's hands: whatever the decoder left in
         * it, an encode with it is a complete encoding in the context's mode
         * (rfc1055_encode takes the context as const: mode is all it may use) */
        for (size_t n = 0; n <= 2; ++n)
            for (uint64_t idx = 0; idx < P5[n]; ++idx) {
                unsigned char pl[4];
                nth_string(n, idx, pl);
                mc_case("context mode=%s state=%s reached-by=[%s] used to encode payload=%s",
                        modename(sof), statename((int)kc.state), path, hex(pl, n));
                RFC1055Context *c = mc_exact(sizeof *c);
                memcpy(c, k.image, sizeof *c);
                memset(&EENV, 0, sizeof EENV);
                EENV.ctx = c;
                run_encoder(sof, true, K_OCTET, pl, n, NO_INJECT, false);
                memset(&EENV, 0, sizeof EENV);
                free(c);
                judge_complete_encoding(sof, true, pl, n);
                mc_end(n > 0, "context-used-by-encoder");
            }
        /* history of initialisations: rfc1055_context_init on this used
         * context, in either mode, makes an initial context again */
        for (int m = 0; m < 2; ++m) {
            mc_case("context mode=%s state=%s reached-by=[%s] re-initialised with rfc1055_context_init(%s)",
                    modename(sof), statename((int)kc.state), path, modename(m));
            RFC1055Context *c = mc_exact(sizeof *c);
            memcpy(c, k.image, sizeof *c);
            rfc1055_context_init(c, m ? RFC1055_WITH_SOF : RFC1055_DEFAULT);
            mc_trans(1);
            struct key nk;
            memset(&nk, 0, sizeof nk);
            memcpy(nk.image, c, sizeof nk.image);
            nk.as_initial = 1;
            free(c);
            if (!capped)
                mc_set_add(&set, &nk, sizeof nk, cur, NOPS + m, NULL);
            if (set.n > CTX_CAP)
                capped = true;
            mc_end(false, "context-re-initialised");
        }
    }
    if (capped)
        mc_cap("context cap %d hit after %lld node(s): the context image does not reach a fixpoint within the cap; search stopped, %lld node(s) judged",
               CTX_CAP, (long long)expanded, (long long)expanded);
    if (set.n <= 2)
        mc_cap("no context but the two initial ones was ever reached");
    mc.states += (int64_t)set.n;
    char bound[640];
    snprintf(bound, sizeof bound,
             "every context image reachable from both initial contexts, every stream of length 0..%zu over {41,c0,db,dc,dd} decoded to exhaustion from each, fault-free and (length 0..%zu) with one driver failure at every call position (source -EAGAIN, source/sink -EIO, source/sink -ENODATA, source/sink -EILSEQ) followed by continued use, %s (%zu contexts known, %lld expanded; the search stops when more than %d are known)",
             maxlen, maxlen_faults, capped ? "NO fixpoint within the context cap" : "to fixpoint", set.n,
             (long long)expanded, CTX_CAP);
    mc_set_free(&set);
    mc_finish(true, bound);
    return 0;
}
#endif
