/*
 * C12 -- SLIP framing (src/rfc1055.c) is transparent, bounded and
 * self-resynchronising.
 *
 * One source file, two harnesses:
 *
 *   default       E-SPACE: bounded-exhaustive odometers over payloads, raw
 *                 decoder inputs, garbage-prefix x frame-sequence streams and
 *                 fault positions of scripted octet Source/Sink drivers.
 *   -DC12_ESTATE  E-STATE: explicit-state search to fixpoint over the decoder
 *                 context (flags, state); operation = "decode this octet
 *                 string until the source is exhausted".  Every reachable
 *                 context is a possible "after any corrupted prefix" state, so
 *                 the resynchronisation rule is checked from each of them.
 *
 * The oracle is declarative (lexical), not a second decoder state machine: a
 * stream is cut at its delimiter octets, frames are recognised by an
 * independent un-stuffing routine, and the log of decode calls (return code,
 * source offset reached, octets emitted) is compared with what the property
 * statement demands for that stream:
 *
 *   - from the initial context, the maximal run of well-formed frames at the
 *     start of the stream is delivered exactly and in order (round trip and
 *     concatenation clause);
 *   - classic mode: after every delimiter octet the next well-formed
 *     non-empty frame is delivered intact (hence every frame after the first
 *     delimiter following any corrupted prefix);
 *   - start-of-frame mode: for every cut position g, of the maximal run of
 *     well-formed frames starting at g every non-empty frame but the first
 *     non-empty one is delivered intact;
 *   - empty deliveries are never counted against the decoder while
 *     resynchronising; a non-empty delivery inside a synchronised run that is
 *     not one of its frames is;
 *   - an invalid escape at a position where the decoder is certainly inside
 *     a frame is answered with -EILSEQ by a call ending between the offending
 *     octet and the next delimiter;
 *   - after every call of a decode sequence over one stream: octets emitted
 *     so far <= octets consumed so far;
 *   - the source's end/error code and injected sink/source codes come back
 *     unchanged.
 *
 * Delivery = a decode call returning 1 (the value the repository's unit test
 * pins for end-of-frame) together with the octets that call put into the
 * sink.  Like the unit test, the driver discards the sink after every return.
 */
#include "mc.h"

#include <ufw/compat/errno.h>

#include <ufw/endpoints.h>
#include <ufw/rfc1055.h>

#define O_END 0xc0u
#define O_ESC 0xdbu
#define O_ESC_END 0xdcu
#define O_ESC_ESC 0xddu

/* octet classes, simplest first: other, END, ESC, ESC_END, ESC_ESC */
static const unsigned char CLS[5] = { 0x41, O_END, O_ESC, O_ESC_END, O_ESC_ESC };

static uint64_t P5[14];

static void
nth_string(size_t len, uint64_t idx, unsigned char *out)
{
    for (size_t i = 0; i < len; ++i) {
        out[len - 1 - i] = CLS[idx % 5];
        idx /= 5;
    }
}

/* rotating buffers for descriptors */
static const char *
hex(const unsigned char *p, size_t n)
{
    static char buf[8][160];
    static int k;
    char *b = buf[k = (k + 1) & 7];
    if (n == 0)
        return "-";
    size_t l = 0;
    for (size_t i = 0; i < n && l + 3 < sizeof buf[0]; ++i)
        l += (size_t)snprintf(b + l, sizeof buf[0] - l, "%02x", p[i]);
    return b;
}

static const char *
errname(int rc)
{
    static char buf[4][24];
    static int k;
    if (rc == -EILSEQ) return "-EILSEQ";
    if (rc == -ENODATA) return "-ENODATA";
    if (rc == -EIO) return "-EIO";
    if (rc == -EPIPE) return "-EPIPE";
    char *b = buf[k = (k + 1) & 3];
    snprintf(b, sizeof buf[0], "%d", rc);
    return b;
}

/* ------------------------------------------------------------------------- */
/* scripted drivers                                                          */

enum kind { K_OCTET, K_CHUNK };

struct src {
    const unsigned char *d;
    size_t len, pos;
    long calls, budget, err_at; /* err_at: index of the call that fails, -1 none */
    int err_code, end_code;
    bool fired, overrun;
};

struct snk {
    unsigned char *buf;
    size_t cap, n;
    long calls, budget, err_at;
    int err_code;
    bool fired, overrun, overflow;
};

static int
src_octet(void *drv, void *out)
{
    struct src *s = drv;
    if (s->calls >= s->budget) {
        s->overrun = true;
        return -EBADF;
    }
    const long k = s->calls++;
    if (k == s->err_at) {
        s->fired = true;
        return s->err_code;
    }
    if (s->pos >= s->len)
        return s->end_code;
    *(unsigned char *)out = s->d[s->pos++];
    return 1;
}

static ssize_t
src_chunk(void *drv, void *out, size_t n)
{
    if (n == 0)
        return -EINVAL;
    return src_octet(drv, out); /* a short read of one octet is a legal answer */
}

static int
snk_octet(void *drv, unsigned char c)
{
    struct snk *s = drv;
    if (s->calls >= s->budget) {
        s->overrun = true;
        return -EBADF;
    }
    const long k = s->calls++;
    if (k == s->err_at) {
        s->fired = true;
        return s->err_code;
    }
    if (s->n >= s->cap) {
        s->overflow = true;
        return -ENOMEM;
    }
    s->buf[s->n++] = c;
    return 1;
}

static ssize_t
snk_chunk(void *drv, const void *p, size_t n)
{
    /* accepts the whole chunk: partial acceptance is C17's subject */
    struct snk *s = drv;
    if (s->calls >= s->budget) {
        s->overrun = true;
        return -EBADF;
    }
    const long k = s->calls++;
    if (k == s->err_at) {
        s->fired = true;
        return s->err_code;
    }
    if (s->n + n > s->cap) {
        s->overflow = true;
        return -ENOMEM;
    }
    memcpy(s->buf + s->n, p, n);
    s->n += n;
    return (ssize_t)n;
}

static void
src_setup(struct src *s, Source *h, enum kind k, const unsigned char *d, size_t len)
{
    memset(s, 0, sizeof *s);
    s->d = d;
    s->len = len;
    s->budget = 2 * (long)len + 16;
    s->err_at = -1;
    s->end_code = -ENODATA;
    if (k == K_OCTET)
        octet_source_init(h, src_octet, s);
    else
        chunk_source_init(h, src_chunk, s);
}

static void
snk_setup(struct snk *s, Sink *h, enum kind k, unsigned char *buf, size_t cap)
{
    memset(s, 0, sizeof *s);
    s->buf = buf;
    s->cap = cap;
    s->budget = 2 * (long)cap + 16;
    s->err_at = -1;
    if (k == K_OCTET)
        octet_sink_init(h, snk_octet, s);
    else
        chunk_sink_init(h, snk_chunk, s);
}

/* ------------------------------------------------------------------------- */
/* reference: RFC 1055 stuffing, written from the RFC text                    */

static size_t
ref_encode(bool sof, const unsigned char *p, size_t n, unsigned char *out)
{
    size_t m = 0;
    if (sof)
        out[m++] = O_END;
    for (size_t i = 0; i < n; ++i) {
        if (p[i] == O_END) {
            out[m++] = O_ESC;
            out[m++] = O_ESC_END;
        } else if (p[i] == O_ESC) {
            out[m++] = O_ESC;
            out[m++] = O_ESC_ESC;
        } else {
            out[m++] = p[i];
        }
    }
    out[m++] = O_END;
    return m;
}

#define MAXPL 64
struct frame {
    size_t s, e; /* the encoding occupies stream[s, e) */
    size_t n;
    unsigned char pl[MAXPL];
};

/* Is there a well-formed frame whose encoding starts at pos?  classic:
 * stuffed* END; start-of-frame: END stuffed* END. */
static bool
parse_frame(bool sof, const unsigned char *st, size_t len, size_t pos, struct frame *f)
{
    size_t i = pos;
    if (sof) {
        if (i >= len || st[i] != O_END)
            return false;
        i++;
    }
    size_t n = 0;
    for (;;) {
        if (i >= len)
            return false;
        const unsigned char c = st[i];
        if (c == O_END) {
            f->s = pos;
            f->e = i + 1;
            f->n = n;
            return true;
        }
        if (n >= MAXPL)
            return false;
        if (c == O_ESC) {
            if (i + 1 >= len)
                return false;
            if (st[i + 1] == O_ESC_END)
                f->pl[n++] = O_END;
            else if (st[i + 1] == O_ESC_ESC)
                f->pl[n++] = O_ESC;
            else
                return false;
            i += 2;
        } else {
            f->pl[n++] = c;
            i++;
        }
    }
}

#define MAXFR 40
static int
parse_run(bool sof, const unsigned char *st, size_t len, size_t pos, struct frame *fr)
{
    int k = 0;
    while (k < MAXFR && parse_frame(sof, st, len, pos, &fr[k])) {
        pos = fr[k].e;
        k++;
    }
    return k;
}

/* Scan stuffed octets from i.  Returns the index of an ESC that is followed by
 * an octet which is neither ESC_END nor ESC_ESC, if such an escape comes
 * before the next delimiter and before the stream ends; otherwise -1. */
static long
first_invalid_escape(const unsigned char *st, size_t len, size_t i)
{
    while (i < len) {
        if (st[i] == O_END)
            return -1;
        if (st[i] == O_ESC) {
            if (i + 1 >= len)
                return -1;
            if (st[i + 1] != O_ESC_END && st[i + 1] != O_ESC_ESC)
                return (long)i;
            i += 2;
        } else {
            i++;
        }
    }
    return -1;
}

/* ------------------------------------------------------------------------- */
/* running the real decoder over a stream                                     */

#define MAXSTREAM 2200
struct dcall {
    int rc;
    size_t off0, off1; /* source offset before / after the call */
    size_t o0, olen;   /* what the call put into the sink */
    bool sfired, kfired;
};
static struct {
    struct dcall c[MAXSTREAM + 4];
    int n;
    unsigned char out[MAXSTREAM + 16];
    bool hang, overflow;
    unsigned flags_after;
    int state_after;
    unsigned char ctx_after[sizeof(RFC1055Context)]; /* the whole context, octet by octet */
} R;

/* E-STATE: the context image (all octets of the struct, as the library left
 * them on a zeroed block) the next run_decoder call starts from; NULL: build
 * the context from the arguments.  The harness never assumes which members
 * the context has beyond `flags` and `state` being readable. */
static const unsigned char *ctx_image_in;

struct inject {
    long src_at, snk_at;
    int code;
};
static const struct inject NO_INJECT = { -1, -1, 0 };

/* Calls rfc1055_decode until the source reports its end code.  The context
 * the decoder starts in: the image ctx_image_in of an explicit-state search
 * node when set; else rfc1055_context_init(flags0) when use_init_fn, the
 * header's static initialiser when state0 < 0, else rfc1055_context_init(flags0)
 * with only `state` overwritten by state0.  The block is zeroed first, so the
 * context image after the run is deterministic. */
static void
run_decoder(unsigned flags0, int state0, bool use_init_fn, enum kind kind,
            const unsigned char *stream, size_t len, struct inject inj)
{
    unsigned char *in = mc_exact_copy(stream, len);
    RFC1055Context *ctx = mc_exact(sizeof *ctx);
    memset(ctx, 0, sizeof *ctx);
    if (ctx_image_in) {
        memcpy(ctx, ctx_image_in, sizeof *ctx);
    } else if (use_init_fn) {
        rfc1055_context_init(ctx, flags0);
    } else if (state0 < 0) {
        /* the header's static initialisers */
        const RFC1055Context c0 = RFC1055_CONTEXT_INIT_DEFAULT;
        const RFC1055Context c1 = RFC1055_CONTEXT_INIT_WITH_SOF;
        if (flags0 & RFC1055_WITH_SOF)
            memcpy(ctx, &c1, sizeof *ctx);
        else
            memcpy(ctx, &c0, sizeof *ctx);
    } else {
        rfc1055_context_init(ctx, flags0);
        ctx->state = state0;
    }
    struct src s;
    struct snk k;
    Source source;
    Sink sink;
    src_setup(&s, &source, kind, in, len);
    snk_setup(&k, &sink, kind, R.out, len + 8);
    s.err_at = inj.src_at;
    s.err_code = inj.code;
    k.err_at = inj.snk_at;
    k.err_code = inj.code;
    R.n = 0;
    R.hang = R.overflow = false;
    for (;;) {
        struct dcall *c = &R.c[R.n];
        c->off0 = s.pos;
        c->o0 = k.n;
        s.fired = k.fired = false;
        c->rc = rfc1055_decode(ctx, &source, &sink);
        mc_trans(1);
        c->off1 = s.pos;
        c->olen = k.n - c->o0;
        c->sfired = s.fired;
        c->kfired = k.fired;
        R.n++;
        mc_log("decode call %d: rc=%s source %zu->%zu state=%d", R.n - 1, errname(c->rc),
               c->off0, c->off1, (int)ctx->state);
        mc_log_hex("  emitted", R.out + c->o0, c->olen);
        if (s.overrun || k.overrun) {
            R.hang = true;
            break;
        }
        if (k.overflow) {
            R.overflow = true;
            break;
        }
        if (c->rc == s.end_code && !c->sfired && !c->kfired && s.pos >= len)
            break;
        /* progress: every call but the last consumes an octet (or meets the
         * one injected fault); more calls than that cannot end */
        if (R.n > (int)len + 3) {
            R.hang = true;
            break;
        }
    }
    R.flags_after = ctx->flags;
    R.state_after = (int)ctx->state;
    memcpy(R.ctx_after, ctx, sizeof *ctx);
    free(ctx);
    free(in);
}

static bool
delivered(const struct frame *f)
{
    for (int i = 0; i < R.n; ++i) {
        const struct dcall *c = &R.c[i];
        if (c->rc == 1 && c->off1 == f->e && c->olen == f->n
            && memcmp(R.out + c->o0, f->pl, f->n) == 0)
            return true;
    }
    return false;
}

static bool
eilseq_between(size_t lo, size_t hi)
{
    for (int i = 0; i < R.n; ++i)
        if (R.c[i].rc == -EILSEQ && R.c[i].off1 >= lo && R.c[i].off1 <= hi)
            return true;
    return false;
}

/* offset just behind the first delimiter at index >= i, or len */
static size_t
behind_next_end(const unsigned char *st, size_t len, size_t i)
{
    while (i < len && st[i] != O_END)
        i++;
    return i < len ? i + 1 : len;
}

static void
demand_eilseq(const unsigned char *st, size_t len, size_t from, const char *why)
{
    const long j = first_invalid_escape(st, len, from);
    if (j < 0)
        return;
    const size_t lo = (size_t)j + 2;
    const size_t hi = behind_next_end(st, len, (size_t)j + 1);
    if (!eilseq_between(lo, hi))
        mc_fail("C12/invalid-escape-eilseq",
                "%s: ESC at offset %ld is followed by %02x, no decode call ending in [%zu,%zu] returned -EILSEQ",
                why, j, st[j + 1], lo, hi);
}

/* non-empty deliveries ending in (lo, hi] must be frames of the run */
static void
no_spurious(const struct frame *fr, int k, size_t lo, size_t hi, const char *clause)
{
    for (int i = 0; i < R.n; ++i) {
        const struct dcall *c = &R.c[i];
        if (c->rc != 1 || c->olen == 0 || c->off1 <= lo || c->off1 > hi)
            continue;
        bool ok = false;
        for (int j = 0; j < k; ++j)
            if (fr[j].e == c->off1 && fr[j].n == c->olen
                && memcmp(fr[j].pl, R.out + c->o0, c->olen) == 0)
                ok = true;
        if (!ok) {
            mc_fail(clause, "call %d delivered %zu octets (%s) at offset %zu inside a synchronised run of well-formed frames; no such frame ends there",
                    i, c->olen, hex(R.out + c->o0, c->olen), c->off1);
            return;
        }
    }
}

struct verdict {
    int deliveries, nonempty, eilseq;
    int required, lost_first; /* resync bookkeeping of the designated cut */
};

/* The oracle.  `initial`: the decoder started in the context a fresh
 * rfc1055_context_init produces.  `faulted`: an error was injected, only the
 * per-call clauses apply.  cut: the designated garbage length of family (c)
 * (-1: none), only for the outcome class. */
static struct verdict
judge(bool sof, bool initial, bool faulted, const unsigned char *st, size_t len, long cut)
{
    struct verdict v;
    memset(&v, 0, sizeof v);
    static struct frame fr[MAXFR];

    if (R.hang) {
        mc_fail("C12/hang", "decode made no progress or exceeded the call budget after %d calls", R.n);
        return v;
    }
    if (R.overflow) {
        mc_fail("C12/emits-at-most-consumed", "decoder put more than %zu octets into the sink for a %zu octet stream", len + 8, len);
        return v;
    }
    for (int i = 0; i < R.n; ++i) {
        const struct dcall *c = &R.c[i];
        if (c->rc == 1) {
            v.deliveries++;
            if (c->olen)
                v.nonempty++;
        } else if (c->rc == -EILSEQ) {
            v.eilseq++;
        }
        /* cumulative over the call sequence on this stream (sink and source
         * both start at 0): a decoder may hold octets back across calls */
        if (c->o0 + c->olen > c->off1)
            mc_fail("C12/emits-at-most-consumed", "after call %d the decoder has consumed %zu octets and emitted %zu",
                    i, c->off1, c->o0 + c->olen);
        const bool last = (i == R.n - 1);
        if (c->sfired || c->kfired)
            continue; /* judged by the fault family */
        if (last) {
            if (c->rc != -ENODATA || c->off1 != len)
                mc_fail("C12/source-error-unchanged", "source ended with -ENODATA at offset %zu, decode returned %s at offset %zu",
                        len, errname(c->rc), c->off1);
        } else if (c->rc == 0 || c->rc > 1) {
            /* which negative code a decoder uses for anything but an invalid
             * escape is not fixed by the statement */
            mc_fail("C12/return-domain", "call %d returned %d (end-of-frame is 1, errors are negative)", i, c->rc);
        }
    }
    if (faulted)
        return v;

    /* round trip / concatenation: from the initial context the leading run of
     * well-formed frames is delivered exactly, in order, nothing else */
    if (initial) {
        const int k = parse_run(sof, st, len, 0, fr);
        for (int i = 0; i < k; ++i) {
            const struct dcall *c = i < R.n ? &R.c[i] : NULL;
            if (c == NULL || c->rc != 1 || c->off1 != fr[i].e || c->olen != fr[i].n
                || memcmp(R.out + c->o0, fr[i].pl, fr[i].n) != 0) {
                mc_fail("C12/roundtrip-in-order",
                        "frame %d of the leading well-formed run (stream[%zu,%zu), payload %s) was not delivered by call %d: rc=%s offset=%zu emitted=%s",
                        i, fr[i].s, fr[i].e, hex(fr[i].pl, fr[i].n), i,
                        c ? errname(c->rc) : "none", c ? c->off1 : 0,
                        c ? hex(R.out + c->o0, c->olen) : "-");
                break;
            }
        }
        if (sof) {
            /* certainly at a frame boundary: at 0 and behind each of them */
            if (len > 0 && st[0] == O_END)
                demand_eilseq(st, len, 1, "first frame");
            for (int i = 0; i < k; ++i)
                if (fr[i].e < len && st[fr[i].e] == O_END)
                    demand_eilseq(st, len, fr[i].e + 1, "frame behind the leading run");
        }
    }

    if (!sof) {
        /* every delimiter synchronises: the frame behind it, if well-formed
         * and non-empty, is delivered; an invalid escape in it is reported */
        if (initial)
            demand_eilseq(st, len, 0, "first frame");
        for (size_t d = 0; d < len; ++d) {
            if (st[d] != O_END)
                continue;
            const int k = parse_run(false, st, len, d + 1, fr);
            if (k > 0) {
                if (fr[0].n > 0 && !delivered(&fr[0]))
                    mc_fail("C12/resync-classic",
                            "well-formed frame stream[%zu,%zu) payload %s follows the delimiter at offset %zu and was not delivered intact",
                            fr[0].s, fr[0].e, hex(fr[0].pl, fr[0].n), d);
                no_spurious(fr, k, d + 1, fr[k - 1].e, "C12/resync-classic");
            }
            demand_eilseq(st, len, d + 1, "frame behind a delimiter");
        }
        if (cut >= 0) {
            const size_t d = behind_next_end(st, len, (size_t)cut);
            const int k = parse_run(false, st, len, d, fr);
            for (int i = 0; i < k; ++i)
                if (fr[i].n)
                    v.required++;
        }
        return v;
    }

    /* start-of-frame mode: every cut position */
    for (size_t g = 0; g < len; ++g) {
        const int k = parse_run(true, st, len, g, fr);
        int seen = 0;
        size_t sync = 0;
        for (int i = 0; i < k; ++i) {
            if (fr[i].n == 0)
                continue;
            if (seen++ == 0) {
                if ((long)g == cut)
                    v.lost_first = !delivered(&fr[i]);
                continue; /* the first non-empty frame may be lost */
            }
            if ((long)g == cut)
                v.required++;
            if (!delivered(&fr[i])) {
                mc_fail("C12/resync-sof",
                        "cut at offset %zu: well-formed frame stream[%zu,%zu) payload %s is not the first non-empty frame behind the cut and was not delivered intact",
                        g, fr[i].s, fr[i].e, hex(fr[i].pl, fr[i].n));
                break;
            }
            if (sync == 0)
                sync = fr[i].e;
            if (fr[i].e < len && st[fr[i].e] == O_END)
                demand_eilseq(st, len, fr[i].e + 1, "frame behind a delivered frame");
        }
        if (sync)
            no_spurious(fr, k, sync, fr[k - 1].e, "C12/resync-sof");
    }
    return v;
}

/* ------------------------------------------------------------------------- */
/* running the real encoder                                                   */

static struct {
    int rc;
    unsigned char out[MAXSTREAM + 16];
    size_t n;
    size_t consumed;
    bool overflow, hang, sfired, kfired;
} E;

/* Appends to E.out when append is set (concatenation family). */
static void
run_encoder(bool sof, bool use_init_fn, enum kind kind, const unsigned char *p, size_t n,
            struct inject inj, bool append)
{
    unsigned char *in = mc_exact_copy(p, n);
    RFC1055Context *ctx = mc_exact(sizeof *ctx);
    if (use_init_fn) {
        rfc1055_context_init(ctx, sof ? RFC1055_WITH_SOF : RFC1055_DEFAULT);
    } else if (sof) {
        const RFC1055Context c = RFC1055_CONTEXT_INIT_WITH_SOF;
        *ctx = c;
    } else {
        const RFC1055Context c = RFC1055_CONTEXT_INIT_DEFAULT;
        *ctx = c;
    }
    struct src s;
    struct snk k;
    Source source;
    Sink sink;
    const size_t base = append ? E.n : 0;
    src_setup(&s, &source, kind, in, n);
    /* room for the stated bound plus slack, so that an overlong encoding is
     * observed as a number and not as a sink error */
    snk_setup(&k, &sink, kind, E.out + base, 2 * n + 2 + 6);
    s.err_at = inj.src_at;
    s.err_code = inj.code;
    k.err_at = inj.snk_at;
    k.err_code = inj.code;
    E.rc = rfc1055_encode(ctx, &source, &sink);
    mc_trans(1);
    E.n = base + k.n;
    E.consumed = s.pos;
    E.overflow = k.overflow;
    E.hang = s.overrun || k.overrun;
    E.sfired = s.fired;
    E.kfired = k.fired;
    mc_log("encode rc=%s consumed=%zu of %zu", errname(E.rc), s.pos, n);
    mc_log_hex("  encoding", E.out + base, k.n);
    free(ctx);
    free(in);
}

/* Clauses about one fault-free encoding E.out[base, E.n) of p. */
static bool
judge_encoding(bool sof, const unsigned char *p, size_t n, size_t base)
{
    const unsigned char *e = E.out + base;
    const size_t m = E.n - base;
    if (E.hang) {
        mc_fail("C12/hang", "encode exceeded the driver call budget");
        return false;
    }
    if (E.overflow || m > 2 * n + (sof ? 2 : 1)) {
        mc_fail("C12/encoding-length-bound", "payload of %zu octets encoded to %s%zu octets, bound %zu",
                n, E.overflow ? "more than " : "", m, 2 * n + (sof ? 2 : 1));
        return false;
    }
    if (E.rc < 0) {
        mc_fail("C12/encode-succeeds", "fault-free encode returned %s", errname(E.rc));
        return false;
    }
    if (E.consumed != n) {
        mc_fail("C12/encode-succeeds", "encode consumed %zu of %zu payload octets", E.consumed, n);
        return false;
    }
    /* the delimiter octet appears only as frame delimiter */
    const size_t lead = sof ? 1 : 0;
    if (m < lead + 1 || e[m - 1] != O_END || (sof && e[0] != O_END)) {
        mc_fail("C12/delimiter-only-delimits", "encoding %s is not framed by the delimiter", hex(e, m > 60 ? 60 : m));
        return false;
    }
    for (size_t i = lead; i + 1 < m; ++i)
        if (e[i] == O_END) {
            mc_fail("C12/delimiter-only-delimits", "delimiter octet inside the frame body at offset %zu", i);
            return false;
        }
    (void)p;
    return true;
}

/* ------------------------------------------------------------------------- */
/* anchors: the reference against literal vectors of test/t-rfc1055.c         */

static void
anchors(void)
{
    static const unsigned char payload[] = {
        0xc0, 'a', 'b', 'c', 0xc0, 'd', 'e', 'f', 0xdb, 'g', 'h', 'i',
        0xdd, 'j', 'k', 'l', 0xdc, 'm', 'n', 'o', 0xdc, 'e', 'n', 'd' };
    static const unsigned char expect_with_sof[] = {
        0xc0, 0xdb, 0xdc, 'a', 'b', 'c', 0xdb, 0xdc, 'd', 'e', 'f', 0xdb, 0xdd,
        'g', 'h', 'i', 0xdd, 'j', 'k', 'l', 0xdc, 'm', 'n', 'o', 0xdc, 'e', 'n', 'd', 0xc0 };
    static const unsigned char sync_to_start[] = {
        0xc0, 'a', 'b', 'c', 0xc0, 0xc0, 'd', 'e', 'f', 0xc0, 'g', 'h', 'i', 0xc0,
        0xc0, 'j', 'k', 'l', 0xc0, 0xc0, 'm', 'n', 'o', 0xc0 };
    static const char *without_sof[] = { "", "abc", "", "def", "ghi", "", "jkl", "", "mno" };
    static const unsigned char with_error[] = {
        'i', 'g', 'n', 'o', 'r', 'e', 0xc0, 0xc0, 'f', 0xdb, 'o', 'o', 0xc0,
        0xc0, 'f', 0xdb, 0xc0, 0xc0, 'f', 'o', 'o', 0xc0 };
    unsigned char buf[80];
    static struct frame fr[MAXFR];

    MC_ANCHOR(ref_encode(true, payload, sizeof payload, buf) == sizeof expect_with_sof
              && memcmp(buf, expect_with_sof, sizeof expect_with_sof) == 0,
              "reference encoder vs expect_with_sof");
    MC_ANCHOR(ref_encode(false, payload, sizeof payload, buf) == sizeof expect_with_sof - 1
              && memcmp(buf, expect_with_sof + 1, sizeof expect_with_sof - 1) == 0,
              "reference encoder vs expect_with_sof+1 (classic)");
    MC_ANCHOR(parse_run(true, expect_with_sof, sizeof expect_with_sof, 0, fr) == 1
              && fr[0].e == sizeof expect_with_sof && fr[0].n == sizeof payload
              && memcmp(fr[0].pl, payload, sizeof payload) == 0,
              "reference frame recogniser vs expect_with_sof");
    MC_ANCHOR(parse_run(false, expect_with_sof + 1, sizeof expect_with_sof - 1, 0, fr) == 1
              && fr[0].n == sizeof payload && memcmp(fr[0].pl, payload, sizeof payload) == 0,
              "reference frame recogniser vs classic encoding");
    int k = parse_run(false, sync_to_start, sizeof sync_to_start, 0, fr);
    MC_ANCHOR(k == 9, "sync_to_start has 9 classic frames");
    for (int i = 0; i < 9; ++i)
        MC_ANCHOR(fr[i].n == strlen(without_sof[i]) && memcmp(fr[i].pl, without_sof[i], fr[i].n) == 0,
                  "sync_without_sof list");
    k = parse_run(true, sync_to_start, sizeof sync_to_start, 0, fr);
    MC_ANCHOR(k == 2 && fr[0].n == 3 && !memcmp(fr[0].pl, "abc", 3) && !memcmp(fr[1].pl, "def", 3)
              && fr[1].e == 10, "sync_with_sof: abc def, then out of sync at offset 10");
    k = parse_run(true, sync_to_start, sizeof sync_to_start, 14, fr);
    MC_ANCHOR(k == 2 && !memcmp(fr[0].pl, "jkl", 3) && !memcmp(fr[1].pl, "mno", 3),
              "sync_with_sof: jkl mno behind the double delimiter");
    MC_ANCHOR(first_invalid_escape(with_error, sizeof with_error, 8) == 9, "with_error: ESC o at offset 9");
    MC_ANCHOR(first_invalid_escape(with_error, sizeof with_error, 14) == 15, "with_error: ESC EOF at offset 15");
    k = parse_run(true, with_error, sizeof with_error, 17, fr);
    MC_ANCHOR(k == 1 && fr[0].n == 3 && !memcmp(fr[0].pl, "foo", 3), "with_error: foo behind the errors");
    MC_ANCHOR(-EILSEQ < 0 && -ENODATA < 0 && EILSEQ != ENODATA && EIO != EILSEQ && EPIPE != EILSEQ
              && EIO != ENODATA && EPIPE != ENODATA, "error codes are distinct");
}

static const char *
modename(bool sof)
{
    return sof ? "sof" : "classic";
}

static bool
has_special(const unsigned char *p, size_t n)
{
    for (size_t i = 0; i < n; ++i)
        if (p[i] == O_END || p[i] == O_ESC)
            return true;
    return false;
}

static bool
all_special(const unsigned char *p, size_t n)
{
    for (size_t i = 0; i < n; ++i)
        if (p[i] != O_END && p[i] != O_ESC)
            return false;
    return n > 0;
}

#ifndef C12_ESTATE
/* ========================================================================= */
/* E-SPACE families                                                           */

/* decode E.out[0,E.n) from a fresh context and demand exactly `want` */
static void
roundtrip_decode(bool sof, bool use_init_fn, enum kind kind)
{
    static unsigned char stream[MAXSTREAM + 16];
    const size_t len = E.n;
    memcpy(stream, E.out, len);
    run_decoder(sof ? RFC1055_WITH_SOF : RFC1055_DEFAULT, -1, use_init_fn, kind,
                stream, len, NO_INJECT);
}

/* (a) every payload: encode, clauses on the encoding, decode back */
static void
family_roundtrip(size_t maxlen)
{
    unsigned char p[16];
    for (int sof = 0; sof < 2; ++sof)
        for (size_t n = 0; n <= maxlen; ++n)
            for (uint64_t idx = 0; idx < P5[n]; ++idx) {
                if (!mc_would_run()) {
                    mc_skip_case();
                    continue;
                }
                nth_string(n, idx, p);
                mc_case("roundtrip mode=%s payload=%s", modename(sof), hex(p, n));
                run_encoder(sof, true, K_OCTET, p, n, NO_INJECT, false);
                if (judge_encoding(sof, p, n, 0)) {
                    roundtrip_decode(sof, true, K_OCTET);
                    struct verdict v = judge(sof, true, false, E.out, E.n, -1);
                    /* the encoding must be one frame carrying p: R.c[0] */
                    if (!mc.cur_failed
                        && !(R.n == 2 && R.c[0].rc == 1 && R.c[0].olen == n
                             && memcmp(R.out, p, n) == 0 && R.c[0].off1 == E.n))
                        mc_fail("C12/roundtrip-in-order", "decode(encode(p)) is not p followed by the end of the source: %d calls, first rc=%s emitted=%s",
                                R.n, errname(R.c[0].rc), hex(R.out, R.c[0].olen));
                    (void)v;
                }
                mc_end(n > 0, n == 0 ? "rt-empty" : all_special(p, n) ? "rt-worst-case"
                       : has_special(p, n) ? "rt-escaped" : "rt-plain");
            }
}

/* (a') every ordered pair: two encode calls into one sink, decode the lot */
static void
family_pairs(size_t maxlen)
{
    unsigned char p1[8], p2[8];
    for (int sof = 0; sof < 2; ++sof)
        for (size_t n1 = 0; n1 <= maxlen; ++n1)
            for (uint64_t i1 = 0; i1 < P5[n1]; ++i1)
                for (size_t n2 = 0; n2 <= maxlen; ++n2)
                    for (uint64_t i2 = 0; i2 < P5[n2]; ++i2) {
                        if (!mc_would_run()) {
                            mc_skip_case();
                            continue;
                        }
                        nth_string(n1, i1, p1);
                        nth_string(n2, i2, p2);
                        mc_case("pair mode=%s p1=%s p2=%s", modename(sof), hex(p1, n1), hex(p2, n2));
                        run_encoder(sof, true, K_OCTET, p1, n1, NO_INJECT, false);
                        bool ok = judge_encoding(sof, p1, n1, 0);
                        const size_t mid = E.n;
                        if (ok) {
                            run_encoder(sof, true, K_OCTET, p2, n2, NO_INJECT, true);
                            ok = judge_encoding(sof, p2, n2, mid);
                        }
                        if (ok) {
                            roundtrip_decode(sof, true, K_OCTET);
                            judge(sof, true, false, E.out, E.n, -1);
                            if (!mc.cur_failed
                                && !(R.n == 3 && R.c[0].rc == 1 && R.c[1].rc == 1
                                     && R.c[0].olen == n1 && memcmp(R.out + R.c[0].o0, p1, n1) == 0
                                     && R.c[1].olen == n2 && memcmp(R.out + R.c[1].o0, p2, n2) == 0
                                     && R.c[0].off1 == mid && R.c[1].off1 == E.n))
                                mc_fail("C12/roundtrip-in-order", "concatenated encodings did not decode to (p1, p2, end of source): %d calls", R.n);
                        }
                        mc_end(n1 + n2 > 0, (n1 == 0 || n2 == 0) ? "pair-with-empty" : "pair");
                    }
}

/* RFC1055_WORST_CASE dimensions buffers for the statement's bound: a value
 * below 2n+1 (2n+2) would let a worst-case encoding overflow them; a larger
 * (conservative) value is fine - the statement bounds the encoding, not the
 * macro */
static void
family_macro(void)
{
    for (int sof = 0; sof < 2; ++sof) {
        if (!mc_case("worst-case-macro mode=%s n=0..1100", modename(sof)))
            continue;
        for (size_t n = 0; n <= 1100; ++n) {
            const size_t w = sof ? RFC1055_WORST_WITHSOF(n) : RFC1055_WORST_CLASSIC(n);
            const size_t g = RFC1055_WORST_CASE(n, sof != 0);
            if (w < 2 * n + (sof ? 2 : 1) || g < 2 * n + (sof ? 2 : 1)) {
                mc_fail("C12/worst-case-macro", "RFC1055_WORST_CASE(%zu,%s) = %zu / %zu is below the worst-case encoding length %zu",
                        n, sof ? "true" : "false", g, w, 2 * n + (sof ? 2 : 1));
                break;
            }
        }
        mc_end(true, "worst-case-macro");
    }
}

/* (b) every class string as raw decoder input */
static void
family_raw(size_t maxlen)
{
    unsigned char st[16];
    for (int sof = 0; sof < 2; ++sof)
        for (size_t n = 0; n <= maxlen; ++n)
            for (uint64_t idx = 0; idx < P5[n]; ++idx) {
                if (!mc_would_run()) {
                    mc_skip_case();
                    continue;
                }
                nth_string(n, idx, st);
                mc_case("raw mode=%s stream=%s", modename(sof), hex(st, n));
                run_decoder(sof ? RFC1055_WITH_SOF : RFC1055_DEFAULT, 0, true, K_OCTET, st, n, NO_INJECT);
                struct verdict v = judge(sof, true, false, st, n, -1);
                const char *o = v.eilseq ? (v.nonempty ? "raw-eilseq-and-frames" : "raw-eilseq")
                    : v.nonempty ? "raw-frames" : v.deliveries ? "raw-empty-frames" : "raw-no-frame";
                mc_end(v.eilseq + v.deliveries > 0, o);
            }
}

/* (b') ESC followed by each of the 256 octet values inside a frame that is
 * followed by a good frame: only dc and dd are valid second octets */
static void
family_raw_escape_all(void)
{
    unsigned char st[16];
    for (int sof = 0; sof < 2; ++sof)
        for (int lead = 0; lead < 2; ++lead) /* escape first in the frame / behind an ordinary octet */
            for (int v = 0; v < 256; ++v) {
                if (!mc_case("raw-escape mode=%s lead=%d second-octet=%02x", modename(sof), lead, v))
                    continue;
                size_t n = 0;
                if (sof)
                    st[n++] = O_END;
                if (lead)
                    st[n++] = 0x61;
                st[n++] = O_ESC;
                st[n++] = (unsigned char)v;
                st[n++] = 0x62;
                st[n++] = O_END;
                for (int f = 0; f < 2; ++f) {
                    if (sof)
                        st[n++] = O_END;
                    st[n++] = (unsigned char)(0x63 + f);
                    st[n++] = O_END;
                }
                mc_log_hex("stream", st, n);
                run_decoder(sof ? RFC1055_WITH_SOF : RFC1055_DEFAULT, 0, true, K_OCTET, st, n, NO_INJECT);
                struct verdict vd = judge(sof, true, false, st, n, -1);
                mc_end(true, vd.eilseq ? "escape-rejected" : "escape-accepted");
            }
}

/* (c) garbage prefix x sequence of well-formed frames */
#define NPL2 31 /* payloads of length <= 2 */
static unsigned char PL[NPL2][2];
static size_t PLN[NPL2];

static void
resync_case(bool sof, const unsigned char *g, size_t gl, const int *f, int nf)
{
    if (!mc_would_run()) {
        mc_skip_case();
        return;
    }
    unsigned char st[64];
    size_t len = gl;
    memcpy(st, g, gl);
    for (int i = 0; i < nf; ++i)
        len += ref_encode(sof, PL[f[i]], PLN[f[i]], st + len);
    mc_case("resync mode=%s garbage=%s frames=%s|%s|%s", modename(sof), hex(g, gl),
            hex(PL[f[0]], PLN[f[0]]), nf > 1 ? hex(PL[f[1]], PLN[f[1]]) : "",
            nf > 2 ? hex(PL[f[2]], PLN[f[2]]) : "");
    mc_log_hex("stream", st, len);
    run_decoder(sof ? RFC1055_WITH_SOF : RFC1055_DEFAULT, 0, true, K_OCTET, st, len, NO_INJECT);
    /* gl == 0 is the concatenation clause again, judged as `initial` */
    struct verdict v = judge(sof, true, false, st, len, (long)gl);
    const char *o;
    if (v.required == 0)
        o = "resync-nothing-owed";
    else if (v.eilseq)
        o = (sof && v.lost_first) ? "resync-after-eilseq-first-lost" : "resync-after-eilseq";
    else
        o = (sof && v.lost_first) ? "resync-silent-first-lost" : "resync-silent";
    mc_end(v.required > 0, o);
}

static void
family_resync(size_t gmax, int nframes_max, int plmax /* payload ids < plmax */, size_t gmin)
{
    unsigned char g[8];
    int f[3];
    for (int sof = 0; sof < 2; ++sof)
        for (size_t gl = gmin; gl <= gmax; ++gl)
            for (uint64_t gi = 0; gi < P5[gl]; ++gi) {
                nth_string(gl, gi, g);
                for (int nf = 1; nf <= nframes_max; ++nf) {
                    const int n0 = plmax, n1 = nf > 1 ? plmax : 1, n2 = nf > 2 ? plmax : 1;
                    for (f[0] = 0; f[0] < n0; ++f[0])
                        for (f[1] = 0; f[1] < n1; ++f[1])
                            for (f[2] = 0; f[2] < n2; ++f[2])
                                resync_case(sof, g, gl, f, nf);
                }
            }
}

/* three frames with payload length <= 1 (quick tier complement) */
static void
family_resync3(size_t gmax)
{
    unsigned char g[8];
    int f[3];
    for (int sof = 0; sof < 2; ++sof)
        for (size_t gl = 0; gl <= gmax; ++gl)
            for (uint64_t gi = 0; gi < P5[gl]; ++gi) {
                nth_string(gl, gi, g);
                for (f[0] = 0; f[0] < 6; ++f[0])
                    for (f[1] = 0; f[1] < 6; ++f[1])
                        for (f[2] = 0; f[2] < 6; ++f[2])
                            resync_case(sof, g, gl, f, 3);
            }
}

/* (d) error injection */
static const int CODES[2] = { -EIO, -EPIPE };

static void
family_fault_encode(size_t maxlen)
{
    unsigned char p[8], ref[24];
    for (int sof = 0; sof < 2; ++sof)
        for (size_t n = 0; n <= maxlen; ++n)
            for (uint64_t idx = 0; idx < P5[n]; ++idx) {
                nth_string(n, idx, p);
                const size_t m = ref_encode(sof, p, n, ref);
                for (int which = 0; which < 2; ++which) {
                    /* sink: one position per octet of the encoding; source:
                     * one per payload octet plus the call that reports the end */
                    const long npos = which == 0 ? (long)m : (long)n + 1;
                    for (long at = 0; at < npos; ++at)
                        for (int ci = 0; ci < 2; ++ci) {
                            if (!mc_would_run()) {
                                mc_skip_case();
                                continue;
                            }
                            mc_case("fault-encode mode=%s payload=%s %s-call=%ld code=%s",
                                    modename(sof), hex(p, n), which ? "source" : "sink", at,
                                    errname(CODES[ci]));
                            struct inject inj = { which ? at : -1, which ? -1 : at, CODES[ci] };
                            run_encoder(sof, true, K_OCTET, p, n, inj, false);
                            const bool fired = which ? E.sfired : E.kfired;
                            if (E.hang)
                                mc_fail("C12/hang", "encode exceeded the driver call budget");
                            else if (fired && E.rc != CODES[ci])
                                mc_fail(which ? "C12/source-error-unchanged" : "C12/sink-error-unchanged",
                                        "%s failed with %s, encode returned %s", which ? "source" : "sink",
                                        errname(CODES[ci]), errname(E.rc));
                            else if (!fired && E.rc < 0)
                                mc_fail("C12/encode-succeeds", "no driver failed, encode returned %s", errname(E.rc));
                            mc_end(fired, !fired ? "fault-not-reached"
                                   : which ? "encode-source-error" : "encode-sink-error");
                        }
                }
            }
}

static void
family_fault_decode(size_t maxlen)
{
    unsigned char st[8];
    for (int sof = 0; sof < 2; ++sof)
        for (size_t n = 1; n <= maxlen; ++n)
            for (uint64_t idx = 0; idx < P5[n]; ++idx) {
                nth_string(n, idx, st);
                for (int which = 0; which < 2; ++which) {
                    /* source call k (k = 0..n; without faults call n reports
                     * the end); sink call k < n (emitted <= consumed) */
                    const long npos = which ? (long)n + 1 : (long)n;
                    for (long at = 0; at < npos; ++at)
                        for (int ci = 0; ci < 2; ++ci) {
                            if (!mc_would_run()) {
                                mc_skip_case();
                                continue;
                            }
                            mc_case("fault-decode mode=%s stream=%s %s-call=%ld code=%s",
                                    modename(sof), hex(st, n), which ? "source" : "sink", at,
                                    errname(CODES[ci]));
                            struct inject inj = { which ? at : -1, which ? -1 : at, CODES[ci] };
                            run_decoder(sof ? RFC1055_WITH_SOF : RFC1055_DEFAULT, 0, true, K_OCTET, st, n, inj);
                            judge(sof, true, true, st, n, -1);
                            bool fired = false;
                            for (int i = 0; i < R.n; ++i) {
                                const struct dcall *c = &R.c[i];
                                if (!(c->sfired || c->kfired))
                                    continue;
                                fired = true;
                                if (c->rc != CODES[ci])
                                    mc_fail(which ? "C12/source-error-unchanged" : "C12/sink-error-unchanged",
                                            "%s failed with %s during call %d, decode returned %s",
                                            which ? "source" : "sink", errname(CODES[ci]), i, errname(c->rc));
                            }
                            mc_end(fired, !fired ? "fault-not-reached"
                                   : which ? "decode-source-error" : "decode-sink-error");
                        }
                }
            }
}

/* (f) the "random full-alphabet payloads up to 1 KiB" clause, replaced by
 * structured exhaustive families over all 256 octet values */
static void
long_case(bool sof, bool initfn, enum kind kind, const unsigned char *p, size_t n, const char *what)
{
    run_encoder(sof, initfn, kind, p, n, NO_INJECT, false);
    if (judge_encoding(sof, p, n, 0)) {
        roundtrip_decode(sof, initfn, kind);
        if (R.hang)
            mc_fail("C12/hang", "decode made no progress");
        else if (!(R.n == 2 && R.c[0].rc == 1 && R.c[0].olen == n && memcmp(R.out, p, n) == 0
                   && R.c[0].off1 == E.n && R.c[1].rc == -ENODATA))
            mc_fail("C12/roundtrip-in-order", "decode(encode(p)) is not p followed by the end of the source: %d calls, first rc=%s emitted %zu octets",
                    R.n, errname(R.c[0].rc), R.c[0].olen);
        else if (R.c[0].olen > R.c[0].off1)
            mc_fail("C12/emits-at-most-consumed", "emitted %zu consumed %zu", R.c[0].olen, R.c[0].off1);
    }
    mc_end(n > 0, what);
}

static void
family_long(void)
{
    static unsigned char p[1100];
    const bool th = mc_thorough();
    /* every ordered pair of octet values */
    for (int sof = 0; sof < 2; ++sof)
        for (int v = 0; v < 256; ++v)
            for (int w = 0; w < 256; ++w) {
                if (!mc_case("octet-pair mode=%s payload=%02x%02x", modename(sof), v, w))
                    continue;
                p[0] = (unsigned char)v;
                p[1] = (unsigned char)w;
                long_case(sof, true, K_OCTET, p, 2, "full-alphabet-pair");
            }
    /* constant fill, every octet value, lengths around the 1 KiB bound */
    static const size_t fl_q[] = { 1, 3, 1024 }, fl_t[] = { 1, 3, 255, 256, 257, 1023, 1024 };
    const size_t *fl = th ? fl_t : fl_q;
    const int nfl = th ? 7 : 3;
    for (int sof = 0; sof < 2; ++sof)
        for (int kind = 0; kind < 2; ++kind)
            for (int li = 0; li < nfl; ++li)
                for (int v = 0; v < 256; ++v) {
                    if (!mc_case("fill mode=%s drivers=%s n=%zu octet=%02x", modename(sof),
                                 kind ? "chunk" : "octet", fl[li], v))
                        continue;
                    memset(p, v, fl[li]);
                    long_case(sof, true, (enum kind)kind, p, fl[li],
                              (v == O_END || v == O_ESC) ? "fill-worst-case" : "fill");
                }
    /* ramp over the whole alphabet from every start value */
    for (int sof = 0; sof < 2; ++sof)
        for (int start = 0; start < 256; ++start) {
            const size_t n = th ? 1024 : 300;
            if (!mc_case("ramp mode=%s n=%zu start=%02x", modename(sof), n, start))
                continue;
            for (size_t i = 0; i < n; ++i)
                p[i] = (unsigned char)(start + i);
            long_case(sof, false, K_CHUNK, p, n, "ramp");
        }
    /* the five classes cycling, every length up to 1 KiB, every phase */
    for (int sof = 0; sof < 2; ++sof)
        for (int initfn = 0; initfn < 2; ++initfn)
            for (size_t n = 0; n <= 1024; ++n) {
                if (!th && n > 48 && n < 1016)
                    continue;
                for (int ph = 0; ph < 5; ++ph) {
                    if (!mc_case("cycle mode=%s init=%s n=%zu phase=%d (octet i = class[(i+phase)%%5] of 41,c0,db,dc,dd)",
                                 modename(sof), initfn ? "function" : "macro", n, ph))
                        continue;
                    for (size_t i = 0; i < n; ++i)
                        p[i] = CLS[(i + (size_t)ph) % 5];
                    long_case(sof, initfn, K_OCTET, p, n, "cycle");
                }
            }
}

int
main(int argc, char **argv)
{
    mc_init(argc, argv);
    P5[0] = 1;
    for (int i = 1; i < 14; ++i)
        P5[i] = P5[i - 1] * 5;
    int k = 0;
    for (size_t n = 0; n <= 2; ++n)
        for (uint64_t idx = 0; idx < P5[n]; ++idx) {
            nth_string(n, idx, PL[k]);
            PLN[k++] = n;
        }
    anchors();
    const bool th = mc_thorough();

    family_roundtrip(th ? 9 : 7);
    family_pairs(th ? 4 : 3);
    family_macro();
    family_raw(th ? 9 : 7);
    family_raw_escape_all();
    if (th) {
        family_resync(4, 3, NPL2, 0);
        family_resync(6, 2, 6, 5);
    } else {
        family_resync(3, 2, NPL2, 0);
        family_resync3(3);
    }
    family_fault_encode(th ? 5 : 3);
    family_fault_decode(th ? 6 : 4);
    family_long();

    mc_finish(true, th
              ? "payloads and raw streams of length 0..9 over {41,c0,db,dc,dd}; pairs of payloads <= 4; garbage <= 4 x 1-3 frames of payload <= 2, garbage 5-6 x 1-2 frames of payload <= 1; faults at every driver call (payload <= 5, stream <= 6) x {-EIO,-EPIPE}; ESC x all 256 second octets; all 65536 octet pairs, fills/ramps/cycles up to 1024"
              : "payloads and raw streams of length 0..7 over {41,c0,db,dc,dd}; pairs of payloads <= 3; garbage <= 3 x (1-2 frames of payload <= 2, 3 frames of payload <= 1); faults at every driver call (payload <= 3, stream <= 4) x {-EIO,-EPIPE}; ESC x all 256 second octets; all 65536 octet pairs, fills/ramps/cycles up to 1024");
    return 0;
}

#else /* C12_ESTATE */
/* ========================================================================= */
/* E-STATE: search over the decoder context                                   */

/* a search node is the whole context image, not a selection of members */
struct key {
    unsigned char image[sizeof(RFC1055Context)];
};

static void
key_ctx(const struct key *k, RFC1055Context *out)
{
    memcpy(out, k->image, sizeof *out);
}

static const char *
statename(int s)
{
    switch (s) {
    case RFC1055_SEARCH_FOR_START: return "SEARCH_FOR_START";
    case RFC1055_SEARCH_FOR_END: return "SEARCH_FOR_END";
    case RFC1055_NORMAL: return "NORMAL";
    default: return "?";
    }
}

static void
op_string(int op, unsigned char *out, size_t *len)
{
    size_t n = 0;
    uint64_t idx = (uint64_t)op;
    while (idx >= P5[n]) {
        idx -= P5[n];
        n++;
    }
    nth_string(n, idx, out);
    *len = n;
}

static void
path_text(const struct mc_set *s, int64_t id, char *buf, size_t n)
{
    int ops[32];
    int k = 0;
    while (id >= 0 && s->parent[id] >= 0 && k < 32) {
        ops[k++] = s->op[id];
        id = s->parent[id];
    }
    size_t l = 0;
    buf[0] = 0;
    while (k-- > 0 && l + 24 < n) {
        unsigned char st[16];
        size_t len;
        op_string(ops[k], st, &len);
        l += (size_t)snprintf(buf + l, n - l, "%s%s", hex(st, len), k ? "," : "");
    }
}

int
main(int argc, char **argv)
{
    mc_init(argc, argv);
    P5[0] = 1;
    for (int i = 1; i < 14; ++i)
        P5[i] = P5[i - 1] * 5;
    anchors();
    const size_t maxlen = mc_thorough() ? 7 : 5;
    int nops = 0;
    for (size_t n = 0; n <= maxlen; ++n)
        nops += (int)P5[n];

    struct mc_set set;
    mc_set_init(&set);
    /* the two initial contexts, produced by the library itself on a zeroed block */
    struct key init_key[2];
    for (int sof = 0; sof < 2; ++sof) {
        RFC1055Context c;
        memset(&c, 0, sizeof c);
        rfc1055_context_init(&c, sof ? RFC1055_WITH_SOF : RFC1055_DEFAULT);
        memset(&init_key[sof], 0, sizeof init_key[sof]);
        memcpy(init_key[sof].image, &c, sizeof c);
        mc_set_add(&set, &init_key[sof], sizeof init_key[sof], -1, -1, NULL);
    }
    for (int64_t cur = 0; cur < (int64_t)set.n; ++cur) {
        struct key k;
        memcpy(&k, mc_set_key(&set, cur), sizeof k);
        RFC1055Context kc;
        key_ctx(&k, &kc);
        const bool sof = (kc.flags & RFC1055_WITH_SOF) != 0;
        /* "initial" = exactly what a fresh rfc1055_context_init produces */
        const bool initial = memcmp(&k, &init_key[sof], sizeof k) == 0;
        char path[200];
        path_text(&set, cur, path, sizeof path);
        for (int op = 0; op < nops; ++op) {
            unsigned char st[16];
            size_t len;
            op_string(op, st, &len);
            mc_case("context mode=%s state=%s%s reached-by=[%s] stream=%s", modename(sof),
                    statename((int)kc.state),
                    (!initial && kc.state == (sof ? RFC1055_SEARCH_FOR_START : RFC1055_NORMAL))
                        ? "(other members differ from the initial context)" : "",
                    path, hex(st, len));
            ctx_image_in = k.image;
            run_decoder(kc.flags, (int)kc.state, false, K_OCTET, st, len, NO_INJECT);
            ctx_image_in = NULL;
            struct verdict v = judge(sof, initial, false, st, len, -1);
            struct key nk;
            memset(&nk, 0, sizeof nk);
            memcpy(nk.image, R.ctx_after, sizeof nk.image);
            if (!R.hang && !R.overflow)
                mc_set_add(&set, &nk, sizeof nk, cur, op, NULL);
            const int ns = R.state_after;
            const char *o = ns == RFC1055_NORMAL ? (v.eilseq ? "to-normal-via-eilseq" : "to-normal")
                : ns == RFC1055_SEARCH_FOR_END ? "to-search-for-end"
                : ns == RFC1055_SEARCH_FOR_START ? (v.nonempty ? "to-search-for-start-delivering" : "to-search-for-start")
                : "to-unknown-state";
            mc_end(v.deliveries + v.eilseq > 0, o);
        }
        if (set.n > 64) {
            mc_cap("context cap 64 hit");
            break;
        }
    }
    mc.states += (int64_t)set.n;
    char bound[200];
    snprintf(bound, sizeof bound,
             "every context image reachable from both initial contexts, every stream of length 0..%zu over {41,c0,db,dc,dd} decoded to exhaustion from each, to fixpoint (%zu contexts)",
             maxlen, set.n);
    mc_set_free(&set);
    mc_finish(true, bound);
    return 0;
}
#endif
