/*
 * C10 -- checksummed persistent storage: store / validate / fetch round-trips
 * and every medium access stays inside the instance's region.
 *
 * Shape: E-SPACE.  A case is (configuration, scenario, scenario parameters);
 * the numbering depends on nothing the implementation does.
 *
 *   configuration = data size N x placement x checksum {default trivial 16-bit
 *                   sum, CRC-16/ARC via persistent_sum16, weighted 32-bit sum
 *                   with non-zero initial value via persistent_sum32} x order
 *                   of persistent_place / persistent_sumNN x auxiliary buffer
 *                   {none, sizes 0..N+1}
 *   scenario A    = reset(fill) -> store(image) -> validate -> fetch -> every
 *                   partial fetch (offset,len)
 *   scenario B    = {reset | reset+store} -> store_part(offset,len) ->
 *                   validate -> fetch                (every offset+len <= N)
 *   scenario C    = store -> a part access reaching beyond the data size
 *                   (offset+len = N+1, N+2; arithmetic-overflow pairs
 *                   offset = SIZE_MAX-k, len = k+1+j) by store_part/fetch_part
 *   scenario D    = store -> alter one octet of the region -> validate
 *
 * The medium is exactly the instance's region [place, place+cs+N) inside an
 * exact-size heap block.  The callbacks log every (address,length); an access
 * that is not completely inside the region is recorded, refused (returns 0)
 * and never touches memory.  A budget of medium calls per library operation
 * turns a livelock into a violation (the callback longjmps out).
 *
 * Reference side: the three checksum algorithms below are written from their
 * definitions (not from ufw's code), applied to the whole data image in one
 * go; the expected image is a plain array (previous image overlaid with the
 * part).
 *
 * What the statement leaves open is accepted: which of checksum and data image
 * comes first inside the region and the byte order of the checksum octets (an
 * "interpretation" of the region, see region_interps) - a violation is only
 * reported when no interpretation fits, and alteration detection is demanded
 * relative to the interpretation(s) the store of that case used.  An in-range
 * store that returns non-success on the fault-free medium is not a violation
 * either (the statement speaks about successful stores): outcome class
 * "store-refused", unless the instance then validates an image its checksum
 * does not cover.
 */
#include "mc.h"

#include <setjmp.h>

#include <ufw/persistent-storage.h>

#define NMAX 40

/* ---- reference checksums ------------------------------------------------------ */

/* "sums up all bytes in the buffer into a uint16_t" */
static uint32_t
ref_sum16(const unsigned char *d, size_t n)
{
    uint32_t s = 0;
    for (size_t i = 0; i < n; ++i)
        s = (s + d[i]) % 65536u;
    return s;
}

/* CRC-16/ARC: polynomial x^16+x^15+x^2+1 (0x8005), reflected, init 0, no final
 * xor.  Bit-serial. */
static uint16_t
crc16_arc_step(const unsigned char *d, size_t n, uint16_t crc)
{
    for (size_t i = 0; i < n; ++i) {
        crc ^= d[i];
        for (int b = 0; b < 8; ++b)
            crc = (crc & 1u) ? (uint16_t)((crc >> 1) ^ 0xa001u) : (uint16_t)(crc >> 1);
    }
    return crc;
}

/* a 32-bit sum: every octet is added into both 16-bit halves, initial value
 * SUM32_INIT (non-zero, close to wrap-around so that carries happen) */
#define SUM32_INIT 0xfffefd00u
static uint32_t
sum32_step(const unsigned char *d, size_t n, uint32_t s)
{
    for (size_t i = 0; i < n; ++i)
        s += (uint32_t)d[i] * 0x00010001u;
    return s;
}

enum { CK_DEFAULT, CK_CRC16, CK_SUM32, CK_KINDS };
static const char *const CKNAME[CK_KINDS] = { "default-sum16", "crc16-arc", "sum32" };

static size_t
cks_size(int ck)
{
    return ck == CK_SUM32 ? 4u : 2u;
}

static uint32_t
ref_checksum(int ck, const unsigned char *d, size_t n)
{
    switch (ck) {
    case CK_DEFAULT: return ref_sum16(d, n);
    case CK_CRC16: return crc16_arc_step(d, n, 0);
    default: return sum32_step(d, n, SUM32_INIT);
    }
}

/* Which byte orders of `value` do the cs octets at p show?  1 = little endian
 * (this host's native order), 2 = big endian.  The statement does not fix the
 * order; the harness demands consistency with the order the store used. */
static int
cks_orders(const unsigned char *p, size_t cs, uint32_t value)
{
    int m = 3;
    for (size_t i = 0; i < cs; ++i) {
        if (p[i] != (unsigned char)(value >> (8 * i)))
            m &= ~1;
        if (p[i] != (unsigned char)(value >> (8 * (cs - 1 - i))))
            m &= ~2;
    }
    return m;
}

/* Interpretations of a region image: where checksum and data image sit and in
 * which byte order the checksum octets are.  Bits 0/1: checksum first
 * ([0,cs) checksum, [cs,cs+N) data), little/big endian; bits 2/3: data first
 * ([0,N) data, [N,N+cs) checksum), little/big endian.  With `expect` the mask
 * of interpretations under which the region holds exactly (expect,
 * checksum(expect)); without, those under which the region is consistent in
 * itself (checksum octets = checksum of the data octets). */
#define INTERP_ALL 0xf
static int
region_interps(const unsigned char *img, size_t cs, size_t N, int ck, const unsigned char *expect)
{
    int m = 0;
    for (int lay = 0; lay < 2; ++lay) {
        const unsigned char *data = img + (lay ? 0 : cs);
        const unsigned char *sum = img + (lay ? N : 0);
        if (expect && memcmp(data, expect, N) != 0)
            continue;
        m |= cks_orders(sum, cs, ref_checksum(ck, data, N)) << (2 * lay);
    }
    return m;
}

/* ---- the medium ----------------------------------------------------------------- */

struct access {
    char rw;
    uint32_t addr;
    size_t len;
};

static struct {
    unsigned char *img; /* exact block: the region, checksum first */
    size_t size;        /* cs + N */
    uint64_t lo;        /* medium address of img[0] */
    long calls, budget;
    long reads, writes;
    size_t maxread;
    long outside;
    struct access first_outside;
    bool escaped;
    jmp_buf escape;
} M;

static bool
med_inside(uint32_t addr, size_t n)
{
    const uint64_t a = addr;
    return a >= M.lo && n <= M.size && (a - M.lo) <= (uint64_t)(M.size - n);
}

static void
med_account(char rw, uint32_t addr, size_t n)
{
    mc_log("    medium %s addr=%lu len=%zu", rw == 'r' ? "read " : "write",
           (unsigned long)addr, n);
    if (++M.calls > M.budget)
        longjmp(M.escape, 1);
    if (!med_inside(addr, n)) {
        if (M.outside++ == 0)
            M.first_outside = (struct access){ rw, addr, n };
    }
}

static size_t
med_read(void *dst, uint32_t addr, size_t n)
{
    med_account('r', addr, n);
    if (!med_inside(addr, n))
        return 0;
    M.reads++;
    if (n > M.maxread)
        M.maxread = n;
    if (n)
        memcpy(dst, M.img + ((uint64_t)addr - M.lo), n);
    return n;
}

static size_t
med_write(uint32_t addr, const void *src, size_t n)
{
    med_account('w', addr, n);
    if (!med_inside(addr, n))
        return 0;
    M.writes++;
    if (n)
        memcpy(M.img + ((uint64_t)addr - M.lo), src, n);
    return n;
}

/* checksum callbacks handed to the library */
static uint16_t
cb_crc16(const unsigned char *d, size_t n, uint16_t init)
{
    return crc16_arc_step(d, n, init);
}

static uint32_t
cb_sum32(const unsigned char *d, size_t n, uint32_t init)
{
    return sum32_step(d, n, init);
}

/* ---- configuration --------------------------------------------------------------- */

#define PLACE_TOP 0xffffffffu /* marker: region ends exactly at 2^32 */
static const uint32_t PLACES[] = { 0u, 1u, 7u, 100u, PLACE_TOP };
#define NPLACES 5

struct cfg {
    size_t N;
    int place_i;
    int ck;
    int order; /* 0: place then sumNN; 1: sumNN then place */
    int buf;   /* -1: no auxiliary buffer; otherwise its size */
};

struct inst {
    PersistentStorage s;
    unsigned char *aux;
};

static uint32_t
cfg_place(const struct cfg *c)
{
    if (PLACES[c->place_i] == PLACE_TOP)
        return (uint32_t)(0x100000000ull - (cks_size(c->ck) + c->N));
    return PLACES[c->place_i];
}

static void
inst_sum(struct inst *in, const struct cfg *c)
{
    if (c->ck == CK_CRC16)
        persistent_sum16(&in->s, cb_crc16, 0u);
    else if (c->ck == CK_SUM32)
        persistent_sum32(&in->s, cb_sum32, SUM32_INIT);
}

static void
inst_make(struct inst *in, const struct cfg *c)
{
    memset(in, 0, sizeof *in);
    persistent_init(&in->s, c->N, med_read, med_write);
    if (c->order == 0) {
        persistent_place(&in->s, cfg_place(c));
        inst_sum(in, c);
    } else {
        inst_sum(in, c);
        persistent_place(&in->s, cfg_place(c));
    }
    if (c->buf >= 0) {
        in->aux = mc_exact((size_t)c->buf);
        persistent_buffer(&in->s, in->aux, (size_t)c->buf);
    }
}

static void
inst_free(struct inst *in)
{
    free(in->aux);
    in->aux = NULL;
}

static void
medium_make(const struct cfg *c)
{
    M.size = cks_size(c->ck) + c->N;
    M.lo = cfg_place(c);
    M.img = mc_exact(M.size);
    memset(M.img, 0xcd, M.size);
}

static void
medium_free(void)
{
    free(M.img);
    M.img = NULL;
}

/* ---- guarded library calls -------------------------------------------------------- */

enum { OP_RESET, OP_STORE, OP_STORE_PART, OP_VALIDATE, OP_FETCH, OP_FETCH_PART };
static const char *const OPNAME[] = { "reset", "store", "store_part", "validate",
                                      "fetch", "fetch_part" };

struct call {
    int op;
    PersistentStorage *s;
    void *buf;
    size_t off, n;
    unsigned char fill;
    PersistentAccess rc;
};

static bool
call_guarded(struct call *c)
{
    if (setjmp(M.escape) != 0)
        return true;
    switch (c->op) {
    case OP_RESET: c->rc = persistent_reset(c->s, c->fill); break;
    case OP_STORE: c->rc = persistent_store(c->s, c->buf); break;
    case OP_STORE_PART: c->rc = persistent_store_part(c->s, c->buf, c->off, c->n); break;
    case OP_VALIDATE: c->rc = persistent_validate(c->s); break;
    case OP_FETCH: c->rc = persistent_fetch(c->buf, c->s); break;
    default: c->rc = persistent_fetch_part(c->buf, c->s, c->off, c->n); break;
    }
    return false;
}

static bool failed_here; /* some oracle sentence failed in the running case */
static bool hung_here;
static bool refused_here; /* an in-range store returned non-success: case ends "store-refused" */
static int interp_here;   /* interpretations every successful store of the case agreed with */

#define FAIL(...)                                                              \
    do {                                                                       \
        mc_fail(__VA_ARGS__);                                                  \
        failed_here = true;                                                    \
    } while (0)

/* Runs one library operation with a fresh access log.  Returns false when the
 * case cannot go on (livelock); reports accesses outside the region. */
static bool
run_op(struct inst *in, int op, void *buf, size_t off, size_t n, unsigned char fill,
       PersistentAccess *rc)
{
    struct call c = { op, &in->s, buf, off, n, fill, PERSISTENT_ACCESS_SUCCESS };
    M.calls = 0;
    M.reads = M.writes = 0;
    M.maxread = 0;
    M.outside = 0;
    M.budget = 8 * (long)M.size + 32;
    mc_log("  %s(off=%zu,n=%zu)", OPNAME[op], off, n);
    mc_trans(1);
    M.escaped = call_guarded(&c);
    if (M.escaped) {
        FAIL("C10/hang", "%s made more than %ld medium calls without returning",
             OPNAME[op], M.budget);
        hung_here = true;
        return false;
    }
    mc_log("  -> rc=%d", (int)c.rc);
    *rc = c.rc;
    if (M.outside)
        FAIL("C10/access-inside-region",
             "%s: %s of %zu octets at medium address %lu, region is [%llu,%llu)",
             OPNAME[op], M.first_outside.rw == 'r' ? "read" : "write",
             M.first_outside.len, (unsigned long)M.first_outside.addr,
             (unsigned long long)M.lo, (unsigned long long)(M.lo + M.size));
    return true;
}

/* ---- images ------------------------------------------------------------------------ */

/* image family of size N: 0 zeros, 1 ff.., 2 ramp, 3 second ramp, 4+p one-hot at p */
static int
nimages(size_t N)
{
    return 4 + (int)N;
}

static void
make_image(unsigned char *d, size_t N, int which)
{
    for (size_t i = 0; i < N; ++i) {
        switch (which) {
        case 0: d[i] = 0x00; break;
        case 1: d[i] = 0xff; break;
        case 2: d[i] = (unsigned char)(0x11 + 0x1d * i); break;
        case 3: d[i] = (unsigned char)(0xe3 - 0x35 * i); break;
        default: d[i] = ((size_t)(which - 4) == i) ? (unsigned char)(0x80 | i) : 0x00; break;
        }
    }
}

static const unsigned char FILLS[3] = { 0x00, 0xff, 0x5a };

/* ---- common oracle pieces ------------------------------------------------------------ */

/* reset(fill) and its oracle: every octet of the region equals fill */
static bool
do_reset(struct inst *in, unsigned char fill)
{
    for (size_t i = 0; i < M.size; ++i)
        M.img[i] = (unsigned char)(fill ^ (1u + (i % 200u))); /* != fill everywhere */
    PersistentAccess rc;
    if (!run_op(in, OP_RESET, NULL, 0, 0, fill, &rc))
        return false;
    if (rc != PERSISTENT_ACCESS_SUCCESS) {
        FAIL("C10/reset-fills", "reset(%02x) returned %d on a fault-free medium", fill, (int)rc);
        return false;
    }
    for (size_t i = 0; i < M.size; ++i)
        if (M.img[i] != fill) {
            FAIL("C10/reset-fills", "octet %zu of the region is %02x after reset(%02x)", i,
                 M.img[i], fill);
            return false;
        }
    return true;
}

/* after a successful (partial) store: medium image, checksum, validate, fetch */
static bool
check_stored(struct inst *in, const struct cfg *c, const unsigned char *expect, int *orders)
{
    const size_t cs = cks_size(c->ck);
    mc_log_hex("  region", M.img, M.size);
    if (memcmp(M.img + cs, expect, c->N) != 0 && memcmp(M.img, expect, c->N) != 0) {
        FAIL("C10/store-writes-image",
             "data image on the medium differs from the stored image (neither behind nor in front of the checksum)");
        return false;
    }
    const uint32_t want = ref_checksum(c->ck, expect, c->N);
    const int o = region_interps(M.img, cs, c->N, c->ck, expect);
    interp_here &= o;
    if (orders)
        *orders = interp_here;
    if (o == 0) {
        FAIL("C10/checksum-on-medium",
             "checksum octets on the medium do not encode %s(data image) = %0*lx",
             CKNAME[c->ck], (int)(2 * cs), (unsigned long)want);
        return false;
    }
    if (interp_here == 0) {
        FAIL("C10/checksum-on-medium",
             "this store and an earlier one of the case agree on no placement/byte order of checksum and data image");
        return false;
    }
    PersistentAccess rc;
    if (!run_op(in, OP_VALIDATE, NULL, 0, 0, 0, &rc))
        return false;
    if (rc != PERSISTENT_ACCESS_SUCCESS) {
        FAIL("C10/validate-after-store", "validate returned %d after a successful store", (int)rc);
        return false;
    }
    unsigned char *dst = mc_exact(c->N);
    memset(dst, 0xee, c->N);
    bool ok = run_op(in, OP_FETCH, dst, 0, 0, 0, &rc);
    if (ok) {
        mc_log_hex("  fetched", dst, c->N);
        if (rc != PERSISTENT_ACCESS_SUCCESS) {
            FAIL("C10/fetch-returns-image", "fetch returned %d after a successful store", (int)rc);
            ok = false;
        } else if (memcmp(dst, expect, c->N) != 0) {
            FAIL("C10/fetch-returns-image", "fetch did not return the stored image");
            ok = false;
        }
    }
    free(dst);
    return ok;
}

/* An in-range store returned non-success on the fault-free medium.  The
 * statement only speaks about successful stores, so this is no violation: the
 * case ends in the class "store-refused".  What must not happen is that the
 * failed store changed the medium and the instance then validates although its
 * checksum octets do not cover its data octets (under the interpretations the
 * case established, all of them when there was no successful store yet). */
static void
store_refused(struct inst *in, const struct cfg *c, const unsigned char *before, const char *what,
              PersistentAccess rc)
{
    mc_log("  %s refused with %d on a fault-free medium", what, (int)rc);
    refused_here = true;
    if (memcmp(before, M.img, M.size) == 0)
        return;
    mc_log_hex("  region after the refused store", M.img, M.size);
    PersistentAccess v;
    if (!run_op(in, OP_VALIDATE, NULL, 0, 0, 0, &v))
        return;
    if (v == PERSISTENT_ACCESS_SUCCESS
        && (region_interps(M.img, cks_size(c->ck), c->N, c->ck, NULL) & interp_here) == 0)
        FAIL("C10/refused-store-validates-wrongly",
             "%s returned %d, changed the medium, and validate then succeeds although the checksum "
             "octets do not encode %s(data image on the medium)", what, (int)rc, CKNAME[c->ck]);
}

static bool
do_store(struct inst *in, const struct cfg *c, const unsigned char *image, int *orders)
{
    unsigned char *src = mc_exact_copy(image, c->N);
    unsigned char *before = mc_exact_copy(M.img, M.size);
    PersistentAccess rc;
    bool ok = run_op(in, OP_STORE, src, 0, 0, 0, &rc);
    free(src);
    if (ok && rc != PERSISTENT_ACCESS_SUCCESS) {
        store_refused(in, c, before, "store", rc);
        ok = false;
    }
    free(before);
    if (!ok)
        return false;
    return check_stored(in, c, image, orders);
}

/* outcome class of a successful partial store: how the configuration makes the
 * library chunk the read-back of the data image */
static const char *
part_outcome(const struct cfg *c)
{
    if (c->buf < 0)
        return "part-ok-octetwise";
    if ((size_t)c->buf >= c->N)
        return "part-ok-single-read";
    if (c->buf > 0 && c->N % (size_t)c->buf != 0)
        return "part-ok-uneven-chunks";
    return "part-ok-even-chunks";
}

/* ---- scenarios ------------------------------------------------------------------------ */

static void
begin_case(const struct cfg *c, struct inst *in)
{
    failed_here = hung_here = refused_here = false;
    interp_here = INTERP_ALL;
    medium_make(c);
    inst_make(in, c);
}

static void
end_case(struct inst *in, bool nontrivial, const char *outcome)
{
    inst_free(in);
    medium_free();
    mc_end(nontrivial && !failed_here && !refused_here,
           hung_here ? "hang" : failed_here ? "failed" : refused_here ? "store-refused" : outcome);
}

#define CFGFMT "N=%zu place=%lu ck=%s order=%s buf=%d"
#define CFGARG(c)                                                              \
    (c)->N, (unsigned long)cfg_place(c), CKNAME[(c)->ck],                      \
        (c)->order ? "sum-then-place" : "place-then-sum", (c)->buf

static void
scenario_roundtrip(const struct cfg *c)
{
    unsigned char image[NMAX];
    for (int im = 0; im < nimages(c->N); ++im) {
        const unsigned char fill = FILLS[im % 3];
        if (!mc_case(CFGFMT " A:reset(%02x),store(image%d),validate,fetch,all-partial-fetches",
                     CFGARG(c), fill, im))
            continue;
        struct inst in;
        begin_case(c, &in);
        make_image(image, c->N, im);
        const char *outcome = "roundtrip-ok";
        if (do_reset(&in, fill) && do_store(&in, c, image, NULL)) {
            bool ok = true;
            for (size_t off = 0; ok && off < c->N; ++off)
                for (size_t len = 1; ok && off + len <= c->N; ++len) {
                    unsigned char *dst = mc_exact(len);
                    memset(dst, 0xee, len);
                    PersistentAccess rc;
                    ok = run_op(&in, OP_FETCH_PART, dst, off, len, 0, &rc);
                    if (ok && rc != PERSISTENT_ACCESS_SUCCESS) {
                        FAIL("C10/fetch-part-returns-slice",
                             "fetch_part(%zu,%zu) inside the data size returned %d", off, len, (int)rc);
                        ok = false;
                    } else if (ok && memcmp(dst, image + off, len) != 0) {
                        FAIL("C10/fetch-part-returns-slice",
                             "fetch_part(%zu,%zu) did not return that slice of the stored image", off, len);
                        ok = false;
                    }
                    free(dst);
                }
        }
        end_case(&in, true, outcome);
    }
}

static void
scenario_part(const struct cfg *c)
{
    static const int SRC[3] = { 0, 1, 3 };
    unsigned char expect[NMAX], src_image[NMAX];
    for (int base = 0; base < 2; ++base)
        for (int si = 0; si < 3; ++si)
            for (size_t off = 0; off < c->N; ++off)
                for (size_t len = 1; off + len <= c->N; ++len) {
                    if (!mc_case(CFGFMT " B:%s,store_part(image%d,off=%zu,len=%zu),validate,fetch",
                                 CFGARG(c), base ? "reset(ee),store(image2)" : "reset(ee)", SRC[si],
                                 off, len))
                        continue;
                    struct inst in;
                    begin_case(c, &in);
                    const char *outcome = "part-ok";
                    bool ok = do_reset(&in, 0xee);
                    memset(expect, 0xee, c->N);
                    if (ok && base) {
                        make_image(expect, c->N, 2);
                        ok = do_store(&in, c, expect, NULL);
                    }
                    if (ok) {
                        make_image(src_image, c->N, SRC[si]);
                        /* the caller's buffer holds exactly the part */
                        unsigned char *src = mc_exact_copy(src_image + off, len);
                        unsigned char *before = mc_exact_copy(M.img, M.size);
                        memcpy(expect + off, src, len);
                        PersistentAccess rc;
                        ok = run_op(&in, OP_STORE_PART, src, off, len, 0, &rc);
                        free(src);
                        if (ok && rc != PERSISTENT_ACCESS_SUCCESS) {
                            store_refused(&in, c, before, "store_part", rc);
                            ok = false;
                        }
                        free(before);
                        if (ok && check_stored(&in, c, expect, NULL))
                            outcome = part_outcome(c);
                    }
                    end_case(&in, true, outcome);
                }
}

struct pair {
    size_t off, len;
    bool overflow;
};

static int
make_refused_pairs(size_t N, struct pair *p)
{
    int n = 0;
    for (size_t off = 0; off <= N; ++off)
        for (size_t over = 1; over <= 2; ++over)
            p[n++] = (struct pair){ off, N + over - off, false };
    for (size_t k = 0; k < 3; ++k)
        for (size_t j = 0; j < 3; ++j)
            p[n++] = (struct pair){ SIZE_MAX - k, k + 1 + j, true };
#if SIZE_MAX > 0xffffffffu
    /* offsets and lengths at and above 2^32 (and 2^31) whose low 32 bits describe
     * a part inside the data: refused, unless the arithmetic is done in a
     * narrower type than size_t */
    {
        const size_t W = (size_t)1 << 32, H = (size_t)1 << 31;
        p[n++] = (struct pair){ W, 1, false };
        p[n++] = (struct pair){ W + (N - 1), 1, false };
        p[n++] = (struct pair){ 0, W + 1, false };
        p[n++] = (struct pair){ 0, W + N, false };
        p[n++] = (struct pair){ W, W + 1, false };
        p[n++] = (struct pair){ H, H + 1, false };
        p[n++] = (struct pair){ 2 * W, 1, false };
        p[n++] = (struct pair){ W * 65536, 1, false };
    }
#endif
    return n;
}

static void
scenario_refuse(const struct cfg *c)
{
    struct pair pairs[2 * (NMAX + 1) + 9 + 8];
    const int np = make_refused_pairs(c->N, pairs);
    unsigned char image[NMAX];
    for (int which = 0; which < 2; ++which)
        for (int pi = 0; pi < np; ++pi) {
            const struct pair *p = &pairs[pi];
            if (p->overflow) {
                if (!mc_case(CFGFMT " C:reset(00),store(image2),%s(off=SIZE_MAX-%zu,len=%zu)",
                             CFGARG(c), which ? "fetch_part" : "store_part", SIZE_MAX - p->off, p->len))
                    continue;
            } else {
                if (!mc_case(CFGFMT " C:reset(00),store(image2),%s(off=%zu,len=%zu)", CFGARG(c),
                             which ? "fetch_part" : "store_part", p->off, p->len))
                    continue;
            }
            struct inst in;
            begin_case(c, &in);
            make_image(image, c->N, 2);
            if (do_reset(&in, 0x00) && do_store(&in, c, image, NULL)) {
                unsigned char *snap = mc_exact_copy(M.img, M.size);
                /* the caller's buffer: exact size, except for the absurd lengths
                 * (a correct library refuses those before touching it) */
                const size_t blen = p->len > 4096 ? 64 : p->len;
                unsigned char *buf = mc_exact(blen);
                memset(buf, 0x77, blen);
                PersistentAccess rc;
                if (run_op(&in, which ? OP_FETCH_PART : OP_STORE_PART, buf, p->off, p->len, 0, &rc)) {
                    if (rc == PERSISTENT_ACCESS_SUCCESS)
                        FAIL("C10/part-beyond-size-refused",
                             "%s with offset+len beyond the data size %zu returned success",
                             which ? "fetch_part" : "store_part", c->N);
                    else if (M.calls != 0)
                        FAIL("C10/refused-part-touches-medium",
                             "refused %s made %ld medium calls", which ? "fetch_part" : "store_part",
                             M.calls);
                    else if (memcmp(snap, M.img, M.size) != 0)
                        FAIL("C10/refused-part-touches-medium", "medium image changed");
                }
                free(buf);
                free(snap);
            }
            end_case(&in, true, p->overflow ? "refused-overflow" : "refused-range");
        }
}

static void
scenario_alter(const struct cfg *c)
{
    static const unsigned char MASKS[3] = { 0x01, 0x80, 0xff };
    static const int BASE[2] = { 2, 0 };
    unsigned char image[NMAX];
    const size_t region = cks_size(c->ck) + c->N;
    for (int bi = 0; bi < 2; ++bi)
        for (size_t pos = 0; pos < region; ++pos)
            for (int mi = 0; mi < 3; ++mi) {
                if (!mc_case(CFGFMT " D:reset(00),store(image%d),alter(region octet %zu ^= %02x),validate",
                             CFGARG(c), BASE[bi], pos, MASKS[mi]))
                    continue;
                struct inst in;
                begin_case(c, &in);
                make_image(image, c->N, BASE[bi]);
                const char *outcome = "alter-detected";
                int orders = 0;
                if (do_reset(&in, 0x00) && do_store(&in, c, image, &orders)) {
                    const size_t cs = cks_size(c->ck);
                    M.img[pos] ^= MASKS[mi];
                    /* no placement/byte order the store used makes the altered
                     * region consistent in itself */
                    const bool distinguishes =
                        (region_interps(M.img, cs, c->N, c->ck, NULL) & orders) == 0;
                    PersistentAccess rc;
                    if (run_op(&in, OP_VALIDATE, NULL, 0, 0, 0, &rc)) {
                        if (!distinguishes)
                            outcome = "alter-undetectable";
                        else if (rc != PERSISTENT_ACCESS_INVALID_DATA)
                            FAIL("C10/alteration-detected",
                                 "validate returned %d although %s distinguishes the altered region",
                                 (int)rc, CKNAME[c->ck]);
                    }
                }
                end_case(&in, true, outcome);
            }
}

/* ---- anchors ----------------------------------------------------------------------------- */

static void
anchors(void)
{
    /* CRC-16/ARC as named in doc/regp.txt section 4 (x^16+x^15+x^2+1, initial
     * value zero); catalogue check value for "123456789" */
    MC_ANCHOR(crc16_arc_step((const unsigned char *)"123456789", 9, 0) == 0xbb3d, "CRC-16/ARC check value");
    MC_ANCHOR(crc16_arc_step((const unsigned char *)"6789", 4,
                             crc16_arc_step((const unsigned char *)"12345", 5, 0)) == 0xbb3d,
              "CRC-16/ARC continues over chunks");
    /* trivial sum per its documentation: all octets summed into a uint16_t */
    unsigned char ff[258];
    memset(ff, 0xff, sizeof ff);
    MC_ANCHOR(ref_sum16(ff, 257) == 0xffffu, "sum16 of 257 x ff");
    MC_ANCHOR(ref_sum16(ff, 258) == 0x00feu, "sum16 wraps at 2^16");
    MC_ANCHOR(sum32_step(ff, 2, SUM32_INIT) == 0x01fcfefeu, "sum32 wraps at 2^32");
    /* result codes used by the unit test t-persistent-storage.c */
    MC_ANCHOR(PERSISTENT_ACCESS_SUCCESS == 0, "success code");
    MC_ANCHOR(PERSISTENT_ACCESS_INVALID_DATA != PERSISTENT_ACCESS_SUCCESS
                  && PERSISTENT_ACCESS_IO_ERROR != PERSISTENT_ACCESS_INVALID_DATA,
              "distinct result codes");
}

int
main(int argc, char **argv)
{
    mc_init(argc, argv);
    anchors();
    const size_t nmax = mc_thorough() ? 24 : 10;
    struct cfg c;
    /* thorough: 1..24 plus 32, the size of the unit test's struct cfg */
    for (size_t ni = 1; ni <= nmax + (mc_thorough() ? 1u : 0u); ++ni) {
        c.N = (ni <= nmax) ? ni : 32;
        for (c.place_i = 0; c.place_i < NPLACES; ++c.place_i)
            for (c.ck = 0; c.ck < CK_KINDS; ++c.ck)
                for (c.order = 0; c.order < (c.ck == CK_DEFAULT ? 1 : 2); ++c.order)
                    for (c.buf = -1; c.buf <= (int)c.N + 1; ++c.buf) {
                        scenario_roundtrip(&c);
                        scenario_part(&c);
                        scenario_refuse(&c);
                        scenario_alter(&c);
                    }
    }
    char bound[300];
    snprintf(bound, sizeof bound,
             "data sizes 1..%zu%s x placements {0,1,7,100,top-of-2^32} x {default sum16, CRC-16/ARC, sum32} "
             "x both configuration orders x auxiliary buffer {none, 0..N+1} x scenarios A-D complete",
             nmax, mc_thorough() ? " and 32" : "");
    mc_finish(true, bound);
    return 0;
}
