/*
 * C10 -- checksummed persistent storage: store / validate / fetch round-trips
 * and every medium access stays inside the instance's region.
 *
 * Shape: E-SPACE.  A case is (configuration, scenario, scenario parameters);
 * the numbering depends on nothing the implementation does.
 *
 *   configuration = data size N x placement x checksum {default trivial 16-bit
 *                   sum, CRC-16/ARC via persistent_sum16, weighted 32-bit sum
 *                   with non-zero initial value via persistent_sum32} x order
 *                   of persistent_place / persistent_sumNN x auxiliary buffer
 *                   {none, sizes 0..N+1}
 *   scenario A    = reset(fill) -> store(image) -> validate -> fetch -> every
 *                   partial fetch (offset,len)
 *   scenario B    = {reset | reset+store} -> store_part(offset,len) ->
 *                   validate -> fetch                (every offset+len <= N)
 *   scenario C    = store -> a part access reaching beyond the data size
 *                   (offset+len = N+1, N+2; arithmetic-overflow pairs
 *                   offset = SIZE_MAX-k, len = k+1+j) by store_part/fetch_part
 *   scenario D    = store -> alter one octet of the region -> validate
 *   scenario E    = images (and, for the two additive sums, initial values
 *                   handed to persistent_sum16/32) chosen such that the checksum
 *                   of the stored image is a special value (0, all-ones, 1, top
 *                   bit, all-ones in one half, ...): reset -> store -> validate
 *                   -> fetch -> store_part rewriting one octet (chunked
 *                   checksum) -> every single-bit alteration of one octet.  The
 *                   default trivial sum reaches 0xffff / wraps to 0 only with
 *                   257 / 258 octets of data: those two sizes are run for it.
 *   scenario L    = data sizes / buffer sizes / part offsets straddling 2^8 and
 *                   2^16 (255..257, 65535..65537 octets of data), compact
 *                   sequence as in H.
 *   scenario H    = configuration histories: the same PersistentStorage object
 *                   (memory pre-filled with 00 or a5) goes through persistent_init
 *                   followed by every sequence of up to L calls out of
 *                   {persistent_init, place(A), place(B), sum16(CRC), sum32};
 *                   the configuration in force is what the documented meaning of
 *                   these calls adds up to (last placement and last checksum
 *                   since the last init); a compact A/B/C/D sequence then runs
 *                   against the region of that configuration.
 *
 * Zero-length parts inside the data (offset 0..N, length 0) are part of
 * scenarios A (fetch_part) and B (store_part).  The statement does not say
 * whether storing zero octets is a partial store, so every one of these answers
 * is accepted (one class part-zero-length): (a) the library refuses it; (b) it
 * reports success and changed the medium (it took it for a store: then it is
 * held to the oracle of a successful partial store); (c) it reports success and
 * the medium image is exactly what it was before the call (it took it for
 * "nothing to do": nothing further is demanded, in particular not that an
 * instance that did not validate before validates now).  A zero-length medium
 * access touches no octet and is inside the region wherever its address is.
 *
 * The part accesses of scenario C with offsets/lengths that need more than 32
 * bits, and the values near the top of the range used for the arithmetic-
 * overflow pairs, are taken from the prototypes of persistent_store_part /
 * persistent_fetch_part as the harness is compiled (part_limits): an argument
 * that the parameter type cannot represent is not an input of the API and is
 * not generated.
 *
 * The medium is exactly the instance's region [place, place+cs+N) inside an
 * exact-size heap block.  The callbacks log every (address,length); an access
 * that is not completely inside the region is recorded, refused (returns 0)
 * and never touches memory.  A budget of medium calls per library operation
 * turns a livelock into a violation (the callback longjmps out).
 *
 * Reference side: the three checksum algorithms below are written from their
 * definitions (not from ufw's code), applied to the whole data image in one
 * go; the expected image is a plain array (previous image overlaid with the
 * part).
 *
 * What the statement leaves open is accepted: which of checksum and data image
 * comes first inside the region and the byte order of the checksum octets (an
 * "interpretation" of the region, see region_interps) - a violation is only
 * reported when no interpretation fits, and alteration detection is demanded
 * relative to the interpretation(s) the store of that case used.  An in-range
 * store that returns non-success on the fault-free medium is not a violation
 * either (the statement speaks about successful stores): outcome class
 * "store-refused", unless the instance then validates an image its checksum
 * does not cover.
 */
#include "mc.h"

#include <limits.h>
#include <setjmp.h>

#include <ufw/persistent-storage.h>

#define NMAX 40

/* ---- reference checksums ------------------------------------------------------ */

/* "sums up all bytes in the buffer into a uint16_t" */
static uint32_t
ref_sum16(const unsigned char *d, size_t n)
{
    uint32_t s = 0;
    for (size_t i = 0; i < n; ++i)
        s = (s + d[i]) % 65536u;
    return s;
}

/* CRC-16/ARC: polynomial x^16+x^15+x^2+1 (0x8005), reflected, init 0, no final
 * xor.  Bit-serial. */
static uint16_t
crc16_arc_step(const unsigned char *d, size_t n, uint16_t crc)
{
    for (size_t i = 0; i < n; ++i) {
        crc ^= d[i];
        for (int b = 0; b < 8; ++b)
            crc = (crc & 1u) ? (uint16_t)((crc >> 1) ^ 0xa001u) : (uint16_t)(crc >> 1);
    }
    return crc;
}

/* a 32-bit sum: every octet is added into both 16-bit halves, initial value
 * SUM32_INIT (non-zero, close to wrap-around so that carries happen) */
#define SUM32_INIT 0xfffefd00u
static uint32_t
sum32_step(const unsigned char *d, size_t n, uint32_t s)
{
    for (size_t i = 0; i < n; ++i)
        s += (uint32_t)d[i] * 0x00010001u;
    return s;
}

/* CK_SUM16I: the 16-bit octet sum handed to persistent_sum16 as a user algorithm
 * together with an initial value (scenario E only; the other kinds form the
 * configuration grid) */
enum { CK_DEFAULT, CK_CRC16, CK_SUM32, CK_SUM16I, CK_KINDS };
#define CK_GRID 3
static const char *const CKNAME[CK_KINDS] = { "default-sum16", "crc16-arc", "sum32", "user-sum16" };

/* initial value handed to persistent_sum16/32 for the additive user checksums of
 * the running case (set by begin_case from the configuration) */
static uint32_t cur_init = SUM32_INIT;

static size_t
cks_size(int ck)
{
    return ck == CK_SUM32 ? 4u : 2u;
}

static uint32_t
ref_checksum(int ck, const unsigned char *d, size_t n)
{
    switch (ck) {
    case CK_DEFAULT: return ref_sum16(d, n);
    case CK_CRC16: return crc16_arc_step(d, n, 0);
    case CK_SUM16I: return (ref_sum16(d, n) + (cur_init & 0xffffu)) % 65536u;
    default: return sum32_step(d, n, cur_init);
    }
}

/* Which byte orders of `value` do the cs octets at p show?  1 = little endian
 * (this host's native order), 2 = big endian.  The statement does not fix the
 * order; the harness demands consistency with the order the store used. */
static int
cks_orders(const unsigned char *p, size_t cs, uint32_t value)
{
    int m = 3;
    for (size_t i = 0; i < cs; ++i) {
        if (p[i] != (unsigned char)(value >> (8 * i)))
            m &= ~1;
        if (p[i] != (unsigned char)(value >> (8 * (cs - 1 - i))))
            m &= ~2;
    }
    return m;
}

/* Interpretations of a region image: where checksum and data image sit and in
 * which byte order the checksum octets are.  Bits 0/1: checksum first
 * ([0,cs) checksum, [cs,cs+N) data), little/big endian; bits 2/3: data first
 * ([0,N) data, [N,N+cs) checksum), little/big endian.  With `expect` the mask
 * of interpretations under which the region holds exactly (expect,
 * checksum(expect)); without, those under which the region is consistent in
 * itself (checksum octets = checksum of the data octets). */
#define INTERP_ALL 0xf
static int
region_interps(const unsigned char *img, size_t cs, size_t N, int ck, const unsigned char *expect)
{
    int m = 0;
    for (int lay = 0; lay < 2; ++lay) {
        const unsigned char *data = img + (lay ? 0 : cs);
        const unsigned char *sum = img + (lay ? N : 0);
        if (expect && memcmp(data, expect, N) != 0)
            continue;
        m |= cks_orders(sum, cs, ref_checksum(ck, data, N)) << (2 * lay);
    }
    return m;
}

/* ---- the medium ----------------------------------------------------------------- */

struct access {
    char rw;
    uint32_t addr;
    size_t len;
};

static struct {
    unsigned char *img; /* exact block: the region, checksum first */
    size_t size;        /* cs + N */
    uint64_t lo;        /* medium address of img[0] */
    long calls, budget;
    long reads, writes;
    size_t maxread;
    long outside;
    struct access first_outside;
    bool escaped;
    jmp_buf escape;
} M;

static bool
med_inside(uint32_t addr, size_t n)
{
    const uint64_t a = addr;
    if (n == 0)
        return true; /* touches no octet */
    return a >= M.lo && n <= M.size && (a - M.lo) <= (uint64_t)(M.size - n);
}

static void
med_account(char rw, uint32_t addr, size_t n)
{
    mc_log("    medium %s addr=%lu len=%zu", rw == 'r' ? "read " : "write",
           (unsigned long)addr, n);
    if (++M.calls > M.budget)
        longjmp(M.escape, 1);
    if (!med_inside(addr, n)) {
        if (M.outside++ == 0)
            M.first_outside = (struct access){ rw, addr, n };
    }
}

static size_t
med_read(void *dst, uint32_t addr, size_t n)
{
    med_account('r', addr, n);
    if (!med_inside(addr, n))
        return 0;
    M.reads++;
    if (n > M.maxread)
        M.maxread = n;
    if (n)
        memcpy(dst, M.img + ((uint64_t)addr - M.lo), n);
    return n;
}

static size_t
med_write(uint32_t addr, const void *src, size_t n)
{
    med_account('w', addr, n);
    if (!med_inside(addr, n))
        return 0;
    M.writes++;
    if (n)
        memcpy(M.img + ((uint64_t)addr - M.lo), src, n);
    return n;
}

/* checksum callbacks handed to the library */
static uint16_t
cb_crc16(const unsigned char *d, size_t n, uint16_t init)
{
    return crc16_arc_step(d, n, init);
}

static uint32_t
cb_sum32(const unsigned char *d, size_t n, uint32_t init)
{
    return sum32_step(d, n, init);
}

static uint16_t
cb_sum16(const unsigned char *d, size_t n, uint16_t init)
{
    return (uint16_t)((ref_sum16(d, n) + init) % 65536u);
}

/* ---- configuration --------------------------------------------------------------- */

#define PLACE_TOP 0xffffffffu /* marker: region ends exactly at 2^32 */
/* 0xfffd / 0x7ffffffd: the region straddles 2^16 / 2^31 */
static const uint32_t PLACES[] = { 0u, 1u, 7u, 100u, 0xfffdu, 0x7ffffffdu, PLACE_TOP };
#define NPLACES 7

/* A configuration history: the calls made on the object after the first
 * persistent_init.  I = persistent_init again, P = place(A), p = place(B),
 * c = sum16(CRC-16/ARC), s = sum32.  What is in force afterwards (reference,
 * from the documented meaning of the calls: init gives placement 0 and the
 * default sum, place/sumNN replace placement/checksum): */
enum { H_INIT, H_PLACE_A, H_PLACE_B, H_CRC16, H_SUM32, H_NOPS };
#define HLEN_MAX 5
struct hist {
    int len;
    unsigned char op[HLEN_MAX];
    int place_kind; /* 0: none since the last init (address 0), 1: A, 2: B */
    int ck;
    char name[2 * HLEN_MAX + 4];
};
static struct hist *HISTS;
static int NHISTS;

static void
hists_make(int maxlen)
{
    int total = 0, pw = 1;
    for (int l = 0; l <= maxlen; ++l, pw *= H_NOPS)
        total += pw;
    HISTS = calloc((size_t)total, sizeof *HISTS);
    if (!HISTS)
        mc_broken("out of memory");
    pw = 1;
    for (int l = 0; l <= maxlen; ++l, pw *= H_NOPS)
        for (int code = 0; code < pw; ++code) {
            struct hist *h = &HISTS[NHISTS++];
            h->len = l;
            h->place_kind = 0;
            h->ck = CK_DEFAULT;
            size_t k = 0;
            h->name[k++] = 'I';
            int x = code;
            for (int i = 0; i < l; ++i, x /= H_NOPS) {
                const int op = x % H_NOPS;
                h->op[i] = (unsigned char)op;
                h->name[k++] = '.';
                h->name[k++] = "IPpcs"[op];
                switch (op) {
                case H_INIT: h->place_kind = 0; h->ck = CK_DEFAULT; break;
                case H_PLACE_A: h->place_kind = 1; break;
                case H_PLACE_B: h->place_kind = 2; break;
                case H_CRC16: h->ck = CK_CRC16; break;
                default: h->ck = CK_SUM32; break;
                }
            }
            h->name[k] = 0;
        }
}

struct cfg {
    size_t N;
    int place_i;
    int ck;
    int order;     /* 0: place then sumNN; 1: sumNN then place (grid configurations) */
    int buf;       /* -1: no auxiliary buffer; otherwise its size */
    uint32_t init; /* initial value for CK_SUM32 / CK_SUM16I */
    const struct hist *h; /* NULL: grid configuration (init, place, sumNN in `order`) */
    int prefill;   /* history configurations: octet the object's memory holds before the first init */
};

struct inst {
    PersistentStorage s;
    unsigned char *aux;
};

static uint32_t
place_a(const struct cfg *c)
{
    if (PLACES[c->place_i] == PLACE_TOP)
        return (uint32_t)(0x100000000ull - (cks_size(c->ck) + c->N));
    return PLACES[c->place_i];
}

static uint32_t
place_b(const struct cfg *c)
{
    const uint32_t a = place_a(c);
    return a >= 16u ? a - 11u : a + 11u;
}

/* the placement in force */
static uint32_t
cfg_place(const struct cfg *c)
{
    if (c->h)
        return c->h->place_kind == 0 ? 0u : c->h->place_kind == 1 ? place_a(c) : place_b(c);
    return place_a(c);
}

static void
inst_sum(struct inst *in, const struct cfg *c)
{
    if (c->ck == CK_CRC16)
        persistent_sum16(&in->s, cb_crc16, 0u);
    else if (c->ck == CK_SUM32)
        persistent_sum32(&in->s, cb_sum32, c->init);
    else if (c->ck == CK_SUM16I)
        persistent_sum16(&in->s, cb_sum16, (uint16_t)c->init);
}

static void
inst_make(struct inst *in, const struct cfg *c)
{
    memset(in, 0, sizeof *in);
    if (c->h) {
        /* every init but the last one announces another data size */
        int inits_left = 0;
        for (int i = 0; i < c->h->len; ++i)
            inits_left += (c->h->op[i] == H_INIT);
        memset(&in->s, c->prefill, sizeof in->s);
        persistent_init(&in->s, inits_left ? c->N + 3u : c->N, med_read, med_write);
        for (int i = 0; i < c->h->len; ++i)
            switch (c->h->op[i]) {
            case H_INIT:
                --inits_left;
                persistent_init(&in->s, inits_left ? c->N + 3u : c->N, med_read, med_write);
                break;
            case H_PLACE_A: persistent_place(&in->s, place_a(c)); break;
            case H_PLACE_B: persistent_place(&in->s, place_b(c)); break;
            case H_CRC16: persistent_sum16(&in->s, cb_crc16, 0u); break;
            default: persistent_sum32(&in->s, cb_sum32, c->init); break;
            }
    } else {
        persistent_init(&in->s, c->N, med_read, med_write);
        if (c->order == 0) {
            persistent_place(&in->s, cfg_place(c));
            inst_sum(in, c);
        } else {
            inst_sum(in, c);
            persistent_place(&in->s, cfg_place(c));
        }
    }
    if (c->buf >= 0) {
        in->aux = mc_exact((size_t)c->buf);
        persistent_buffer(&in->s, in->aux, (size_t)c->buf);
    }
}

static void
inst_free(struct inst *in)
{
    free(in->aux);
    in->aux = NULL;
}

static void
medium_make(const struct cfg *c)
{
    M.size = cks_size(c->ck) + c->N;
    M.lo = cfg_place(c);
    M.img = mc_exact(M.size);
    memset(M.img, 0xcd, M.size);
}

static void
medium_free(void)
{
    free(M.img);
    M.img = NULL;
}

/* ---- guarded library calls -------------------------------------------------------- */

enum { OP_RESET, OP_STORE, OP_STORE_PART, OP_VALIDATE, OP_FETCH, OP_FETCH_PART };
static const char *const OPNAME[] = { "reset", "store", "store_part", "validate",
                                      "fetch", "fetch_part" };

struct call {
    int op;
    PersistentStorage *s;
    void *buf;
    size_t off, n;
    unsigned char fill;
    PersistentAccess rc;
};

static bool
call_guarded(struct call *c)
{
    if (setjmp(M.escape) != 0)
        return true;
    switch (c->op) {
    case OP_RESET: c->rc = persistent_reset(c->s, c->fill); break;
    case OP_STORE: c->rc = persistent_store(c->s, c->buf); break;
    case OP_STORE_PART: c->rc = persistent_store_part(c->s, c->buf, c->off, c->n); break;
    case OP_VALIDATE: c->rc = persistent_validate(c->s); break;
    case OP_FETCH: c->rc = persistent_fetch(c->buf, c->s); break;
    default: c->rc = persistent_fetch_part(c->buf, c->s, c->off, c->n); break;
    }
    return false;
}

static bool failed_here; /* some oracle sentence failed in the running case */
static bool hung_here;
static bool refused_here; /* an in-range store returned non-success: case ends "store-refused" */
static int interp_here;   /* interpretations every successful store of the case agreed with */

#define FAIL(...)                                                              \
    do {                                                                       \
        mc_fail(__VA_ARGS__);                                                  \
        failed_here = true;                                                    \
    } while (0)

/* Runs one library operation with a fresh access log.  Returns false when the
 * case cannot go on (livelock); reports accesses outside the region. */
static bool
run_op(struct inst *in, int op, void *buf, size_t off, size_t n, unsigned char fill,
       PersistentAccess *rc)
{
    struct call c = { op, &in->s, buf, off, n, fill, PERSISTENT_ACCESS_SUCCESS };
    M.calls = 0;
    M.reads = M.writes = 0;
    M.maxread = 0;
    M.outside = 0;
    M.budget = 8 * (long)M.size + 32;
    mc_log("  %s(off=%zu,n=%zu)", OPNAME[op], off, n);
    mc_trans(1);
    M.escaped = call_guarded(&c);
    if (M.escaped) {
        FAIL("C10/hang", "%s made more than %ld medium calls without returning",
             OPNAME[op], M.budget);
        hung_here = true;
        return false;
    }
    mc_log("  -> rc=%d", (int)c.rc);
    *rc = c.rc;
    if (M.outside)
        FAIL("C10/access-inside-region",
             "%s: %s of %zu octets at medium address %lu, region is [%llu,%llu)",
             OPNAME[op], M.first_outside.rw == 'r' ? "read" : "write",
             M.first_outside.len, (unsigned long)M.first_outside.addr,
             (unsigned long long)M.lo, (unsigned long long)(M.lo + M.size));
    return true;
}

/* ---- images ------------------------------------------------------------------------ */

/* image family of size N: 0 zeros, 1 ff.., 2 ramp, 3 second ramp, 4+p one-hot at p */
static int
nimages(size_t N)
{
    return 4 + (int)N;
}

static void
make_image(unsigned char *d, size_t N, int which)
{
    for (size_t i = 0; i < N; ++i) {
        switch (which) {
        case 0: d[i] = 0x00; break;
        case 1: d[i] = 0xff; break;
        case 2: d[i] = (unsigned char)(0x11 + 0x1d * i); break;
        case 3: d[i] = (unsigned char)(0xe3 - 0x35 * i); break;
        default: d[i] = ((size_t)(which - 4) == i) ? (unsigned char)(0x80 | i) : 0x00; break;
        }
    }
}

static const unsigned char FILLS[3] = { 0x00, 0xff, 0x5a };

/* ---- common oracle pieces ------------------------------------------------------------ */

/* reset(fill) and its oracle: every octet of the region equals fill */
static bool
do_reset(struct inst *in, unsigned char fill)
{
    for (size_t i = 0; i < M.size; ++i)
        M.img[i] = (unsigned char)(fill ^ (1u + (i % 200u))); /* != fill everywhere */
    PersistentAccess rc;
    if (!run_op(in, OP_RESET, NULL, 0, 0, fill, &rc))
        return false;
    if (rc != PERSISTENT_ACCESS_SUCCESS) {
        FAIL("C10/reset-fills", "reset(%02x) returned %d on a fault-free medium", fill, (int)rc);
        return false;
    }
    for (size_t i = 0; i < M.size; ++i)
        if (M.img[i] != fill) {
            FAIL("C10/reset-fills", "octet %zu of the region is %02x after reset(%02x)", i,
                 M.img[i], fill);
            return false;
        }
    return true;
}

/* after a successful (partial) store: medium image, checksum, validate, fetch */
static bool
check_stored(struct inst *in, const struct cfg *c, const unsigned char *expect, int *orders)
{
    const size_t cs = cks_size(c->ck);
    mc_log_hex("  region", M.img, M.size);
    if (memcmp(M.img + cs, expect, c->N) != 0 && memcmp(M.img, expect, c->N) != 0) {
        FAIL("C10/store-writes-image",
             "data image on the medium differs from the stored image (neither behind nor in front of the checksum)");
        return false;
    }
    const uint32_t want = ref_checksum(c->ck, expect, c->N);
    const int o = region_interps(M.img, cs, c->N, c->ck, expect);
    interp_here &= o;
    if (orders)
        *orders = interp_here;
    if (o == 0) {
        FAIL("C10/checksum-on-medium",
             "checksum octets on the medium do not encode %s(data image) = %0*lx",
             CKNAME[c->ck], (int)(2 * cs), (unsigned long)want);
        return false;
    }
    if (interp_here == 0) {
        FAIL("C10/checksum-on-medium",
             "this store and an earlier one of the case agree on no placement/byte order of checksum and data image");
        return false;
    }
    PersistentAccess rc;
    if (!run_op(in, OP_VALIDATE, NULL, 0, 0, 0, &rc))
        return false;
    if (rc != PERSISTENT_ACCESS_SUCCESS) {
        FAIL("C10/validate-after-store", "validate returned %d after a successful store", (int)rc);
        return false;
    }
    unsigned char *dst = mc_exact(c->N);
    memset(dst, 0xee, c->N);
    bool ok = run_op(in, OP_FETCH, dst, 0, 0, 0, &rc);
    if (ok) {
        mc_log_hex("  fetched", dst, c->N);
        if (rc != PERSISTENT_ACCESS_SUCCESS) {
            FAIL("C10/fetch-returns-image", "fetch returned %d after a successful store", (int)rc);
            ok = false;
        } else if (memcmp(dst, expect, c->N) != 0) {
            FAIL("C10/fetch-returns-image", "fetch did not return the stored image");
            ok = false;
        }
    }
    free(dst);
    return ok;
}

/* An in-range store returned non-success on the fault-free medium.  The
 * statement only speaks about successful stores, so this is no violation: the
 * case ends in the class "store-refused".  What must not happen is that the
 * failed store changed the medium and the instance then validates although its
 * checksum octets do not cover its data octets (under the interpretations the
 * case established, all of them when there was no successful store yet). */
static void
store_refused(struct inst *in, const struct cfg *c, const unsigned char *before, const char *what,
              PersistentAccess rc)
{
    mc_log("  %s refused with %d on a fault-free medium", what, (int)rc);
    refused_here = true;
    if (memcmp(before, M.img, M.size) == 0)
        return;
    mc_log_hex("  region after the refused store", M.img, M.size);
    PersistentAccess v;
    if (!run_op(in, OP_VALIDATE, NULL, 0, 0, 0, &v))
        return;
    if (v == PERSISTENT_ACCESS_SUCCESS
        && (region_interps(M.img, cks_size(c->ck), c->N, c->ck, NULL) & interp_here) == 0)
        FAIL("C10/refused-store-validates-wrongly",
             "%s returned %d, changed the medium, and validate then succeeds although the checksum "
             "octets do not encode %s(data image on the medium)", what, (int)rc, CKNAME[c->ck]);
}

static bool
do_store(struct inst *in, const struct cfg *c, const unsigned char *image, int *orders)
{
    unsigned char *src = mc_exact_copy(image, c->N);
    unsigned char *before = mc_exact_copy(M.img, M.size);
    PersistentAccess rc;
    bool ok = run_op(in, OP_STORE, src, 0, 0, 0, &rc);
    free(src);
    if (ok && rc != PERSISTENT_ACCESS_SUCCESS) {
        store_refused(in, c, before, "store", rc);
        ok = false;
    }
    free(before);
    if (!ok)
        return false;
    return check_stored(in, c, image, orders);
}

/* outcome class of a successful partial store: how the configuration makes the
 * library chunk the read-back of the data image */
static const char *
part_outcome(const struct cfg *c)
{
    if (c->buf < 0)
        return "part-ok-octetwise";
    if ((size_t)c->buf >= c->N)
        return "part-ok-single-read";
    if (c->buf > 0 && c->N % (size_t)c->buf != 0)
        return "part-ok-uneven-chunks";
    return "part-ok-even-chunks";
}

/* ---- scenarios ------------------------------------------------------------------------ */

static void
begin_case(const struct cfg *c, struct inst *in)
{
    failed_here = hung_here = refused_here = false;
    interp_here = INTERP_ALL;
    cur_init = c->init;
    medium_make(c);
    inst_make(in, c);
}

static void
end_case(struct inst *in, bool nontrivial, const char *outcome)
{
    inst_free(in);
    medium_free();
    mc_end(nontrivial && !failed_here && !refused_here,
           hung_here ? "hang" : failed_here ? "failed" : refused_here ? "store-refused" : outcome);
}

#define CFGFMT "N=%zu place=%lu ck=%s order=%s buf=%d"
#define CFGARG(c)                                                              \
    (c)->N, (unsigned long)cfg_place(c), CKNAME[(c)->ck], cfg_order(c), (c)->buf

/* how the configuration was arrived at: the two grid orders, or the history
 * (with the prefill octet and the two addresses place(A)/place(B) used) */
static const char *
cfg_order(const struct cfg *c)
{
    static char b[96];
    if (!c->h)
        return c->order ? "sum-then-place" : "place-then-sum";
    snprintf(b, sizeof b, "history(prefill=%02x,A=%lu,B=%lu):%s", (unsigned)c->prefill,
             (unsigned long)place_a(c), (unsigned long)place_b(c), c->h->name);
    return b;
}

static void
scenario_roundtrip(const struct cfg *c)
{
    unsigned char image[NMAX];
    for (int im = 0; im < nimages(c->N); ++im) {
        const unsigned char fill = FILLS[im % 3];
        if (!mc_case(CFGFMT " A:reset(%02x),store(image%d),validate,fetch,all-partial-fetches",
                     CFGARG(c), fill, im))
            continue;
        struct inst in;
        begin_case(c, &in);
        make_image(image, c->N, im);
        const char *outcome = "roundtrip-ok";
        if (do_reset(&in, fill) && do_store(&in, c, image, NULL)) {
            bool ok = true;
            /* zero-length parts inside the data: nothing is demanded of the result
             * (the statement neither promises nor forbids them); region, call
             * budget and memory safety are observed */
            for (size_t off = 0; ok && off <= c->N; ++off) {
                unsigned char *dst = mc_exact(0);
                PersistentAccess rc;
                ok = run_op(&in, OP_FETCH_PART, dst, off, 0, 0, &rc);
                free(dst);
            }
            for (size_t off = 0; ok && off < c->N; ++off)
                for (size_t len = 1; ok && off + len <= c->N; ++len) {
                    unsigned char *dst = mc_exact(len);
                    memset(dst, 0xee, len);
                    PersistentAccess rc;
                    ok = run_op(&in, OP_FETCH_PART, dst, off, len, 0, &rc);
                    if (ok && rc != PERSISTENT_ACCESS_SUCCESS) {
                        FAIL("C10/fetch-part-returns-slice",
                             "fetch_part(%zu,%zu) inside the data size returned %d", off, len, (int)rc);
                        ok = false;
                    } else if (ok && memcmp(dst, image + off, len) != 0) {
                        FAIL("C10/fetch-part-returns-slice",
                             "fetch_part(%zu,%zu) did not return that slice of the stored image", off, len);
                        ok = false;
                    }
                    free(dst);
                }
        }
        end_case(&in, true, outcome);
    }
}

static void
scenario_part(const struct cfg *c)
{
    /* source images; -1: the octets the medium already holds at that place (only
     * over the reset medium, where the instance does not validate yet: a store
     * that changes no data octet still has to leave a validating instance) */
    static const int SRC[4] = { 0, 1, 3, -1 };
    unsigned char expect[NMAX], src_image[NMAX];
    for (int base = 0; base < 2; ++base)
        for (int si = 0; si < (base ? 3 : 4); ++si)
            for (size_t off = 0; off <= c->N; ++off)
                for (size_t len = 0; off + len <= c->N; ++len) {
                    static const char *const SRCNAME[4] = { "image0", "image1", "image3",
                                                            "what-the-medium-holds" };
                    if (!mc_case(CFGFMT " B:%s,store_part(%s,off=%zu,len=%zu),validate,fetch",
                                 CFGARG(c), base ? "reset(ee),store(image2)" : "reset(ee)", SRCNAME[si],
                                 off, len))
                        continue;
                    struct inst in;
                    begin_case(c, &in);
                    const char *outcome = "part-ok";
                    bool ok = do_reset(&in, 0xee);
                    memset(expect, 0xee, c->N);
                    if (ok && base) {
                        make_image(expect, c->N, 2);
                        ok = do_store(&in, c, expect, NULL);
                    }
                    if (ok) {
                        if (SRC[si] < 0)
                            memcpy(src_image, expect, c->N);
                        else
                            make_image(src_image, c->N, SRC[si]);
                        /* the caller's buffer holds exactly the part */
                        unsigned char *src = mc_exact_copy(src_image + off, len);
                        unsigned char *before = mc_exact_copy(M.img, M.size);
                        memcpy(expect + off, src, len);
                        PersistentAccess rc;
                        ok = run_op(&in, OP_STORE_PART, src, off, len, 0, &rc);
                        free(src);
                        bool noop0 = false;
                        if (ok && rc != PERSISTENT_ACCESS_SUCCESS) {
                            store_refused(&in, c, before, "store_part", rc);
                            ok = false;
                        } else if (ok && len == 0 && memcmp(before, M.img, M.size) == 0) {
                            /* success, and the medium image is what it was: the library
                             * took "store zero octets" for "nothing to do".  Admitted
                             * (the statement does not call that a partial store);
                             * nothing further is demanded. */
                            mc_log("  zero-length store_part: success, medium unchanged (%ld writes)", M.writes);
                            noop0 = true;
                        }
                        free(before);
                        if (ok && !noop0 && check_stored(&in, c, expect, NULL))
                            outcome = part_outcome(c);
                    }
                    if (len == 0 && !failed_here && !hung_here) {
                        /* refused, accepted as a store (and then held to the oracle
                         * above) or accepted as a no-op: all admitted, one class */
                        const bool refused = refused_here;
                        refused_here = false;
                        end_case(&in, !refused, "part-zero-length");
                        continue;
                    }
                    end_case(&in, true, outcome);
                }
}

struct pair {
    unsigned long long off, len;
    bool overflow;
    unsigned k; /* overflow pairs: off = (largest offset the API takes) - k */
};

/* Largest value the (offset, length) parameters of a part access can take, from
 * the prototype the harness is compiled against.  The documented API takes
 * size_t for both; a library whose prototype is narrower (say uint32_t) simply
 * has no arguments at or above 2^32, and "the largest offset" is that type's
 * maximum.  A parameter type not listed here (a signed one, say) is credited
 * with 15 bits only, which every integer type wider than char holds. */
struct part_limits {
    unsigned long long offmax, lenmax;
};
#define PART_TYPES(X)                                                                             \
    X(unsigned short, USHRT_MAX) X(unsigned int, UINT_MAX) X(unsigned long, ULONG_MAX)             \
    X(unsigned long long, ULLONG_MAX)
#define STORE_SIG(TO, TL) PersistentAccess (*)(PersistentStorage *, const void *, TO, TL)
#define FETCH_SIG(TO, TL) PersistentAccess (*)(void *, PersistentStorage *, TO, TL)
#define OFF_ROW(SIG, TO, MO)                                                                      \
    SIG(TO, unsigned short): MO, SIG(TO, unsigned int): MO, SIG(TO, unsigned long): MO,            \
    SIG(TO, unsigned long long): MO,
#define LEN_ROW(SIG, TL, ML)                                                                      \
    SIG(unsigned short, TL): ML, SIG(unsigned int, TL): ML, SIG(unsigned long, TL): ML,            \
    SIG(unsigned long long, TL): ML,
#define STORE_OFF(T, MAXV) OFF_ROW(STORE_SIG, T, MAXV)
#define STORE_LEN(T, MAXV) LEN_ROW(STORE_SIG, T, MAXV)
#define FETCH_OFF(T, MAXV) OFF_ROW(FETCH_SIG, T, MAXV)
#define FETCH_LEN(T, MAXV) LEN_ROW(FETCH_SIG, T, MAXV)
#define PART_UNKNOWN 0x7fffull

static struct part_limits
part_limits(int which /* 0 store_part, 1 fetch_part */)
{
    struct part_limits l;
    if (which == 0) {
        l.offmax = _Generic(&persistent_store_part, PART_TYPES(STORE_OFF) default: PART_UNKNOWN);
        l.lenmax = _Generic(&persistent_store_part, PART_TYPES(STORE_LEN) default: PART_UNKNOWN);
    } else {
        l.offmax = _Generic(&persistent_fetch_part, PART_TYPES(FETCH_OFF) default: PART_UNKNOWN);
        l.lenmax = _Generic(&persistent_fetch_part, PART_TYPES(FETCH_LEN) default: PART_UNKNOWN);
    }
    return l;
}

static int
make_refused_pairs(size_t N, struct pair *p, struct part_limits lim)
{
    int n = 0;
    for (size_t off = 0; off <= N; ++off)
        for (size_t over = 1; over <= 2; ++over)
            p[n++] = (struct pair){ off, N + over - off, false, 0 };
    /* offset + length overflows the offset's type */
    for (unsigned k = 0; k < 3; ++k)
        for (unsigned j = 0; j < 3; ++j)
            p[n++] = (struct pair){ lim.offmax - k, k + 1 + j, true, k };
    /* the mirror image: an offset inside the data and a length at the top of the
     * length's type; where both parameters have the same width the sum wraps to
     * offset - 1 - k, an offset inside the data again.  Every such part reaches
     * beyond the data size whatever the widths are. */
    for (size_t off = 0; off <= N; ++off)
        for (unsigned k = 0; k < 3; ++k)
            p[n++] = (struct pair){ off, lim.lenmax - k, false, 0 };
    /* offsets and lengths at and above 2^32 (and 2^31) whose low 32 bits describe
     * a part inside the data: refused, unless the arithmetic is done in a
     * narrower type than the parameters have.  Only those the prototype can be
     * handed. */
    {
        const unsigned long long W = 1ull << 32, H = 1ull << 31;
        const struct pair wide[8] = {
            { W, 1, false, 0 },     { W + (N - 1), 1, false, 0 }, { 0, W + 1, false, 0 },
            { 0, W + N, false, 0 }, { W, W + 1, false, 0 },       { H, H + 1, false, 0 },
            { 2 * W, 1, false, 0 }, { W * 65536, 1, false, 0 },
        };
        for (int i = 0; i < 8; ++i)
            if (wide[i].off <= lim.offmax && wide[i].len <= lim.lenmax)
                p[n++] = wide[i];
    }
    return n;
}

static const char *
limit_name(unsigned long long v)
{
    return v == ULLONG_MAX ? "2^64-1" : v == 0xffffffffull ? "2^32-1" : v == 0xffffull ? "2^16-1"
           : v == PART_UNKNOWN ? "2^15-1" : "max";
}

static void
scenario_refuse(const struct cfg *c)
{
    struct pair pairs[2 * (NMAX + 1) + 9 + 3 * (NMAX + 1) + 8];
    unsigned char image[NMAX];
    for (int which = 0; which < 2; ++which) {
        const struct part_limits lim = part_limits(which);
        const int np = make_refused_pairs(c->N, pairs, lim);
        for (int pi = 0; pi < np; ++pi) {
            const struct pair *p = &pairs[pi];
            if (p->overflow) {
                if (!mc_case(CFGFMT " C:reset(00),store(image2),%s(off=%s-%u,len=%llu)",
                             CFGARG(c), which ? "fetch_part" : "store_part",
                             lim.offmax == SIZE_MAX ? "SIZE_MAX" : limit_name(lim.offmax), p->k, p->len))
                    continue;
            } else {
                if (!mc_case(CFGFMT " C:reset(00),store(image2),%s(off=%llu,len=%llu)", CFGARG(c),
                             which ? "fetch_part" : "store_part", p->off, p->len))
                    continue;
            }
            struct inst in;
            begin_case(c, &in);
            make_image(image, c->N, 2);
            if (do_reset(&in, 0x00) && do_store(&in, c, image, NULL)) {
                unsigned char *snap = mc_exact_copy(M.img, M.size);
                /* the caller's buffer: exact size, except for the absurd lengths
                 * (a correct library refuses those before touching it) */
                const size_t blen = p->len > 4096 ? 64 : (size_t)p->len;
                unsigned char *buf = mc_exact(blen);
                memset(buf, 0x77, blen);
                PersistentAccess rc;
                if (run_op(&in, which ? OP_FETCH_PART : OP_STORE_PART, buf, (size_t)p->off, (size_t)p->len, 0,
                           &rc)) {
                    if (rc == PERSISTENT_ACCESS_SUCCESS)
                        FAIL("C10/part-beyond-size-refused",
                             "%s with offset+len beyond the data size %zu returned success",
                             which ? "fetch_part" : "store_part", c->N);
                    else if (M.calls != 0)
                        FAIL("C10/refused-part-touches-medium",
                             "refused %s made %ld medium calls", which ? "fetch_part" : "store_part",
                             M.calls);
                    else if (memcmp(snap, M.img, M.size) != 0)
                        FAIL("C10/refused-part-touches-medium", "medium image changed");
                }
                free(buf);
                free(snap);
            }
            end_case(&in, true, p->overflow ? "refused-overflow" : "refused-range");
        }
    }
}

static void
scenario_alter(const struct cfg *c)
{
    static const unsigned char MASKS[3] = { 0x01, 0x80, 0xff };
    static const int BASE[2] = { 2, 0 };
    unsigned char image[NMAX];
    const size_t region = cks_size(c->ck) + c->N;
    for (int bi = 0; bi < 2; ++bi)
        for (size_t pos = 0; pos < region; ++pos)
            for (int mi = 0; mi < 3; ++mi) {
                if (!mc_case(CFGFMT " D:reset(00),store(image%d),alter(region octet %zu ^= %02x),validate",
                             CFGARG(c), BASE[bi], pos, MASKS[mi]))
                    continue;
                struct inst in;
                begin_case(c, &in);
                make_image(image, c->N, BASE[bi]);
                const char *outcome = "alter-detected";
                int orders = 0;
                if (do_reset(&in, 0x00) && do_store(&in, c, image, &orders)) {
                    const size_t cs = cks_size(c->ck);
                    M.img[pos] ^= MASKS[mi];
                    /* no placement/byte order the store used makes the altered
                     * region consistent in itself */
                    const bool distinguishes =
                        (region_interps(M.img, cs, c->N, c->ck, NULL) & orders) == 0;
                    PersistentAccess rc;
                    if (run_op(&in, OP_VALIDATE, NULL, 0, 0, 0, &rc)) {
                        if (!distinguishes)
                            outcome = "alter-undetectable";
                        else if (rc != PERSISTENT_ACCESS_INVALID_DATA)
                            FAIL("C10/alteration-detected",
                                 "validate returned %d although %s distinguishes the altered region",
                                 (int)rc, CKNAME[c->ck]);
                    }
                }
                end_case(&in, true, outcome);
            }
}

/* ---- scenario E: special checksum values ------------------------------------------------ */

#define NTARGETS 8
static const uint32_t TARGET16[NTARGETS] = { 0x0000u, 0xffffu, 0x0001u, 0x8000u,
                                             0x00ffu, 0xff00u, 0xfffeu, 0x7fffu };
static const uint32_t TARGET32[NTARGETS] = { 0x00000000u, 0xffffffffu, 0x00000001u, 0x80000000u,
                                             0x0000ffffu, 0xffff0000u, 0xfffffffeu, 0x7fffffffu };
#define EMAX 320

/* CRC-16/ARC: the register after two more octets b0,b1 is T16(reg ^ (b0 | b1<<8))
 * with T16 = "two zero octets", a bijection; its inverse as a table */
static uint16_t *crc_inv16;

static void
crc_solve_tail(unsigned char *d, size_t N, uint16_t target)
{
    static const unsigned char zz[2] = { 0, 0 };
    if (!crc_inv16) {
        crc_inv16 = malloc(65536 * sizeof *crc_inv16);
        if (!crc_inv16)
            mc_broken("out of memory");
        for (uint32_t x = 0; x < 65536u; ++x)
            crc_inv16[crc16_arc_step(zz, 2, (uint16_t)x)] = (uint16_t)x;
    }
    const uint16_t reg = crc16_arc_step(d, N - 2, 0);
    const uint16_t w = (uint16_t)(reg ^ crc_inv16[target]);
    d[N - 2] = (unsigned char)(w & 0xffu);
    d[N - 1] = (unsigned char)(w >> 8);
}

/* Builds the image and the initial value of the case; false when the kind
 * cannot reach the target at this size (CRC with one octet of data). */
static bool
special_make(struct cfg *c, unsigned char *image, int im, int ti)
{
    make_image(image, c->N, im);
    c->init = 0;
    switch (c->ck) {
    case CK_CRC16:
        if (c->N < 2)
            return false;
        crc_solve_tail(image, c->N, (uint16_t)TARGET16[ti]);
        break;
    case CK_SUM16I:
        c->init = (TARGET16[ti] + 65536u - ref_sum16(image, c->N)) % 65536u;
        break;
    default:
        c->init = TARGET32[ti] - sum32_step(image, c->N, 0u);
        break;
    }
    cur_init = c->init;
    MC_ANCHOR(ref_checksum(c->ck, image, c->N) == (c->ck == CK_SUM32 ? TARGET32[ti] : TARGET16[ti]),
              "special image has the special checksum");
    return true;
}

/* reset -> store(image) -> store_part rewriting the last octet with itself (the
 * checksum is then recomputed from the medium in chunks) -> validate, fetch ->
 * every single-bit alteration of region octet `pos` */
static void
special_run(const struct cfg *c, const unsigned char *image, unsigned char fill, size_t pos,
            const char *outcome)
{
    struct inst in;
    begin_case(c, &in);
    int orders = 0;
    bool ok = do_reset(&in, fill) && do_store(&in, c, image, &orders);
    if (ok) {
        unsigned char *src = mc_exact_copy(image + c->N - 1, 1);
        unsigned char *before = mc_exact_copy(M.img, M.size);
        PersistentAccess rc;
        ok = run_op(&in, OP_STORE_PART, src, c->N - 1, 1, 0, &rc);
        free(src);
        if (ok && rc != PERSISTENT_ACCESS_SUCCESS) {
            store_refused(&in, c, before, "store_part", rc);
            ok = false;
        }
        free(before);
        ok = ok && check_stored(&in, c, image, &orders);
    }
    const size_t cs = cks_size(c->ck);
    for (int bit = 0; ok && bit < 8; ++bit) {
        M.img[pos] ^= (unsigned char)(1u << bit);
        const bool distinguishes = (region_interps(M.img, cs, c->N, c->ck, NULL) & orders) == 0;
        PersistentAccess rc;
        ok = run_op(&in, OP_VALIDATE, NULL, 0, 0, 0, &rc);
        if (ok && distinguishes && rc != PERSISTENT_ACCESS_INVALID_DATA) {
            FAIL("C10/alteration-detected",
                 "validate returned %d although %s distinguishes the region with bit %d of octet %zu flipped",
                 (int)rc, CKNAME[c->ck], bit, pos);
            ok = false;
        }
        M.img[pos] ^= (unsigned char)(1u << bit);
    }
    end_case(&in, true, outcome);
}

static const char *
special_outcome(int ti)
{
    return ti == 0 ? "special-sum-zero" : ti == 1 ? "special-sum-all-ones" : "special-sum-other";
}

static void
scenario_special(const struct cfg *grid)
{
    static const int KINDS[3] = { CK_CRC16, CK_SUM16I, CK_SUM32 };
    unsigned char image[EMAX];
    for (int ki = 0; ki < 3; ++ki)
        for (int im = 2; im <= 3; ++im)
            for (int ti = 0; ti < NTARGETS; ++ti) {
                struct cfg c = *grid;
                c.ck = KINDS[ki];
                c.order = (ti + im) & 1;
                if (!mc_would_run()) {
                    mc_skip_case();
                    continue;
                }
                const bool can = special_make(&c, image, im, ti);
                const uint32_t target = c.ck == CK_SUM32 ? TARGET32[ti] : TARGET16[ti];
                if (!mc_case(CFGFMT " init=%08lx E:checksum(image)=%0*lx: image%d%s,reset,store,"
                             "store_part(last octet),validate,fetch,single-bit alterations",
                             CFGARG(&c), (unsigned long)c.init, (int)(2 * cks_size(c.ck)),
                             (unsigned long)target, im, c.ck == CK_CRC16 ? " with solved tail" : ""))
                    continue;
                if (!can) {
                    mc_end(false, "special-unreachable");
                    continue;
                }
                special_run(&c, image, FILLS[ti % 3], (size_t)(ti + im) % (cks_size(c.ck) + c.N),
                            special_outcome(ti));
            }
}

/* the default trivial sum: 257 x ff sums to ffff, one more octet 01 wraps it to 0 */
static void
scenario_special_default(void)
{
    static const int BUFS[] = { -1, 1, 7, 255, 256, 257, 258, 259, 300 };
    static const int PL[] = { 0, 4, 6 }; /* indices into PLACES: 0, fffd, top */
    unsigned char image[EMAX];
    for (int v = 0; v < 3; ++v)
        for (size_t pi = 0; pi < sizeof PL / sizeof PL[0]; ++pi)
            for (size_t bi = 0; bi < sizeof BUFS / sizeof BUFS[0]; ++bi) {
                struct cfg c;
                memset(&c, 0, sizeof c);
                c.N = v == 0 ? 257 : 258;
                c.place_i = PL[pi];
                c.ck = CK_DEFAULT;
                c.buf = BUFS[bi];
                c.init = SUM32_INIT;
                if (!mc_case(CFGFMT " E:default sum of %s = %s: reset,store,store_part(last octet),"
                             "validate,fetch,single-bit alterations", CFGARG(&c),
                             v == 0 ? "257 x ff" : v == 1 ? "257 x ff, 01" : "257 x ff, 00",
                             v == 1 ? "0000 (wrapped)" : "ffff"))
                    continue;
                memset(image, 0xff, 257);
                image[257] = v == 1 ? 0x01 : 0x00;
                MC_ANCHOR(ref_sum16(image, c.N) == (v == 1 ? 0x0000u : 0xffffu), "special default-sum image");
                special_run(&c, image, FILLS[v], (bi * 37u) % (2u + c.N), special_outcome(v == 1 ? 0 : 1));
            }
}

/* ---- scenario H: configuration histories ------------------------------------------------- */

/* one compact reset/store/fetch_part/store_part/validate/fetch/refused-part/
 * alteration sequence; v selects image, fill value and the part */
static void
compact_cases(const struct cfg *c, int vfirst, int vstep, const char *outcome_ok)
{
    static const int IM[4] = { 2, 1, 3, 0 };
    unsigned char *image = mc_exact(c->N), *other = mc_exact(c->N), *expect = mc_exact(c->N);
    for (int v = vfirst; v < 4; v += vstep) {
        const size_t off = v == 0 ? 0 : v == 1 ? c->N - 1 : v == 2 ? 0 : c->N / 2;
        const size_t len = v < 2 ? 1 : v == 2 ? c->N : c->N - c->N / 2;
        if (!mc_case(CFGFMT " %s:reset(%02x),store(image%d),fetch_part(%zu,%zu),store_part(image%d,%zu,%zu),"
                     "validate,fetch,store_part(%zu,1),alter(last region octet ^= 80),validate",
                     CFGARG(c), c->h ? "H" : "L", FILLS[v % 3], IM[v], off, len, IM[v] == 3 ? 2 : 3, off, len, c->N))
            continue;
        struct inst in;
        begin_case(c, &in);
        make_image(image, c->N, IM[v]);
        make_image(other, c->N, IM[v] == 3 ? 2 : 3);
        int orders = 0;
        bool ok = do_reset(&in, FILLS[v % 3]) && do_store(&in, c, image, &orders);
        PersistentAccess rc;
        /* audit 6: a part step is an input of the API only if the parameter types
         * of the prototype compiled against can hold its offset and length (with
         * 16-bit parameters 65536 would arrive as 0): such a step is left out, the
         * rest of the sequence runs */
        const struct part_limits pls = part_limits(0), plf = part_limits(1);
        const bool fetch_rep = off <= plf.offmax && len <= plf.lenmax;
        const bool store_rep = off <= pls.offmax && len <= pls.lenmax;
        const bool probe_rep = c->N <= pls.offmax && 1 <= pls.lenmax;
        if (!fetch_rep || !store_rep || !probe_rep)
            mc_log("part steps left out (not representable in the prototype): fetch_part=%d store_part=%d "
                   "refused-probe=%d", !fetch_rep, !store_rep, !probe_rep);
        if (ok && fetch_rep) {
            unsigned char *dst = mc_exact(len);
            memset(dst, 0xee, len);
            ok = run_op(&in, OP_FETCH_PART, dst, off, len, 0, &rc);
            if (ok && rc != PERSISTENT_ACCESS_SUCCESS) {
                FAIL("C10/fetch-part-returns-slice", "fetch_part(%zu,%zu) inside the data size returned %d",
                     off, len, (int)rc);
                ok = false;
            } else if (ok && memcmp(dst, image + off, len) != 0) {
                FAIL("C10/fetch-part-returns-slice",
                     "fetch_part(%zu,%zu) did not return that slice of the stored image", off, len);
                ok = false;
            }
            free(dst);
        }
        if (ok && store_rep) {
            memcpy(expect, image, c->N);
            memcpy(expect + off, other + off, len);
            unsigned char *src = mc_exact_copy(other + off, len);
            unsigned char *before = mc_exact_copy(M.img, M.size);
            ok = run_op(&in, OP_STORE_PART, src, off, len, 0, &rc);
            free(src);
            if (ok && rc != PERSISTENT_ACCESS_SUCCESS) {
                store_refused(&in, c, before, "store_part", rc);
                ok = false;
            }
            free(before);
            ok = ok && check_stored(&in, c, expect, &orders);
        }
        if (ok && probe_rep) {
            unsigned char *snap = mc_exact_copy(M.img, M.size);
            unsigned char *buf = mc_exact(1);
            buf[0] = 0x77;
            ok = run_op(&in, OP_STORE_PART, buf, c->N, 1, 0, &rc);
            if (ok && rc == PERSISTENT_ACCESS_SUCCESS) {
                FAIL("C10/part-beyond-size-refused",
                     "store_part with offset+len beyond the data size %zu returned success", c->N);
                ok = false;
            } else if (ok && (M.calls != 0 || memcmp(snap, M.img, M.size) != 0)) {
                FAIL("C10/refused-part-touches-medium", "refused store_part made %ld medium calls", M.calls);
                ok = false;
            }
            free(buf);
            free(snap);
        }
        if (ok) {
            M.img[M.size - 1] ^= 0x80;
            const bool distinguishes =
                (region_interps(M.img, cks_size(c->ck), c->N, c->ck, NULL) & orders) == 0;
            if (run_op(&in, OP_VALIDATE, NULL, 0, 0, 0, &rc) && distinguishes
                && rc != PERSISTENT_ACCESS_INVALID_DATA)
                FAIL("C10/alteration-detected",
                     "validate returned %d although %s distinguishes the altered region", (int)rc,
                     CKNAME[c->ck]);
        }
        end_case(&in, true, outcome_ok);
    }
    free(image);
    free(other);
    free(expect);
}

static void
scenario_history(const struct cfg *c)
{
    compact_cases(c, 0, 1, "history-ok");
}

/* L: data sizes, auxiliary buffer sizes and part offsets straddling 2^8 and 2^16
 * (a counter or offset kept in a narrower type than size_t) */
static void
scenario_large(void)
{
    static const size_t SIZES[] = { 255, 256, 257, 65535, 65536, 65537 };
    static const int PL[] = { 0, NPLACES - 1 }; /* 0 and ending at 2^32 */
    struct cfg c;
    memset(&c, 0, sizeof c);
    c.init = SUM32_INIT;
    for (size_t si = 0; si < sizeof SIZES / sizeof SIZES[0]; ++si)
        for (size_t pi = 0; pi < 2; ++pi)
            for (c.ck = 0; c.ck < CK_GRID; ++c.ck) {
                const int bufs[6] = { -1, 7, 255, 256, 65536, (int)SIZES[si] + 1 };
                for (int bi = 0; bi < 6; ++bi) {
                    c.N = SIZES[si];
                    c.place_i = PL[pi];
                    c.order = (int)((si + (size_t)bi) & 1u);
                    c.buf = bufs[bi];
                    /* variants 1 (last octet) and 3 (second half) */
                    compact_cases(&c, 1, 2, "large-size-ok");
                }
            }
}

/* ---- scenario X: the source of a store touches the auxiliary buffer ---------------------------------- */

/*
 * The caller's source block [src, src+len) of a full or partial store lies
 * directly in front of or directly behind the auxiliary buffer [aux, aux+b):
 * src - aux = -len and src - aux = b (one exact heap block holds the two, no
 * octet is shared).  Positions at which the two OVERLAP are not generated: the
 * statement does not quantify over aliasing between a call's source and the
 * scratch memory the caller assigned to the library; a library that stages the
 * block through its buffer with memcpy is legitimate, and memcpy between
 * overlapping blocks is undefined by the C standard, not by the library (audit
 * 5; seeded change C10l is therefore not reported).
 * Demanded after a store that reports success:
 *   - the checksum octets on the medium encode the configured algorithm over the
 *     data image on the medium ("the checksum on the medium equals the configured
 *     algorithm applied to the data image no matter how the library chunks its
 *     reads");
 *   - validation succeeds;
 *   - a fetch (into a separate block) returns the data image on the medium.
 *   - and, as no octet is shared, that image is the one the caller stored.
 * Destinations of fetches that overlap the auxiliary buffer, and sources inside
 * a memory-mapped medium, are not generated (see checks.d: assumptions).
 */
static void
alias_case(const struct cfg *c, bool full, size_t off, size_t len, long d)
{
    const size_t b = (size_t)c->buf;
    if (!mc_case(CFGFMT " X:reset(ee),store(image2),%s(image3,off=%zu,len=%zu) with src = aux%+ld "
                 "(one block holds both),validate,fetch", CFGARG(c), full ? "store" : "store_part", off, len, d))
        return;
    /* the instance gets its auxiliary buffer inside the arena */
    struct cfg nb = *c;
    nb.buf = -1;
    struct inst in;
    begin_case(&nb, &in);
    const size_t a_off = d < 0 ? (size_t)-d : 0, s_off = d > 0 ? (size_t)d : 0;
    const size_t a_end = a_off + b, s_end = s_off + len;
    const size_t asize = a_end > s_end ? a_end : s_end;
    unsigned char *arena = mc_exact(asize);
    memset(arena, 0xa5, asize);
    persistent_buffer(&in.s, arena + a_off, b);
    unsigned char image[NMAX], part[NMAX];
    make_image(image, c->N, 2);
    make_image(part, c->N, 3);
    const bool overlap = d > -(long)len && d < (long)b;
    if (overlap)
        mc_broken("scenario X generated a source block that overlaps the auxiliary buffer (d=%ld)", d);
    const char *outcome = "alias-src-touches-aux";
    int orders = 0;
    if (do_reset(&in, 0xee) && do_store(&in, c, image, &orders)) {
        memset(arena, 0xa5, asize);
        memcpy(arena + s_off, part + off, len);
        mc_log_hex("  arena (source block and auxiliary buffer)", arena, asize);
        unsigned char *before = mc_exact_copy(M.img, M.size);
        PersistentAccess rc;
        bool ok = run_op(&in, full ? OP_STORE : OP_STORE_PART, arena + s_off, off, len, 0, &rc);
        if (ok && rc != PERSISTENT_ACCESS_SUCCESS) {
            store_refused(&in, c, before, full ? "store" : "store_part", rc);
            ok = false;
        }
        free(before);
        if (ok) {
            const size_t cs = cks_size(c->ck);
            mc_log_hex("  region", M.img, M.size);
            const int o = region_interps(M.img, cs, c->N, c->ck, NULL) & orders;
            if (o == 0) {
                FAIL("C10/checksum-on-medium",
                     "after a successful %s whose source block touches the auxiliary buffer the "
                     "checksum octets on the medium do not encode %s(data image on the medium)",
                     full ? "store" : "store_part", CKNAME[c->ck]);
                ok = false;
            }
            if (ok && run_op(&in, OP_VALIDATE, NULL, 0, 0, 0, &rc) && rc != PERSISTENT_ACCESS_SUCCESS) {
                FAIL("C10/validate-after-store", "validate returned %d after a successful %s", (int)rc,
                     full ? "store" : "store_part");
                ok = false;
            }
            const bool cf = (o & 0x3) != 0, df = (o & 0xc) != 0;
            if (ok && !hung_here && cf != df) {
                unsigned char *dst = mc_exact(c->N);
                memset(dst, 0xee, c->N);
                if (run_op(&in, OP_FETCH, dst, 0, 0, 0, &rc)) {
                    mc_log_hex("  fetched", dst, c->N);
                    if (rc != PERSISTENT_ACCESS_SUCCESS)
                        FAIL("C10/fetch-returns-image", "fetch returned %d after a successful %s", (int)rc,
                             full ? "store" : "store_part");
                    else if (memcmp(dst, M.img + (df ? 0 : cs), c->N) != 0)
                        FAIL("C10/fetch-returns-image", "fetch did not return the data image the medium holds");
                    else {
                        /* source and auxiliary buffer share no octet: the image is
                         * what the caller stored (as in scenario B) */
                        unsigned char want[NMAX];
                        memcpy(want, image, c->N);
                        memcpy(want + off, part + off, len);
                        if (memcmp(dst, want, c->N) != 0)
                            FAIL("C10/fetch-returns-image",
                                 "fetch did not return the stored image (source block directly %s the auxiliary buffer)",
                                 d < 0 ? "in front of" : "behind");
                    }
                }
                free(dst);
            }
        }
    }
    free(arena);
    end_case(&in, true, outcome);
}

static void
scenario_alias(const struct cfg *c)
{
    if (c->buf < 1)
        return;
    for (int full = 1; full >= 0; --full)
        for (size_t off = 0; off < c->N; ++off)
            for (size_t len = 1; off + len <= c->N; ++len) {
                if (full && !(off == 0 && len == c->N))
                    continue;
                /* the two touching positions only (no shared octet) */
                alias_case(c, full != 0, off, len, -(long)len);
                alias_case(c, full != 0, off, len, (long)c->buf);
            }
}

/* ---- scenario O: operation histories on one instance over two banks ---------------------------------- */

/*
 * ONE instance; validations and fetches precede and follow stores, resets,
 * alterations and re-configurations.  The medium has two banks (disjoint blocks
 * of 4+N octets at placements A and B); the region in force is that of the
 * configuration the documented meaning of the calls made so far adds up to.
 * Every sequence of length <= L over
 *   s store(next image)   p store_part(next image, middle part)   v validate
 *   f fetch   r reset   m place(other bank)   k sum16(CRC-16/ARC)   K sum32
 *   i init+place(bank in force)+buffer (back to the default sum)
 *   a / z  the harness alters the first / last octet of the region in force
 * x what the banks hold at the start (A: nothing | an image stored by another
 * instance; B: nothing | an image stored by another instance, unaltered | first
 * | last region octet altered).
 *
 * Reference: per bank "an image was stored successfully under checksum kind
 * sck, and the region octets right after that store were sbytes".  O:
 *   - a successful store / store_part is held to the oracle of scenarios A/B
 *     (image and checksum on the medium, validate, fetch);
 *   - validate with the kind in force = sck: region octets = sbytes => success
 *     ("after a successful store validation succeeds" - also later, and after
 *     the instance was pointed elsewhere and back); region octets != sbytes and
 *     not consistent in themselves => invalid data ("any alteration of a stored
 *     octet is reported as invalid data whenever the checksum distinguishes");
 *   - fetch with the kind in force = sck and region octets = sbytes returns the
 *     stored image;
 *   - reset: every octet of the region in force = fill;
 *   - all accesses inside the region in force.
 * Nothing is demanded of validate/fetch over a region nothing was stored in
 * under the kind in force.
 */
enum { O_S, O_P, O_V, O_F, O_R, O_M, O_K16, O_K32, O_I, O_A, O_Z, O_NOPS };
static const char ONAME[O_NOPS + 1] = "spvfrmkKiaz";

struct obank {
    unsigned char *blk;
    uint32_t place;
    bool stored;
    int sck;
    size_t ssize;
    unsigned char simg[NMAX], sbytes[NMAX + 4];
};

struct oworld {
    struct inst in;
    struct cfg cur; /* N and the checksum kind in force (placement fields unused) */
    struct obank bank[2];
    int b;
    int interp[CK_GRID];
    int nimg;
    bool stop, undetermined;
};

static void
o_select(struct oworld *w)
{
    M.img = w->bank[w->b].blk;
    M.lo = w->bank[w->b].place;
    M.size = cks_size(w->cur.ck) + w->cur.N;
}

static void
o_remember(struct oworld *w, const unsigned char *image)
{
    struct obank *k = &w->bank[w->b];
    k->stored = true;
    k->sck = w->cur.ck;
    k->ssize = M.size;
    memcpy(k->simg, image, w->cur.N);
    memcpy(k->sbytes, M.img, M.size);
}

/* a separate instance stores `image` into bank b under checksum kind ck */
static bool
o_writer(struct oworld *w, const struct cfg *c0, int b, int ck, const unsigned char *image, bool remember)
{
    struct inst wr;
    memset(&wr, 0, sizeof wr);
    const int keep_b = w->b, keep_ck = w->cur.ck;
    w->b = b;
    w->cur.ck = ck;
    o_select(w);
    persistent_init(&wr.s, c0->N, med_read, med_write);
    persistent_place(&wr.s, w->bank[b].place);
    if (ck == CK_CRC16)
        persistent_sum16(&wr.s, cb_crc16, 0u);
    else if (ck == CK_SUM32)
        persistent_sum32(&wr.s, cb_sum32, c0->init);
    unsigned char *src = mc_exact_copy(image, c0->N);
    PersistentAccess rc;
    bool ok = run_op(&wr, OP_STORE, src, 0, 0, 0, &rc) && rc == PERSISTENT_ACCESS_SUCCESS && !failed_here;
    free(src);
    if (ok) {
        const int o = region_interps(M.img, cks_size(ck), c0->N, ck, image);
        w->interp[ck] &= o;
        ok = w->interp[ck] != 0;
        if (ok && remember)
            o_remember(w, image);
    }
    w->b = keep_b;
    w->cur.ck = keep_ck;
    o_select(w);
    return ok;
}

static void
o_op(struct oworld *w, int op)
{
    const size_t N = w->cur.N;
    struct obank *k = &w->bank[w->b];
    mc_log(" op %c (bank %c, %s)", ONAME[op], "AB"[w->b], CKNAME[w->cur.ck]);
    switch (op) {
    case O_M:
        w->b ^= 1;
        persistent_place(&w->in.s, w->bank[w->b].place);
        o_select(w);
        return;
    case O_K16:
        w->cur.ck = CK_CRC16;
        persistent_sum16(&w->in.s, cb_crc16, 0u);
        o_select(w);
        return;
    case O_K32:
        w->cur.ck = CK_SUM32;
        persistent_sum32(&w->in.s, cb_sum32, w->cur.init);
        o_select(w);
        return;
    case O_I:
        w->cur.ck = CK_DEFAULT;
        persistent_init(&w->in.s, N, med_read, med_write);
        persistent_place(&w->in.s, k->place);
        if (w->cur.buf >= 0)
            persistent_buffer(&w->in.s, w->in.aux, (size_t)w->cur.buf);
        o_select(w);
        return;
    case O_A: M.img[0] ^= 0x01; return;
    case O_Z: M.img[M.size - 1] ^= 0x80; return;
    default: break;
    }
    const int ck = w->cur.ck;
    const size_t cs = cks_size(ck);
    const bool known = k->stored && k->sck == ck;
    const bool intact = known && memcmp(M.img, k->sbytes, M.size) == 0;
    PersistentAccess rc;
    interp_here = w->interp[ck];
    switch (op) {
    case O_S:
    case O_P: {
        static const int IM[4] = { 2, 3, 1, 0 };
        unsigned char image[NMAX], expect[NMAX];
        make_image(image, N, IM[w->nimg++ % 4]);
        size_t off = 0, len = N;
        if (op == O_P) {
            off = N >= 2 ? 1 : 0;
            len = N >= 3 ? N - 2 : 1;
            /* the data image the part goes into: the stored one, else what the
             * medium holds where a store under this kind puts its data */
            const bool cf = (w->interp[ck] & 0x3) != 0, df = (w->interp[ck] & 0xc) != 0;
            if (intact)
                memcpy(expect, k->simg, N);
            else if (cf != df)
                memcpy(expect, M.img + (df ? 0 : cs), N);
            else {
                /* not determined where the data octets are (a one-octet image under
                 * the octet sum reads the same in both layouts) */
                w->stop = w->undetermined = true;
                break;
            }
        }
        memcpy(expect + off, image + off, len);
        unsigned char *src = mc_exact_copy(image + off, len);
        unsigned char *before = mc_exact_copy(M.img, M.size);
        bool ok = run_op(&w->in, op == O_S ? OP_STORE : OP_STORE_PART, src, off, len, 0, &rc);
        free(src);
        if (ok && rc != PERSISTENT_ACCESS_SUCCESS) {
            store_refused(&w->in, &w->cur, before, op == O_S ? "store" : "store_part", rc);
            ok = false;
        }
        free(before);
        k->stored = false;
        if (ok && check_stored(&w->in, &w->cur, expect, NULL))
            o_remember(w, expect);
        else
            w->stop = true;
        break;
    }
    case O_V:
        if (!run_op(&w->in, OP_VALIDATE, NULL, 0, 0, 0, &rc)) {
            w->stop = true;
        } else if (intact && rc != PERSISTENT_ACCESS_SUCCESS) {
            FAIL("C10/validate-after-store",
                 "validate returned %d over bank %c, which holds exactly what a successful store under %s left there",
                 (int)rc, "AB"[w->b], CKNAME[ck]);
            w->stop = true;
        } else if (known && !intact && rc != PERSISTENT_ACCESS_INVALID_DATA
                   && (region_interps(M.img, cs, N, ck, NULL) & w->interp[ck]) == 0) {
            mc_log_hex("  region in force", M.img, M.size);
            FAIL("C10/alteration-detected",
                 "validate returned %d over bank %c although %s distinguishes the altered region from the stored one",
                 (int)rc, "AB"[w->b], CKNAME[ck]);
            w->stop = true;
        }
        break;
    case O_F: {
        unsigned char *dst = mc_exact(N);
        memset(dst, 0xee, N);
        if (!run_op(&w->in, OP_FETCH, dst, 0, 0, 0, &rc)) {
            w->stop = true;
        } else if (intact) {
            mc_log_hex("  fetched", dst, N);
            if (rc != PERSISTENT_ACCESS_SUCCESS) {
                FAIL("C10/fetch-returns-image", "fetch returned %d over bank %c, which holds a stored image",
                     (int)rc, "AB"[w->b]);
                w->stop = true;
            } else if (memcmp(dst, k->simg, N) != 0) {
                FAIL("C10/fetch-returns-image", "fetch did not return the image stored in bank %c", "AB"[w->b]);
                w->stop = true;
            }
        }
        free(dst);
        break;
    }
    default: /* O_R */
        k->stored = false;
        if (!do_reset(&w->in, FILLS[w->nimg % 3]))
            w->stop = true;
        break;
    }
    w->interp[ck] = interp_here ? interp_here : w->interp[ck];
    if (failed_here || hung_here || refused_here)
        w->stop = true;
}

#define OKINDS 8
static void
ohist_case(const struct cfg *c0, const uint32_t place[2], int kind, const unsigned char *ops, int nops)
{
    static const char *const AK[2] = { "nothing", "stored" };
    static const char *const BK[4] = { "nothing", "stored", "stored,first-octet-altered", "stored,last-octet-altered" };
    char seq[16];
    for (int i = 0; i < nops; ++i)
        seq[i] = ONAME[ops[i]];
    seq[nops] = 0;
    if (!mc_case("N=%zu A=%lu B=%lu ck=%s buf=%d O:bankA=%s bankB=%s ops=%s", c0->N, (unsigned long)place[0],
                 (unsigned long)place[1], CKNAME[c0->ck], c0->buf, AK[kind & 1], BK[kind >> 1], nops ? seq : "-"))
        return;
    struct oworld w;
    memset(&w, 0, sizeof w);
    failed_here = hung_here = refused_here = false;
    interp_here = INTERP_ALL;
    cur_init = c0->init;
    w.cur = *c0;
    w.cur.h = NULL;
    for (int b = 0; b < 2; ++b) {
        w.bank[b].blk = mc_exact(c0->N + 4);
        memset(w.bank[b].blk, 0xcd, c0->N + 4);
        w.bank[b].place = place[b];
    }
    for (int ck = 0; ck < CK_GRID; ++ck)
        w.interp[ck] = INTERP_ALL;
    unsigned char img[NMAX];
    bool ready = true;
    /* how a store lays out and encodes each checksum kind (scratch use of bank A) */
    make_image(img, c0->N, 2);
    for (int ck = 0; ready && ck < CK_GRID; ++ck)
        ready = o_writer(&w, c0, 0, ck, img, false);
    memset(w.bank[0].blk, 0xcd, c0->N + 4);
    if (ready && (kind & 1)) {
        make_image(img, c0->N, 3);
        ready = o_writer(&w, c0, 0, c0->ck, img, true);
    }
    if (ready && (kind >> 1)) {
        make_image(img, c0->N, 2);
        ready = o_writer(&w, c0, 1, c0->ck, img, true);
        if ((kind >> 1) == 2)
            w.bank[1].blk[0] ^= 0x01;
        else if ((kind >> 1) == 3)
            w.bank[1].blk[cks_size(c0->ck) + c0->N - 1] ^= 0x80;
    }
    if (!ready && !failed_here && !hung_here)
        refused_here = true; /* a plain store by a fresh instance did not succeed: scenario A's subject */
    if (ready) {
        w.b = 0;
        w.cur.ck = c0->ck;
        o_select(&w);
        struct cfg ic = *c0;
        ic.h = NULL;
        ic.order = 0;
        /* inst_make places the instance through cfg_place(); do it by hand for bank A */
        memset(&w.in, 0, sizeof w.in);
        persistent_init(&w.in.s, c0->N, med_read, med_write);
        persistent_place(&w.in.s, place[0]);
        inst_sum(&w.in, &ic);
        if (c0->buf >= 0) {
            w.in.aux = mc_exact((size_t)c0->buf);
            persistent_buffer(&w.in.s, w.in.aux, (size_t)c0->buf);
        }
        for (int i = 0; i < nops && !w.stop; ++i)
            o_op(&w, ops[i]);
        inst_free(&w.in);
    }
    for (int b = 0; b < 2; ++b)
        free(w.bank[b].blk);
    M.img = NULL;
    mc_end(ready && !w.stop && !failed_here && !refused_here,
           hung_here ? "hang" : failed_here ? "failed" : refused_here ? "store-refused"
           : w.undetermined ? "ophist-part-undetermined" : w.stop ? "ophist-cut-short" : "ophist-ok");
}

static void
scenario_ophist(const struct cfg *c0, const uint32_t place[2], int maxlen)
{
    int npow = 1;
    for (int n = 0; n <= maxlen; ++n, npow *= O_NOPS)
        for (int code = 0; code < npow; ++code) {
            unsigned char ops[8];
            int x = code;
            for (int i = 0; i < n; ++i, x /= O_NOPS)
                ops[i] = (unsigned char)(x % O_NOPS);
            for (int kind = 0; kind < OKINDS; ++kind)
                ohist_case(c0, place, kind, ops, n);
        }
}

/* ---- anchors ----------------------------------------------------------------------------- */

static void
anchors(void)
{
    /* CRC-16/ARC as named in doc/regp.txt section 4 (x^16+x^15+x^2+1, initial
     * value zero); catalogue check value for "123456789" */
    MC_ANCHOR(crc16_arc_step((const unsigned char *)"123456789", 9, 0) == 0xbb3d, "CRC-16/ARC check value");
    MC_ANCHOR(crc16_arc_step((const unsigned char *)"6789", 4,
                             crc16_arc_step((const unsigned char *)"12345", 5, 0)) == 0xbb3d,
              "CRC-16/ARC continues over chunks");
    /* trivial sum per its documentation: all octets summed into a uint16_t */
    unsigned char ff[258];
    memset(ff, 0xff, sizeof ff);
    MC_ANCHOR(ref_sum16(ff, 257) == 0xffffu, "sum16 of 257 x ff");
    MC_ANCHOR(ref_sum16(ff, 258) == 0x00feu, "sum16 wraps at 2^16");
    MC_ANCHOR(sum32_step(ff, 2, SUM32_INIT) == 0x01fcfefeu, "sum32 wraps at 2^32");
    /* result codes used by the unit test t-persistent-storage.c */
    MC_ANCHOR(PERSISTENT_ACCESS_SUCCESS == 0, "success code");
    MC_ANCHOR(PERSISTENT_ACCESS_INVALID_DATA != PERSISTENT_ACCESS_SUCCESS
                  && PERSISTENT_ACCESS_IO_ERROR != PERSISTENT_ACCESS_INVALID_DATA,
              "distinct result codes");
}

int
main(int argc, char **argv)
{
    mc_init(argc, argv);
    anchors();
    const size_t nmax = mc_thorough() ? 24 : 10;
    const size_t amax = mc_thorough() ? 16 : 8; /* X: source touching the auxiliary buffer */
    struct cfg c;
    memset(&c, 0, sizeof c);
    c.init = SUM32_INIT;
    /* thorough: 1..24 plus 32, the size of the unit test's struct cfg */
    for (size_t ni = 1; ni <= nmax + (mc_thorough() ? 1u : 0u); ++ni) {
        c.N = (ni <= nmax) ? ni : 32;
        for (c.place_i = 0; c.place_i < NPLACES; ++c.place_i)
            for (c.ck = 0; c.ck < CK_GRID; ++c.ck)
                for (c.order = 0; c.order < (c.ck == CK_DEFAULT ? 1 : 2); ++c.order)
                    for (c.buf = -1; c.buf <= (int)c.N + 1; ++c.buf) {
                        scenario_roundtrip(&c);
                        scenario_part(&c);
                        scenario_refuse(&c);
                        scenario_alter(&c);
                        if (c.N <= amax)
                            scenario_alias(&c);
                    }
    }
    /* E: special checksum values */
    const size_t emax = mc_thorough() ? 24 : 10;
    for (c.N = 1; c.N <= emax; ++c.N)
        for (c.place_i = 0; c.place_i < NPLACES; ++c.place_i) {
            if (!mc_thorough() && c.place_i != 0 && c.place_i != 3 && c.place_i != NPLACES - 1)
                continue;
            for (c.buf = -1; c.buf <= (int)c.N + 1; ++c.buf)
                scenario_special(&c);
        }
    scenario_special_default();
    scenario_large();
    /* H: configuration histories */
    const int hlen = mc_thorough() ? 5 : 4;
    const size_t hmax = mc_thorough() ? 12 : 8;
    hists_make(hlen);
    c.init = SUM32_INIT;
    c.order = 0;
    for (c.N = 1; c.N <= hmax; ++c.N)
        for (c.place_i = 0; c.place_i < NPLACES; ++c.place_i) {
            if (!mc_thorough() && c.place_i != 0 && c.place_i != 3 && c.place_i != NPLACES - 1)
                continue;
            for (int hi = 0; hi < NHISTS; ++hi)
                for (int pf = 0; pf < 2; ++pf) {
                    const int bufs[4] = { -1, 1, 3, (int)c.N + 1 };
                    for (int bi = 0; bi < 4; ++bi) {
                        if (!mc_thorough() && bi == 1)
                            continue;
                        c.h = &HISTS[hi];
                        c.ck = c.h->ck;
                        c.prefill = pf ? 0xa5 : 0x00;
                        c.buf = bufs[bi];
                        scenario_history(&c);
                    }
                }
        }
    c.h = NULL;
    /* O: operation histories on one instance over two banks */
    const size_t omax = mc_thorough() ? 6 : 3;
    const int olen = 4;
    {
        static const uint32_t OPL[] = { 100u, 0u, PLACE_TOP };
        const int nopl = mc_thorough() ? 3 : 1;
        for (int deep = 0; deep < (mc_thorough() ? 2 : 1); ++deep)
            for (c.N = deep ? 2 : 1; c.N <= (deep ? 3 : omax); ++c.N)
                for (int pi = 0; pi < (deep ? 1 : nopl); ++pi)
                    for (c.ck = 0; c.ck < CK_GRID; ++c.ck) {
                        const int bq[3] = { -1, 1, (int)c.N + 1 };
                        const int bt[4] = { -1, 1, 3, (int)c.N + 1 };
                        const int bd[2] = { -1, (int)c.N + 1 };
                        const int *bl = deep ? bd : mc_thorough() ? bt : bq;
                        const int nbl = deep ? 2 : mc_thorough() ? 4 : 3;
                        for (int bi = 0; bi < nbl; ++bi) {
                            const uint32_t blk = (uint32_t)(c.N + 4);
                            uint32_t place[2];
                            if (OPL[pi] == PLACE_TOP) {
                                place[0] = (uint32_t)(0x100000000ull - blk); /* bank A ends at 2^32 */
                                place[1] = place[0] - blk - 3u;
                            } else {
                                place[0] = OPL[pi];
                                place[1] = place[0] + blk + 3u;
                            }
                            c.buf = bl[bi];
                            c.order = 0;
                            c.place_i = 0;
                            scenario_ophist(&c, place, deep ? 5 : olen);
                        }
                    }
    }
    /* what the prototypes let scenario C hand in */
    char cpairs[400];
    {
        const struct part_limits ls = part_limits(0), lf = part_limits(1);
        const bool wide = ls.offmax > 0xffffffffull && ls.lenmax > 0xffffffffull && lf.offmax > 0xffffffffull
                          && lf.lenmax > 0xffffffffull;
        snprintf(cpairs, sizeof cpairs,
                 "C: offset+len = N+1, N+2, 9 overflow pairs at the top of the offset type and every offset 0..N with the 3 largest lengths of the length type (store_part %s, "
                 "fetch_part %s), pairs at and above 2^31/2^32 %s",
                 limit_name(ls.offmax), limit_name(lf.offmax),
                 wide ? "(8: the prototypes take 64-bit offsets and lengths)"
                      : "only as far as the prototypes' parameter types represent them");
    }
    char bound[3100];
    snprintf(bound, sizeof bound,
             "data sizes 1..%zu%s x placements {0,1,7,100,straddling 2^16,straddling 2^31,ending at 2^32} x "
             "{default sum16, CRC-16/ARC, sum32} x both configuration orders x auxiliary buffer {none, 0..N+1} x "
             "scenarios A-D complete (parts include length 0 at offsets 0..N; %s); E: sizes 1..%zu x placements %s x "
             "buffers {none,0..N+1} x {CRC-16/ARC by content, 16-bit and 32-bit sum by initial value} x 2 images x 8 "
             "special checksum values, default sum with 257/258 octets x 9 buffers x 3 placements; L: sizes {255,256,257,"
             "65535,65536,65537} x placements {0, ending at 2^32} x 3 checksums x buffers {none,7,255,256,65536,N+1} x 2 "
             "compact sequences (parts at the last octet and over the second half; a part step whose offset or length the "
             "prototypes' parameter types cannot hold is left out); H: sizes 1..%zu x "
             "placements %s x every call sequence of length <= %d over {init,place(A),place(B),sum16,sum32} after "
             "the first init (%d histories) x object prefill {00,a5} x buffers %s x 4 compact sequences; X: sizes 1..%zu "
             "(same grid, buffers 1..N+1) x full store and every store_part (offset,len>=1) x source block directly in "
             "front of and directly behind the auxiliary buffer (src-aux = -len and = bufsize: touching, never "
             "overlapping); O: sizes "
             "1..%zu x bank placements %s x 3 checksums x buffers %s x 8 initial bank contents x every operation "
             "sequence of length <= %d over {store, store_part, validate, fetch, reset, place(other bank), sum16, sum32, "
             "init, alter first/last region octet} on one instance%s",
             nmax, mc_thorough() ? " and 32" : "", cpairs, emax, mc_thorough() ? "(all 7)" : "{0,100,ending at 2^32}",
             hmax, mc_thorough() ? "(all 7)" : "{0,100,ending at 2^32}", hlen, NHISTS,
             mc_thorough() ? "{none,1,3,N+1}" : "{none,3,N+1}", amax, omax,
             mc_thorough() ? "{100,0,ending at 2^32}" : "{100}", mc_thorough() ? "{none,1,3,N+1}" : "{none,1,N+1}", olen,
             mc_thorough() ? ", and of length <= 5 for sizes 2..3 x placement 100 x buffers {none,N+1}" : "");
    mc_finish(true, bound);
    return 0;
}
