/*
 * C17 -- endpoints move exactly N octets in order whatever the driver does.
 *
 * Closed driver around the real src/endpoints/{core,buffer,trivial}.c.  Every
 * source and sink the library talks to is owned by this file: scripted
 * octet-style and chunk-style drivers that answer each call from a finite
 * behaviour script over {1, 2, k = asked-1, rest, 0, EINTR, EAGAIN, hard error}
 * and fall back to "transfer everything asked" when the script runs out.  The
 * stream is 01 02 03 ..., so loss, duplication and reordering are visible at
 * the other end.  "Hard error" is -EIO; sinks additionally answer -ENOMEM, the
 * code the driver contract documents for "out of space".
 *
 * Exploration is deviation-bounded and exhaustive: all scripts with 0
 * deviations from the default answer, then all with 1, then 2, ... (so the
 * lowest-numbered failing case has the fewest deviations), for every
 * operation, driver kind, count and auxiliary-buffer geometry of the tier;
 * then 40-octet transfers under every periodic script (the structured
 * stand-in for "random long transfers"); then the library's own buffer,
 * chunk-list and trivial endpoints over every cut of short streams into up to
 * 4 (5) chunks -- empty chunks at every position -- with 0..2 chunks of foreign
 * unread octets in front of the list's `active` index and with or without a
 * consumed octet in front of every chunk's read offset.
 * (Counts and driver answers >= 2^31 are c17_huge.c's, the scratch-region
 * (getbuffer) path is c17_getbuffer.c's.)
 *
 * The oracle is a checker over what the drivers observed (octets handed out
 * by the source, octets that reached the sink / the destination, answers
 * given, number of calls) plus the return value.  It never predicts how many
 * calls an implementation makes or how much it asks for in one call; it only
 * holds the implementation to the property statement:
 *
 *   exact forms   : no hard error answered => returns N, exactly the next N
 *                   octets moved in order, source advanced by exactly N;
 *                   interruptions (0, EINTR, EAGAIN) are retried through
 *   hard error    : one endpoint (source_get_chunk, sink_put_chunk, octet
 *                   access): the first hard error the driver answered is what
 *                   the call returns.  Plumbing (two endpoints): "when it fails,
 *                   an error is returned" -- any negative code -- and what
 *                   reached the sink is a prefix of the stream; a call that went
 *                   on after a hard answer and moved exactly what was asked did
 *                   not fail
 *   invalid N     : 0 or > SSIZE_MAX refused (negative) without a driver call
 *   at-most forms : never move more than asked; a non-negative return is the
 *                   count actually moved (a short positive count is also fine
 *                   when a hard answer -- the source's end or a driver error --
 *                   followed some progress, as with read(2)); an interruption
 *                   may be passed on only if nothing was taken from the source
 *                   and dropped
 *   drain forms   : without a scripted hard error the sink ends up with the
 *                   whole stream (return value not pinned)
 *   aux buffer    : no access outside the buffer's memory; the non-rewinding
 *                   forms hand their drivers only ranges inside [offset, used)
 *                   (or inside [used, size), the other reading of "designated
 *                   region"), and leave the octets in front of `offset` alone
 *   every form    : bounded number of driver calls (clause C17/hang): every
 *                   driver has a call budget, answers -EIO beyond it and jumps
 *                   out of the library if even that does not stop the loop
 *
 * A small independent reference implementation (ref_*) is run through the same
 * checker at start-up: it has to pass, and four deliberately broken variants
 * of it have to be rejected (oracle self-test; failure = HARNESS-BROKEN).
 * C17_IMPL=ref runs the whole enumeration on that reference instead of ufw
 * (a development aid to look for false alarms of the oracle; the bound text
 * says so and the run is reported VACUOUS because the library-endpoint part is
 * skipped).
 */
#include "mc.h"

#include <errno.h>
#include <limits.h>
#include <setjmp.h>

#include <ufw/compat/errno.h>
#include <ufw/compat/ssize-t.h>
#include <ufw/endpoints.h>

/* ------------------------------------------------------------------------ */
/* behaviours                                                               */

enum beh { B_REST, B_ONE, B_TWO, B_K, B_ZERO, B_EINTR, B_EAGAIN, B_EIO, B_ENOMEM };
static const char *const BEH_TOK[] = { "r", "1", "2", "k", "0", "EINTR", "EAGAIN", "EIO", "ENOMEM" };

/* deviating behaviours per driver kind (B_REST is the default answer) */
static const uint8_t DEV_CHUNK_SRC[] = { B_ONE, B_TWO, B_K, B_ZERO, B_EINTR, B_EAGAIN, B_EIO };
static const uint8_t DEV_OCTET_SRC[] = { B_ZERO, B_EINTR, B_EAGAIN, B_EIO };
static const uint8_t DEV_CHUNK_SNK[] = { B_ONE, B_TWO, B_K, B_ZERO, B_EINTR, B_EAGAIN, B_EIO, B_ENOMEM };
static const uint8_t DEV_OCTET_SNK[] = { B_ZERO, B_EINTR, B_EAGAIN, B_EIO, B_ENOMEM };

#define STREAM(i) ((unsigned char)((i) + 1u))
#define UNBOUNDED 200u   /* one-sided source operations: the budget ends a run long before */
#define GOTCAP 96u
#define ABSURD_ASK ((size_t)SSIZE_MAX / 2u) /* beyond this only an unrefused invalid count (or a wrapped one) arrives */
#define SLOTS_ONE 8
#define SLOTS_SIDE 6

/* ------------------------------------------------------------------------ */
/* scripted drivers                                                         */

struct drv {
    bool is_sink, octet;
    const uint8_t *script;
    int slen, pos;
    int calls, budget;
    size_t total, next;          /* source: stream length, octets handed out */
    unsigned char got[GOTCAP];   /* sink: what arrived */
    bool unsourced[GOTCAP];      /* arrived without the source having handed it out */
    size_t ngot;
    bool got_overflow;
    bool ended;                  /* source answered -ENODATA at the stream's end */
};

static struct {
    jmp_buf jb;
    bool over, jumped, absurd;
    size_t absurd_asked;
    bool two_sided;
    int first_hard;           /* first hard answer of any driver, natural end included */
    int first_scripted_hard;  /* first scripted hard error */
    int last_neg;
    bool seen_eintr, seen_eagain;
    int partials, zeros, intrs, hards, ends; /* answers really delivered */
    /* auxiliary buffer under observation */
    unsigned char *aux;
    size_t aux_size, aux_off, aux_used;
    bool aux_strict; /* non-rewinding forms: the region as passed in is the region used */
    bool aux_bad;
    long aux_bad_off;
    size_t aux_bad_len;
} E;

static struct drv SRC, SNK;

static void
note_hard(int code, bool scripted)
{
    if (E.first_hard == 0)
        E.first_hard = code;
    if (scripted && E.first_scripted_hard == 0)
        E.first_scripted_hard = code;
}

/* true if the range must not be used: it touches the neighbourhood of the
 * auxiliary buffer without lying inside it */
static bool
aux_range_bad(const void *p, size_t len)
{
    if (E.aux == NULL || len == 0)
        return false;
    const uintptr_t a = (uintptr_t)p, b = (uintptr_t)E.aux;
    const uintptr_t lo = b - 64u, hi = b + E.aux_size + 64u;
    if (a + len <= lo || a >= hi)
        return false; /* some other object (checked by ASan) */
    if (a >= b && a + len <= b + E.aux_size) {
        if (!E.aux_strict)
            return false;
        /* The designated region is [offset, used) as the code reads it; an
         * implementation that took the free octets [used, size) instead is
         * not contradicted by the statement either.  A range that lies in
         * neither (in front of offset, or straddling `used`) is outside the
         * designated region under both readings. */
        const size_t o = (size_t)(a - b);
        if ((o >= E.aux_off && o + len <= E.aux_used) || (o >= E.aux_used && o + len <= E.aux_size))
            return false;
    }
    E.aux_bad = true;
    E.aux_bad_off = (long)((intptr_t)a - (intptr_t)b);
    E.aux_bad_len = len;
    return true;
}

static ssize_t
drv_answer(struct drv *d, size_t asked, unsigned char *w, const unsigned char *r, bool checkptr)
{
    const char *who = d->is_sink ? "snk" : "src";
    d->calls++;
    if (d->calls > d->budget) {
        E.over = true;
        if (d->calls > 2 * d->budget + 16) {
            E.jumped = true;
            longjmp(E.jb, 1);
        }
        mc_log("%s call %d asked=%zu: over budget -> -EIO", who, d->calls, asked);
        return -EIO;
    }
    int b = B_REST;
    if (d->pos < d->slen)
        b = d->script[d->pos++];
    ssize_t ans = 0;
    switch (b) {
    case B_ZERO:
        ans = 0;
        E.zeros++;
        break;
    case B_EINTR:
        ans = -EINTR;
        E.seen_eintr = true;
        E.intrs++;
        break;
    case B_EAGAIN:
        ans = -EAGAIN;
        E.seen_eagain = true;
        E.intrs++;
        break;
    case B_EIO:
        ans = -EIO;
        E.hards++;
        note_hard(-EIO, true);
        break;
    case B_ENOMEM:
        ans = -ENOMEM;
        E.hards++;
        note_hard(-ENOMEM, true);
        break;
    default: {
        size_t t = (b == B_ONE) ? 1u : (b == B_TWO) ? 2u : (b == B_K) ? (asked ? asked - 1u : 0u) : asked;
        if (t > asked)
            t = asked;
        if (asked > ABSURD_ASK) {
            /* only an unrefused invalid count gets here; touch nothing.  (Any
             * other request is served, however large: how much an
             * implementation asks for in one call is its own business; ASan
             * and the aux-region check watch the memory it names.) */
            if (!E.absurd)
                E.absurd_asked = asked;
            E.absurd = true;
            ans = -EIO;
            break;
        }
        size_t could = asked; /* what the default answer would have moved */
        if (!d->is_sink) {
            const size_t left = d->total - d->next;
            if (left < could)
                could = left;
            if (left == 0) {
                ans = -ENODATA;
                d->ended = true;
                E.ends++;
                note_hard(-ENODATA, false);
                break;
            }
            if (t > left)
                t = left;
        }
        if (checkptr && aux_range_bad(d->is_sink ? (const void *)r : (const void *)w, asked)) {
            ans = -EIO;
            break;
        }
        if (d->is_sink) {
            for (size_t i = 0; i < t; ++i) {
                if (d->ngot >= GOTCAP) {
                    d->got_overflow = true;
                } else if (E.two_sided && d->ngot >= SRC.next) {
                    /* more octets than the source ever handed out: whatever
                     * this is (stale buffer content, an uninitialised
                     * variable), its value is not an observation */
                    d->unsourced[d->ngot] = true;
                    d->got[d->ngot++] = 0;
                } else {
                    d->got[d->ngot++] = r[i];
                }
            }
        } else {
            for (size_t i = 0; i < t; ++i)
                w[i] = STREAM(d->next + i);
            d->next += t;
        }
        if (asked > 0 && t == 0)
            E.zeros++;
        else if (t < could)
            E.partials++;
        ans = (ssize_t)t;
    }
    }
    if (ans < 0)
        E.last_neg = (int)ans;
    mc_log("%s call %d asked=%zu script=%s -> %zd", who, d->calls, asked, BEH_TOK[b], ans);
    return ans;
}

static int
cb_octet_source(void *driver, void *data)
{
    return (int)drv_answer(driver, 1u, data, NULL, true);
}

static ssize_t
cb_chunk_source(void *driver, void *data, size_t n)
{
    return drv_answer(driver, n, data, NULL, true);
}

static int
cb_octet_sink(void *driver, unsigned char c)
{
    return (int)drv_answer(driver, 1u, NULL, &c, false);
}

static ssize_t
cb_chunk_sink(void *driver, const void *data, size_t n)
{
    return drv_answer(driver, n, NULL, data, true);
}

/* ------------------------------------------------------------------------ */
/* operations and the implementations they can be run on                    */

enum op {
    OP_GET_CHUNK, OP_PUT_CHUNK, OP_GET_ATMOST, OP_PUT_ATMOST, OP_GET_OCTET, OP_PUT_OCTET,
    OP_CBC, OP_SOME, OP_ATMOST, OP_N_CBC, OP_N, OP_DRAIN_CBC, OP_DRAIN,
    OP_SOME_AUX, OP_ATMOST_AUX, OP_N_AUX, OP_DRAIN_AUX, OP__N
};
static const char *const OPNAME[] = {
    "source_get_chunk", "sink_put_chunk", "source_get_chunk_atmost", "sink_put_chunk_atmost",
    "source_get_octet", "sink_put_octet",
    "sts_cbc", "sts_some", "sts_atmost", "sts_n_cbc", "sts_n", "sts_drain_cbc", "sts_drain",
    "sts_some_aux", "sts_atmost_aux", "sts_n_aux", "sts_drain_aux"
};

static bool op_one_sided(int op) { return op <= OP_PUT_OCTET; }
static bool op_is_get(int op) { return op == OP_GET_CHUNK || op == OP_GET_ATMOST || op == OP_GET_OCTET; }
static bool op_aux(int op) { return op >= OP_SOME_AUX; }
static bool op_counted(int op) { return op == OP_N_CBC || op == OP_N || op == OP_N_AUX; }
static bool op_drain(int op) { return op == OP_DRAIN_CBC || op == OP_DRAIN || op == OP_DRAIN_AUX; }

struct impl {
    const char *name;
    int (*get_octet)(Source *, void *);
    int (*put_octet)(Sink *, unsigned char);
    ssize_t (*get_chunk)(Source *, void *, size_t);
    ssize_t (*get_atmost)(Source *, void *, size_t);
    ssize_t (*put_chunk)(Sink *, const void *, size_t);
    ssize_t (*put_atmost)(Sink *, const void *, size_t);
    ssize_t (*cbc)(Source *, Sink *);
    ssize_t (*some)(Source *, Sink *);
    ssize_t (*atmost)(Source *, Sink *, size_t);
    ssize_t (*n_cbc)(Source *, Sink *, size_t);
    ssize_t (*n)(Source *, Sink *, size_t);
    ssize_t (*drain_cbc)(Source *, Sink *);
    ssize_t (*drain)(Source *, Sink *);
    ssize_t (*some_aux)(Source *, Sink *, ByteBuffer *);
    ssize_t (*atmost_aux)(Source *, Sink *, ByteBuffer *, size_t);
    ssize_t (*n_aux)(Source *, Sink *, ByteBuffer *, size_t);
    ssize_t (*drain_aux)(Source *, Sink *, ByteBuffer *);
};

static const struct impl IMPL_UFW = {
    "ufw", source_get_octet, sink_put_octet, source_get_chunk, source_get_chunk_atmost,
    sink_put_chunk, sink_put_chunk_atmost, sts_cbc, sts_some, sts_atmost, sts_n_cbc, sts_n,
    sts_drain_cbc, sts_drain, sts_some_aux, sts_atmost_aux, sts_n_aux, sts_drain_aux
};

/* ---- reference implementation: written from the documentation of the driver
 * contract in endpoints/core.c's header comment, not from its code.  Used only
 * to validate the checker (and optionally, C17_IMPL=ref, to run the whole
 * enumeration on it as a no-false-alarm check of the oracle). */
static unsigned ref_bugs; /* bit set: deliberately broken variants for the oracle self-test */
#define RB_NO_ADVANCE 1u
#define RB_ADAPT_ZERO 2u
#define RB_FORWARD_N 4u
#define RB_FORWARD_UNREAD 8u

static bool ref_retry(ssize_t rc) { return rc == -EINTR || rc == -EAGAIN; }

static int
ref_get_octet(Source *s, void *d)
{
    return s->kind == DATA_KIND_OCTET ? s->source.octet(s->driver, d)
                                      : (int)s->source.chunk(s->driver, d, 1u);
}

static int
ref_put_octet(Sink *s, unsigned char c)
{
    return s->kind == DATA_KIND_OCTET ? s->sink.octet(s->driver, c)
                                      : (int)s->sink.chunk(s->driver, &c, 1u);
}

static ssize_t
ref_get_loop(Source *s, unsigned char *buf, size_t n, bool atmost)
{
    size_t done = 0;
    while (done < n) {
        unsigned char *at = (ref_bugs & RB_NO_ADVANCE) && s->kind == DATA_KIND_CHUNK ? buf : buf + done;
        const ssize_t rc = s->kind == DATA_KIND_OCTET ? s->source.octet(s->driver, at)
                                                      : s->source.chunk(s->driver, at, n - done);
        if (ref_retry(rc))
            continue;
        if (rc == -ENODATA && atmost && done > 0)
            return (ssize_t)done; /* the end of the data shows again with the next call */
        if (rc < 0)
            return rc;
        done += (size_t)rc;
    }
    return (ssize_t)n;
}

static ssize_t
ref_get_chunk(Source *s, void *buf, size_t n)
{
    if (n == 0 || n > SSIZE_MAX)
        return -EINVAL;
    if ((ref_bugs & RB_ADAPT_ZERO) && s->kind == DATA_KIND_OCTET) {
        for (;;) {
            const ssize_t rc = ref_get_loop(s, buf, n, false);
            if (rc < 0)
                return rc;
        }
    }
    return ref_get_loop(s, buf, n, false);
}

static ssize_t
ref_get_atmost(Source *s, void *buf, size_t n)
{
    if (s->kind == DATA_KIND_CHUNK)
        return s->source.chunk(s->driver, buf, n);
    const ssize_t rc = ref_get_loop(s, buf, n, true);
    return (rc >= 0 && (ref_bugs & RB_ADAPT_ZERO)) ? 0 : rc;
}

static ssize_t
ref_put_loop(Sink *s, const unsigned char *buf, size_t n)
{
    size_t done = 0;
    while (done < n) {
        const unsigned char *at = (ref_bugs & RB_NO_ADVANCE) && s->kind == DATA_KIND_CHUNK ? buf : buf + done;
        const ssize_t rc = s->kind == DATA_KIND_OCTET ? s->sink.octet(s->driver, *at)
                                                      : s->sink.chunk(s->driver, at, n - done);
        if (ref_retry(rc))
            continue;
        if (rc < 0)
            return rc;
        done += (size_t)rc;
    }
    return (ssize_t)n;
}

static ssize_t
ref_put_chunk(Sink *s, const void *buf, size_t n)
{
    if (n == 0 || n > SSIZE_MAX)
        return -EINVAL;
    return ref_put_loop(s, buf, n);
}

static ssize_t
ref_put_atmost(Sink *s, const void *buf, size_t n)
{
    if (s->kind == DATA_KIND_CHUNK)
        return s->sink.chunk(s->driver, buf, n);
    return ref_put_loop(s, buf, n);
}

static ssize_t
ref_cbc(Source *src, Sink *snk)
{
    unsigned char c = 0xcc;
    if (ref_bugs & RB_FORWARD_UNREAD) {
        const int rc = ref_get_octet(src, &c);
        if (rc < 0)
            return rc;
        return ref_put_chunk(snk, &c, 1u);
    }
    const ssize_t rc = ref_get_chunk(src, &c, 1u);
    if (rc < 0)
        return rc;
    return ref_put_chunk(snk, &c, 1u);
}

static ssize_t ref_some(Source *src, Sink *snk) { return ref_cbc(src, snk); }
static ssize_t ref_atmost(Source *src, Sink *snk, size_t n) { (void)n; return ref_cbc(src, snk); }

static ssize_t
ref_n_cbc(Source *src, Sink *snk, size_t n)
{
    for (size_t i = 0; i < n; ++i) {
        const ssize_t rc = ref_cbc(src, snk);
        if (rc < 0)
            return rc;
    }
    return (ssize_t)n;
}

static ssize_t
ref_drain_cbc(Source *src, Sink *snk)
{
    for (;;) {
        const ssize_t rc = ref_cbc(src, snk);
        if (rc < 0)
            return rc;
    }
}

static ssize_t
ref_move_region(Source *src, Sink *snk, unsigned char *region, size_t len)
{
    if (len == 0)
        return -EINVAL;
    const ssize_t rc = ref_get_atmost(src, region, len);
    if (rc <= 0)
        return rc;
    return ref_put_chunk(snk, region, (ref_bugs & RB_FORWARD_N) ? len : (size_t)rc);
}

static ssize_t
ref_some_aux(Source *src, Sink *snk, ByteBuffer *b)
{
    return ref_move_region(src, snk, b->data + b->offset, b->used - b->offset);
}

static ssize_t
ref_atmost_aux(Source *src, Sink *snk, ByteBuffer *b, size_t n)
{
    size_t len = b->used - b->offset;
    if (len > n)
        len = n;
    return ref_move_region(src, snk, b->data + b->offset, len);
}

static ssize_t
ref_n_aux(Source *src, Sink *snk, ByteBuffer *b, size_t n)
{
    size_t rest = n;
    while (rest > 0) {
        const ssize_t rc = ref_atmost_aux(src, snk, b, rest);
        if (ref_retry(rc))
            continue;
        if (rc < 0)
            return rc;
        rest -= (size_t)rc;
    }
    return (ssize_t)n;
}

static ssize_t
ref_drain_aux(Source *src, Sink *snk, ByteBuffer *b)
{
    for (;;) {
        const ssize_t rc = ref_some_aux(src, snk, b);
        if (ref_retry(rc))
            continue;
        if (rc < 0)
            return rc;
    }
}

static const struct impl IMPL_REF = {
    "ref", ref_get_octet, ref_put_octet, ref_get_chunk, ref_get_atmost, ref_put_chunk,
    ref_put_atmost, ref_cbc, ref_some, ref_atmost, ref_n_cbc, ref_n_cbc, ref_drain_cbc,
    ref_drain_cbc, ref_some_aux, ref_atmost_aux, ref_n_aux, ref_drain_aux
};

/* ------------------------------------------------------------------------ */
/* one case                                                                 */

struct casep {
    int op;
    bool src_octet, snk_octet;  /* one-sided: the one that matters */
    size_t n;                   /* count asked (exact/at-most/counted forms) */
    size_t L;                   /* two-sided: stream length */
    int off, used, size;        /* auxiliary buffer geometry */
    uint8_t s_src[SLOTS_ONE], s_snk[SLOTS_ONE];
    int slen_src, slen_snk;
    /* long transfers: periodic scripts kept outside the case record */
    const uint8_t *long_src, *long_snk;
    int period_src, period_snk;
};

/* verdict sink: the enumeration reports through mc_fail, the self-test only
 * wants to know whether (and which) clause failed */
static bool quiet;
static const char *quiet_clause;

static void report(const char *clause, const char *fmt, ...) __attribute__((format(printf, 2, 3)));
static void
report(const char *clause, const char *fmt, ...)
{
    char detail[400];
    va_list ap;
    va_start(ap, fmt);
    vsnprintf(detail, sizeof detail, fmt, ap);
    va_end(ap);
    if (quiet) {
        if (quiet_clause == NULL)
            quiet_clause = clause;
        return;
    }
    mc_fail(clause, "%s", detail);
}

/* exact-size blocks, allocated once per size and refilled per case (ASan red
 * zones on both ends stay in place) */
#define LONG_N 40u
#define LONG_SLOTS 128
static unsigned char *blk_dst[LONG_N + 1], *blk_src[LONG_N + 1], *blk_aux[8];

static unsigned char *
block(unsigned char **tab, size_t n)
{
    if (tab[n] == NULL)
        tab[n] = mc_exact(n);
    return tab[n];
}

static bool
is_prefix(const unsigned char *p, size_t n)
{
    for (size_t i = 0; i < n; ++i)
        if (p[i] != STREAM(i))
            return false;
    return true;
}

static const char *
hexs(const unsigned char *p, size_t n)
{
    static char buf[3 * 24 + 8];
    size_t l = 0;
    buf[0] = 0;
    for (size_t i = 0; i < n && i < 24; ++i) {
        if (p == SNK.got && SNK.unsourced[i])
            l += (size_t)snprintf(buf + l, sizeof buf - l, "%s??", i ? " " : "");
        else
            l += (size_t)snprintf(buf + l, sizeof buf - l, "%s%02x", i ? " " : "", p[i]);
    }
    return buf;
}

static bool intr_code(ssize_t rc) { return rc == -EINTR || rc == -EAGAIN; }
static bool intr_seen(ssize_t rc) { return (rc == -EINTR && E.seen_eintr) || (rc == -EAGAIN && E.seen_eagain); }

/* observation class of a run that satisfied the oracle (vacuity guard input) */
static const char *
class_ok(void)
{
    if (E.partials && (E.zeros || E.intrs))
        return "ok-after-partial-and-interruption";
    if (E.partials)
        return "ok-after-partial";
    if (E.zeros && E.intrs)
        return "ok-after-zero-and-interruption";
    if (E.zeros)
        return "ok-after-zero-return";
    if (E.intrs)
        return "ok-after-interruption";
    return "ok-default-driver";
}

static volatile ssize_t run_rc;

static const char *
run_case(const struct impl *im, const struct casep *c, bool *nontrivial)
{
    const int op = c->op;
    const bool invalid_n = (op == OP_GET_CHUNK || op == OP_PUT_CHUNK) && (c->n == 0 || c->n > SSIZE_MAX);
    const size_t nsmall = (c->n > LONG_N) ? 1 : c->n; /* block size for buffers */

    memset(&E, 0, sizeof E);
    memset(&SRC, 0, sizeof SRC);
    memset(&SNK, 0, sizeof SNK);
    SRC.octet = c->src_octet;
    SRC.script = c->long_src ? c->long_src : c->s_src;
    SRC.slen = c->slen_src;
    SNK.is_sink = true;
    SNK.octet = c->snk_octet;
    SNK.script = c->long_snk ? c->long_snk : c->s_snk;
    SNK.slen = c->slen_snk;
    /* (the at-most plumbing is also run with n up to SIZE_MAX: what can be moved is bounded by the stream then) */
    const size_t ncap = (op == OP_ATMOST || op == OP_ATMOST_AUX) && c->n > c->L ? c->L : c->n;
    const size_t work = op_one_sided(op) ? nsmall : (op_counted(op) || op == OP_ATMOST || op == OP_ATMOST_AUX) ? (ncap > c->L ? ncap : c->L) : c->L;
    E.two_sided = !op_one_sided(op);
    SRC.total = op_one_sided(op) ? UNBOUNDED : c->L;
    SRC.budget = c->slen_src + 2 * (int)work + 8;
    SNK.budget = c->slen_snk + 2 * (int)work + 8;

    Source source;
    Sink sink;
    if (SRC.octet)
        octet_source_init(&source, cb_octet_source, &SRC);
    else
        chunk_source_init(&source, cb_chunk_source, &SRC);
    if (SNK.octet)
        octet_sink_init(&sink, cb_octet_sink, &SNK);
    else
        chunk_sink_init(&sink, cb_chunk_sink, &SNK);

    unsigned char *dst = NULL, *from = NULL;
    ByteBuffer aux;
    memset(&aux, 0, sizeof aux);
    if (op_is_get(op)) {
        dst = block(blk_dst, op == OP_GET_OCTET ? 1 : nsmall);
        memset(dst, 0xee, op == OP_GET_OCTET ? 1 : nsmall);
    } else if (op_one_sided(op)) {
        from = block(blk_src, op == OP_PUT_OCTET ? 1 : nsmall);
        for (size_t i = 0; i < (op == OP_PUT_OCTET ? 1 : nsmall); ++i)
            from[i] = STREAM(i);
    }
    if (op_aux(op)) {
        unsigned char *mem = block(blk_aux, (size_t)c->size);
        for (int i = 0; i < c->size; ++i)
            mem[i] = (unsigned char)(0xe0 + i);
        aux.data = mem;
        aux.size = (size_t)c->size;
        aux.used = (size_t)c->used;
        aux.offset = (size_t)c->off;
        E.aux = mem;
        E.aux_size = (size_t)c->size;
        E.aux_off = (size_t)c->off;
        E.aux_used = (size_t)c->used;
        E.aux_strict = (op == OP_SOME_AUX || op == OP_ATMOST_AUX);
    }

    run_rc = 0;
    if (setjmp(E.jb) == 0) {
        ssize_t rc = 0;
        switch (op) {
        case OP_GET_CHUNK: rc = im->get_chunk(&source, dst, c->n); break;
        case OP_PUT_CHUNK: rc = im->put_chunk(&sink, from, c->n); break;
        case OP_GET_ATMOST: rc = im->get_atmost(&source, dst, c->n); break;
        case OP_PUT_ATMOST: rc = im->put_atmost(&sink, from, c->n); break;
        case OP_GET_OCTET: rc = im->get_octet(&source, dst); break;
        case OP_PUT_OCTET: rc = im->put_octet(&sink, from[0]); break;
        case OP_CBC: rc = im->cbc(&source, &sink); break;
        case OP_SOME: rc = im->some(&source, &sink); break;
        case OP_ATMOST: rc = im->atmost(&source, &sink, c->n); break;
        case OP_N_CBC: rc = im->n_cbc(&source, &sink, c->n); break;
        case OP_N: rc = im->n(&source, &sink, c->n); break;
        case OP_DRAIN_CBC: rc = im->drain_cbc(&source, &sink); break;
        case OP_DRAIN: rc = im->drain(&source, &sink); break;
        case OP_SOME_AUX: rc = im->some_aux(&source, &sink, &aux); break;
        case OP_ATMOST_AUX: rc = im->atmost_aux(&source, &sink, &aux, c->n); break;
        case OP_N_AUX: rc = im->n_aux(&source, &sink, &aux, c->n); break;
        case OP_DRAIN_AUX: rc = im->drain_aux(&source, &sink, &aux); break;
        }
        run_rc = rc;
    }
    const ssize_t rc = run_rc;
    if (!quiet)
        mc_trans(1 + SRC.calls + SNK.calls);

    mc_log("returned %zd; source: %d calls, %zu octets handed out%s; sink: %d calls, %zu octets",
           rc, SRC.calls, SRC.next, SRC.ended ? ", end reached" : "", SNK.calls, SNK.ngot);
    if (dst)
        mc_log_hex("destination", dst, op == OP_GET_OCTET ? 1 : nsmall);
    mc_log("sink[%zu]: %s", SNK.ngot, hexs(SNK.got, SNK.ngot));
    if (op_aux(op))
        mc_log_hex("aux", E.aux, E.aux_size);

    *nontrivial = (E.partials + E.zeros + E.intrs + E.hards + E.ends) > 0;

    /* ---- every form: bounded number of driver calls ---- */
    if (E.over || E.jumped) {
        report("C17/hang", "%s kept calling its driver: source %d calls (budget %d), sink %d calls (budget %d)%s",
               OPNAME[op], SRC.calls, SRC.budget, SNK.calls, SNK.budget,
               E.jumped ? ", did not stop on the driver's error either" : "");
        *nontrivial = true;
        return "hang";
    }
    if (E.aux_bad) {
        report("C17/aux-region", "driver was handed %zu octets at offset %ld of an auxiliary buffer (offset=%zu used=%zu size=%zu)",
               E.aux_bad_len, E.aux_bad_off, E.aux_off, E.aux_used, E.aux_size);
        return "aux-region";
    }
    if (op_aux(op) && E.absurd) {
        report("C17/aux-region", "a driver was asked for %zu octets at once through an auxiliary buffer of %zu octets (offset=%zu used=%zu)",
               E.absurd_asked, E.aux_size, E.aux_off, E.aux_used);
        return "aux-region";
    }
    if (op_aux(op) && (op == OP_SOME_AUX || op == OP_ATMOST_AUX)) {
        for (int i = 0; i < c->off; ++i)
            if (E.aux[i] != (unsigned char)(0xe0 + i)) {
                report("C17/aux-region", "octet %d in front of offset %d of the auxiliary buffer changed to %02x",
                       i, c->off, E.aux[i]);
                return "aux-region";
            }
    }

    /* ---- one-sided exact forms ---- */
    if (op == OP_GET_CHUNK || op == OP_PUT_CHUNK) {
        const bool get = (op == OP_GET_CHUNK);
        const size_t moved = get ? SRC.next : SNK.ngot;
        const int calls = get ? SRC.calls : SNK.calls;
        if (invalid_n) {
            *nontrivial = true;
            if (rc >= 0)
                report("C17/invalid-refused", "count %zu accepted: returned %zd", c->n, rc);
            else if (calls > 0)
                report("C17/invalid-refused", "count %zu refused (%zd) but the driver was called %d times", c->n, rc, calls);
            return "invalid-refused";
        }
        if (!get && (SNK.got_overflow || SNK.ngot > c->n || memcmp(SNK.got, from, SNK.ngot) != 0)) {
            report("C17/in-order", "sink received [%s], not a prefix of the %zu octets written", hexs(SNK.got, SNK.ngot), c->n);
            return "violation";
        }
        if (E.first_hard != 0) {
            if (rc != E.first_hard)
                report("C17/hard-error-unchanged", "driver answered %d, %s returned %zd", E.first_hard, OPNAME[op], rc);
            return "hard-error";
        }
        if (rc != (ssize_t)c->n) {
            if (intr_code(rc))
                report("C17/retry-interruptions", "%s(N=%zu) returned %zd instead of retrying", OPNAME[op], c->n, rc);
            else
                report("C17/exact-count", "%s(N=%zu) returned %zd", OPNAME[op], c->n, rc);
            return "violation";
        }
        if (moved != c->n) {
            report(get ? "C17/source-advance" : "C17/in-order", "%s(N=%zu) returned %zd but %zu octets %s", OPNAME[op],
                   c->n, rc, moved, get ? "were taken from the source" : "reached the sink");
            return "violation";
        }
        if (get && !is_prefix(dst, c->n)) {
            report("C17/in-order", "destination holds [%s], not the next %zu octets of the stream", hexs(dst, c->n), c->n);
            return "violation";
        }
        return class_ok();
    }

    /* ---- one-sided at-most forms (octet access = at most 1) ---- */
    if (op_one_sided(op)) {
        const bool get = op_is_get(op);
        const size_t asked = (op == OP_GET_OCTET || op == OP_PUT_OCTET) ? 1u : c->n;
        const size_t moved = get ? SRC.next : SNK.ngot;
        const int calls = get ? SRC.calls : SNK.calls;
        if (moved > asked || (rc > 0 && (size_t)rc > asked)) {
            report("C17/atmost-bound", "%s asked for at most %zu: %zu moved, returned %zd", OPNAME[op], asked, moved, rc);
            return "violation";
        }
        if (get ? !is_prefix(dst, moved) : memcmp(SNK.got, from, moved) != 0) {
            report("C17/in-order", "%s: the %zu octets moved are [%s], not the next octets of the stream", OPNAME[op],
                   moved, hexs(get ? dst : SNK.got, moved));
            return "violation";
        }
        if (rc >= 0) {
            /* "never move more than asked and return the count actually moved": a
             * hard answer (the stream's end or a driver error) that follows some
             * progress may be reported as the short positive count, as read(2) and
             * write(2) do; with nothing moved the error itself is owed */
            if (E.first_hard != 0 && moved == 0) {
                report("C17/hard-error-unchanged", "driver answered %d, %s moved nothing and returned %zd", E.first_hard, OPNAME[op], rc);
                return "violation";
            }
            if ((size_t)rc != moved) {
                report("C17/atmost-count", "%s(at most %zu) returned %zd but moved %zu octets", OPNAME[op], asked, rc, moved);
                return "violation";
            }
            if (asked == 0)
                return "atmost-zero";
            return moved == asked ? ((E.zeros || E.intrs) ? "atmost-full-after-interruption" : "atmost-full") : "atmost-short";
        }
        if (asked == 0 && calls == 0)
            return "atmost-zero";
        if (E.first_hard != 0) {
            if (rc != E.first_hard)
                report("C17/hard-error-unchanged", "driver answered %d, %s returned %zd", E.first_hard, OPNAME[op], rc);
            return "hard-error";
        }
        if (intr_code(rc) && intr_seen(rc)) {
            if (moved != 0)
                report("C17/atmost-count", "%s reported the interruption %zd after moving %zu octets", OPNAME[op], rc, moved);
            return "atmost-interrupted";
        }
        report("C17/atmost-count", "%s returned %zd, which no driver answered (%zu octets moved)", OPNAME[op], rc, moved);
        return "violation";
    }

    /* ---- plumbing: what reached the sink is a prefix of the stream ---- */
    if (SNK.got_overflow || SNK.ngot > SRC.next || !is_prefix(SNK.got, SNK.ngot)) {
        report("C17/sink-prefix", "source handed out %zu octets, sink received [%s]%s%s", SRC.next,
               hexs(SNK.got, SNK.ngot), SNK.got_overflow ? "..." : "",
               SNK.ngot > SRC.next ? " (?? = an octet the source never handed out)" : "");
        return "violation";
    }

    if (op_drain(op)) {
        /* plumbing: "when it fails, an error is returned" -- which one is not
         * said (the "returned unchanged" sentence is about reading or writing N
         * octets through one endpoint).  A drain that went on after a driver's
         * hard answer (an at-most step below it may have reported the short
         * count instead) and moved the whole stream did not fail. */
        if (E.first_scripted_hard != 0 && !(SNK.ngot == c->L && SRC.next == c->L)) {
            if (rc >= 0)
                report("C17/failure-is-error", "driver answered %d, %s stopped after %zu of %zu octets and returned %zd",
                       E.first_scripted_hard, OPNAME[op], SNK.ngot, c->L, rc);
            return "drain-hard-error";
        }
        if (SNK.ngot != c->L || SRC.next != c->L) {
            if (intr_code(rc))
                report("C17/retry-interruptions", "%s stopped with %zd after %zu of %zu octets", OPNAME[op], rc, SNK.ngot, c->L);
            else
                report("C17/drain-complete", "%s returned %zd with %zu of %zu octets in the sink (%zu taken from the source)",
                       OPNAME[op], rc, SNK.ngot, c->L, SRC.next);
            return "violation";
        }
        if (c->L == 0)
            return "drain-empty";
        if (E.first_scripted_hard != 0)
            return "drain-complete-after-hard-answer";
        return (E.partials || E.zeros || E.intrs) ? "drain-complete-after-deviation" : "drain-complete";
    }

    if (op_counted(op)) {
        if (SNK.ngot > c->n || SRC.next > c->n) {
            report("C17/exact-count", "%s(n=%zu) took %zu octets from the source and put %zu into the sink", OPNAME[op],
                   c->n, SRC.next, SNK.ngot);
            return "violation";
        }
        if (c->n == 0) {
            if (rc > 0)
                report("C17/exact-count", "%s(n=0) returned %zd", OPNAME[op], rc);
            return "zero-count";
        }
        /* plumbing: "moves exactly the requested count ...; when it fails, an
         * error is returned" (any error).  After a hard answer a negative
         * return is the failure report; a non-negative one is only right if the
         * call did not fail after all, i.e. passes the success clauses below */
        if (E.first_hard != 0 && rc < 0)
            return E.first_hard == -ENODATA && E.first_scripted_hard == 0 ? "source-end" : "hard-error";
        if (E.first_hard != 0 && !(rc == (ssize_t)c->n && SNK.ngot == c->n && SRC.next == c->n)) {
            report("C17/failure-is-error", "driver answered %d, %s(n=%zu) returned %zd with %zu octets in the sink (%zu taken from the source)",
                   E.first_hard, OPNAME[op], c->n, rc, SNK.ngot, SRC.next);
            return "violation";
        }
        if (rc != (ssize_t)c->n) {
            if (intr_code(rc))
                report("C17/retry-interruptions", "%s(n=%zu) returned %zd instead of retrying (%zu octets in the sink)",
                       OPNAME[op], c->n, rc, SNK.ngot);
            else
                report("C17/exact-count", "%s(n=%zu) returned %zd (%zu octets in the sink)", OPNAME[op], c->n, rc, SNK.ngot);
            return "violation";
        }
        if (SNK.ngot != c->n) {
            report("C17/exact-count", "%s(n=%zu) returned %zd but %zu octets reached the sink", OPNAME[op], c->n, rc, SNK.ngot);
            return "violation";
        }
        if (SRC.next != c->n) {
            report("C17/source-advance", "%s(n=%zu) took %zu octets from the source", OPNAME[op], c->n, SRC.next);
            return "violation";
        }
        if (E.first_hard != 0)
            return "ok-after-hard-answer";
        return class_ok();
    }

    /* at-most style plumbing: sts_cbc, sts_some, sts_atmost, sts_some_aux, sts_atmost_aux */
    {
        const bool bounded = (op == OP_CBC || op == OP_ATMOST || op == OP_ATMOST_AUX);
        const size_t bound = (op == OP_CBC) ? 1u : c->n;
        if (bounded && (SNK.ngot > bound || SRC.next > bound)) {
            report("C17/atmost-bound", "%s asked for at most %zu: %zu taken from the source, %zu put into the sink",
                   OPNAME[op], bound, SRC.next, SNK.ngot);
            return "violation";
        }
        if (rc >= 0) {
            /* a hard answer after some progress may be reported as the short
             * positive count (whichever answer it was); with nothing in the sink
             * the call failed and "an error is returned" */
            if (E.first_hard != 0 && SNK.ngot == 0) {
                report("C17/failure-is-error", "driver answered %d, nothing reached the sink, %s returned %zd", E.first_hard, OPNAME[op], rc);
                return "violation";
            }
            if ((size_t)rc != SNK.ngot) {
                report("C17/atmost-count", "%s returned %zd but %zu octets reached the sink", OPNAME[op], rc, SNK.ngot);
                return "violation";
            }
            if (SRC.next != SNK.ngot) {
                report("C17/no-loss", "%s returned %zd: %zu octets taken from the source, %zu reached the sink",
                       OPNAME[op], rc, SRC.next, SNK.ngot);
                return "violation";
            }
            if (bounded && c->n >= (size_t)SSIZE_MAX - 1u)
                return rc == 0 ? "plumb-moved-none" : "atmost-wide-n-moved";
            return rc == 0 ? "plumb-moved-none" : class_ok();
        }
        if (E.first_hard != 0) /* "when it fails, an error is returned": any negative code */
            return E.first_hard == -ENODATA && E.first_scripted_hard == 0 ? "source-end" : "hard-error";
        if (intr_code(rc) && intr_seen(rc)) {
            if (SRC.next != SNK.ngot)
                report("C17/no-loss", "%s passed on the interruption %zd after taking %zu octets from the source (%zu reached the sink)",
                       OPNAME[op], rc, SRC.next, SNK.ngot);
            return "plumb-interrupted";
        }
        /* A count beyond SSIZE_MAX: the statement's "refused as invalid" is said
         * of the exact forms; an at-most form may serve such a count (it can
         * never move that much) or refuse it, as long as nothing is lost. */
        if (bounded && c->n > (size_t)SSIZE_MAX && SRC.next == SNK.ngot)
            return "atmost-wide-n-refused";
        report("C17/atmost-count", "%s returned %zd, which no driver answered", OPNAME[op], rc);
        return "violation";
    }
}

/* ------------------------------------------------------------------------ */
/* enumeration                                                              */

static const struct impl *SUBJECT = &IMPL_UFW;

static void
script_str(char *out, size_t n, const uint8_t *s, int len)
{
    size_t l = 0;
    out[0] = 0;
    for (int i = 0; i < len && l + 8 < n; ++i)
        l += (size_t)snprintf(out + l, n - l, "%s%s", i ? " " : "", BEH_TOK[s[i]]);
}

static void
emit(const struct casep *c, int d)
{
    if (!mc_would_run()) {
        mc_skip_case();
        return;
    }
    char a[96], b[96];
    if (c->long_src) {
        script_str(a, sizeof a - 16, c->long_src, c->period_src);
        snprintf(a + strlen(a), 16, " ...x%d", c->slen_src / c->period_src);
    } else {
        script_str(a, sizeof a, c->s_src, c->slen_src);
    }
    if (c->long_snk) {
        script_str(b, sizeof b - 16, c->long_snk, c->period_snk);
        snprintf(b + strlen(b), 16, " ...x%d", c->slen_snk / c->period_snk);
    } else {
        script_str(b, sizeof b, c->s_snk, c->slen_snk);
    }
    bool run;
    char layer[32];
    if (c->long_src || c->long_snk)
        snprintf(layer, sizeof layer, "long period<=%d", d);
    else
        snprintf(layer, sizeof layer, "dev=%d", d);
    if (op_one_sided(c->op)) {
        const bool get = op_is_get(c->op);
        char nbuf[32];
        if (c->n > SSIZE_MAX)
            snprintf(nbuf, sizeof nbuf, "SSIZE_MAX+1");
        else
            snprintf(nbuf, sizeof nbuf, "%zu", c->n);
        run = mc_case("%s op=%s driver=%s N=%s script=[%s]", layer, OPNAME[c->op],
                      (get ? c->src_octet : c->snk_octet) ? "octet" : "chunk", nbuf, get ? a : b);
    } else if (op_aux(c->op)) {
        run = mc_case("%s op=%s source=%s sink=%s n=%zu stream=%zu aux=(offset=%d,used=%d,size=%d) src=[%s] snk=[%s]",
                      layer, OPNAME[c->op], c->src_octet ? "octet" : "chunk", c->snk_octet ? "octet" : "chunk", c->n, c->L,
                      c->off, c->used, c->size, a, b);
    } else {
        run = mc_case("%s op=%s source=%s sink=%s n=%zu stream=%zu src=[%s] snk=[%s]", layer, OPNAME[c->op],
                      c->src_octet ? "octet" : "chunk", c->snk_octet ? "octet" : "chunk", c->n, c->L, a, b);
    }
    if (!run)
        return;
    bool nontrivial = false;
    const char *outcome = run_case(SUBJECT, c, &nontrivial);
    mc_end(nontrivial || mc.cur_failed, outcome);
}

/* all placements of exactly d deviations over the slots of a case, each with
 * every deviating behaviour of that slot's driver.  Slots 0..ns-1 belong to
 * the source script, ns..ns+nk-1 to the sink script.  When d > d_any only the
 * first `prefix` slots of a (one-sided) script may deviate. */
struct en {
    struct casep *c;
    int ns, nk;
    const uint8_t *dev_src, *dev_snk;
    int ndev_src, ndev_snk;
    int d, prefix;
    void (*leaf)(const struct casep *, int);
};

static void
en_rec(struct en *e, int start, int remaining)
{
    if (remaining == 0) {
        e->leaf(e->c, e->d);
        return;
    }
    const int nslots = e->ns + e->nk;
    for (int pos = start; pos + remaining <= nslots; ++pos) {
        if (e->prefix > 0 && pos >= e->prefix)
            break;
        const bool src = pos < e->ns;
        uint8_t *slot = src ? &e->c->s_src[pos] : &e->c->s_snk[pos - e->ns];
        const uint8_t *alpha = src ? e->dev_src : e->dev_snk;
        const int na = src ? e->ndev_src : e->ndev_snk;
        for (int k = 0; k < na; ++k) {
            *slot = alpha[k];
            en_rec(e, pos + 1, remaining - 1);
        }
        *slot = B_REST;
    }
}

static void
enumerate(struct casep *c, int d, int prefix, void (*leaf)(const struct casep *, int))
{
    struct en e;
    memset(&e, 0, sizeof e);
    e.c = c;
    e.ns = c->slen_src;
    e.nk = c->slen_snk;
    e.dev_src = c->src_octet ? DEV_OCTET_SRC : DEV_CHUNK_SRC;
    e.ndev_src = c->src_octet ? (int)sizeof DEV_OCTET_SRC : (int)sizeof DEV_CHUNK_SRC;
    e.dev_snk = c->snk_octet ? DEV_OCTET_SNK : DEV_CHUNK_SNK;
    e.ndev_snk = c->snk_octet ? (int)sizeof DEV_OCTET_SNK : (int)sizeof DEV_CHUNK_SNK;
    e.d = d;
    e.prefix = prefix;
    e.leaf = leaf;
    memset(c->s_src, B_REST, sizeof c->s_src);
    memset(c->s_snk, B_REST, sizeof c->s_snk);
    en_rec(&e, 0, d);
}

struct auxcfg { int off, used, size; };
/* 0 <= offset < used < size <= 4 (and one of 5 octets with offset 2, so that
 * offset and region length can be told apart): the octets [offset,used) and the free octets
 * [used,size) are both non-empty, whichever of the two an implementation
 * takes to be the region it may use.  The first `aux_deep` geometries of a
 * tier are explored to the full deviation bound, the others to one less. */
static const struct auxcfg AUX_QUICK[] = { { 0, 2, 3 }, { 1, 3, 4 }, { 0, 1, 2 }, { 0, 1, 3 }, { 2, 4, 5 }, { 2, 4, 6 } };
static const struct auxcfg AUX_THOROUGH[] = { { 0, 2, 3 }, { 1, 3, 4 }, { 0, 1, 2 }, { 0, 3, 4 }, { 0, 1, 3 }, { 1, 2, 3 }, { 2, 4, 5 }, { 2, 4, 6 } };

struct tier {
    int one_len;        /* one-sided: script slots */
    int one_full;       /* every script over the first one_full slots ... */
    int one_dany;       /* ... plus every placement of <= one_dany deviations over all slots */
    int two_d;          /* two-sided: deviations in total over 6 + 6 slots */
    const size_t *counts; int ncounts;     /* n of the counted forms */
    const size_t *lengths; int nlengths;   /* stream lengths of the drain forms */
    const size_t *atmost; int natmost;     /* n of sts_atmost_aux */
    const size_t *shorts; int nshorts;     /* counts also run on a stream that ends one octet early */
    const struct auxcfg *aux; int naux, aux_deep;
};

static const size_t Q_COUNTS[] = { 0, 1, 2, 3, 6 }, Q_LENGTHS[] = { 0, 1, 3, 5 }, Q_ATMOST[] = { 1, 2, 3 }, Q_SHORTS[] = { 2 };
static const size_t T_COUNTS[] = { 0, 1, 2, 3, 4, 5, 6 }, T_LENGTHS[] = { 0, 1, 2, 3, 4, 5, 6 }, T_ATMOST[] = { 1, 2, 3, 5 },
                    T_SHORTS[] = { 2, 5 };
static const struct tier QUICK = { SLOTS_ONE, 5, 3, 3, Q_COUNTS, 5, Q_LENGTHS, 4, Q_ATMOST, 3, Q_SHORTS, 1, AUX_QUICK, 6, 2 };
static const struct tier THOROUGH = { SLOTS_ONE, 6, 4, 4, T_COUNTS, 7, T_LENGTHS, 7, T_ATMOST, 4, T_SHORTS, 2, AUX_THOROUGH, 8, 4 };

static void
one_sided_layer(const struct tier *t, int d, void (*leaf)(const struct casep *, int))
{
    struct casep c;
    for (int op = OP_GET_CHUNK; op <= OP_PUT_OCTET; ++op) {
        const bool get = op_is_get(op);
        const bool exact = (op == OP_GET_CHUNK || op == OP_PUT_CHUNK);
        const bool octet_access = (op == OP_GET_OCTET || op == OP_PUT_OCTET);
        for (int kind = 0; kind < 2; ++kind) {
            memset(&c, 0, sizeof c);
            c.op = op;
            c.src_octet = c.snk_octet = (kind == 0);
            c.slen_src = get ? t->one_len : 0;
            c.slen_snk = get ? 0 : t->one_len;
            if (octet_access) {
                /* one driver call: the first slot is the whole script */
                if (d > 1)
                    continue;
                c.n = 1;
                if (get) c.slen_src = 1; else c.slen_snk = 1;
                enumerate(&c, d, 0, leaf);
                continue;
            }
            if (exact && d == 0) {
                /* refused without a driver call: the script is irrelevant */
                c.n = 0;
                enumerate(&c, 0, 0, leaf);
                c.n = (size_t)SSIZE_MAX + 1u;
                enumerate(&c, 0, 0, leaf);
            }
            if (!exact && d <= 1) {
                c.n = 0;
                enumerate(&c, d, 0, leaf);
            }
            for (size_t n = 1; n <= 6; ++n) {
                c.n = n;
                if (d <= t->one_dany)
                    enumerate(&c, d, 0, leaf);
                else if (exact && d <= t->one_full)
                    enumerate(&c, d, t->one_full, leaf);
            }
        }
    }
}

static void
two_sided_layer(const struct tier *t, int d, void (*leaf)(const struct casep *, int))
{
    if (d > t->two_d)
        return;
    struct casep c;
    for (int op = OP_CBC; op < OP__N; ++op) {
        const int ncfg = op_aux(op) ? t->naux : 1;
        for (int ci = 0; ci < ncfg; ++ci) {
            if (op_aux(op) && ci >= t->aux_deep && d > t->two_d - 1)
                continue;
            const size_t *ns;
            int nn;
            static const size_t one[] = { 1 }, two[] = { 1, 2 };
            if (op_counted(op)) { ns = t->counts; nn = t->ncounts; }
            else if (op_drain(op)) { ns = t->lengths; nn = t->nlengths; }
            else if (op == OP_ATMOST) { ns = two; nn = 2; }
            else if (op == OP_ATMOST_AUX) { ns = t->atmost; nn = t->natmost; }
            else { ns = one; nn = 1; }
            for (int ni = 0; ni < nn; ++ni) {
                if ((op_counted(op) || op_drain(op)) && ns[ni] == 0 && d > 1)
                    continue; /* nothing to move: no driver call for a script to steer */
                for (int sk = 0; sk < 2; ++sk)
                    for (int kk = 0; kk < 2; ++kk) {
                        memset(&c, 0, sizeof c);
                        c.op = op;
                        c.src_octet = (sk == 0);
                        c.snk_octet = (kk == 0);
                        c.slen_src = c.slen_snk = SLOTS_SIDE;
                        if (op_aux(op)) {
                            c.off = t->aux[ci].off;
                            c.used = t->aux[ci].used;
                            c.size = t->aux[ci].size;
                        }
                        if (op_drain(op)) {
                            c.n = 0;
                            c.L = ns[ni];
                        } else if (op_counted(op)) {
                            c.n = ns[ni];
                            c.L = c.n + 2; /* reading ahead is visible */
                        } else {
                            c.n = (op == OP_ATMOST || op == OP_ATMOST_AUX) ? ns[ni] : 0;
                            c.L = 6;
                        }
                        enumerate(&c, d, 0, leaf);
                        for (int si = 0; op_counted(op) && si < t->nshorts; ++si)
                            if (t->shorts[si] == c.n) {
                                /* the source ends before the requested count */
                                c.L = c.n - 1;
                                enumerate(&c, d, 0, leaf);
                            }
                    }
            }
        }
    }
}

/* at-most plumbing with counts on the boundary family up to SIZE_MAX ("no
 * limit" spelled (size_t)-1, SSIZE_MAX and its neighbours, SIZE_MAX - k for
 * every k up to the largest offset) on every auxiliary geometry
 * 0 <= offset < used < size <= 6: an end position computed as offset + n wraps
 * exactly when n > SIZE_MAX - offset.  The stream is longer than the buffer, so
 * that moving more than the region shows. */
static void
wide_n_family(int dmax, void (*leaf)(const struct casep *, int))
{
    static const size_t NW[] = { (size_t)SSIZE_MAX - 1u, (size_t)SSIZE_MAX, (size_t)SSIZE_MAX + 1u, (size_t)SSIZE_MAX + 2u,
                                 SIZE_MAX - 6u, SIZE_MAX - 5u, SIZE_MAX - 4u, SIZE_MAX - 3u, SIZE_MAX - 2u, SIZE_MAX - 1u,
                                 SIZE_MAX };
    struct casep c;
    for (int d = 0; d <= dmax; ++d)
        for (int size = 2; size <= 6; ++size)
            for (int used = 1; used < size; ++used)
                for (int off = 0; off < used; ++off)
                    for (size_t ni = 0; ni < sizeof NW / sizeof *NW; ++ni)
                        for (int sk = 0; sk < 2; ++sk)
                            for (int kk = 0; kk < 2; ++kk) {
                                memset(&c, 0, sizeof c);
                                c.op = OP_ATMOST_AUX;
                                c.src_octet = (sk == 0);
                                c.snk_octet = (kk == 0);
                                c.slen_src = c.slen_snk = SLOTS_SIDE;
                                c.off = off;
                                c.used = used;
                                c.size = size;
                                c.n = NW[ni];
                                c.L = (size_t)size + 3u;
                                enumerate(&c, d, 0, leaf);
                            }
    /* the same counts through sts_atmost (no auxiliary buffer) */
    for (int d = 0; d <= dmax; ++d)
        for (size_t ni = 0; ni < sizeof NW / sizeof *NW; ++ni)
            for (int sk = 0; sk < 2; ++sk)
                for (int kk = 0; kk < 2; ++kk) {
                    memset(&c, 0, sizeof c);
                    c.op = OP_ATMOST;
                    c.src_octet = (sk == 0);
                    c.snk_octet = (kk == 0);
                    c.slen_src = c.slen_snk = SLOTS_SIDE;
                    c.n = NW[ni];
                    c.L = 6;
                    enumerate(&c, d, 0, leaf);
                }
}

/* ------------------------------------------------------------------------ */
/* long transfers under periodic scripts (the structured stand-in for the   */
/* property's "random long transfers with random scripts")                   */

static uint8_t long_a[LONG_SLOTS], long_b[LONG_SLOTS];

/* next pattern of length p over REST + the deviating alphabet, as an odometer
 * state in digit[]; returns false after the last one */
static bool
pattern_next(int *digit, int p, int base)
{
    for (int i = p - 1; i >= 0; --i) {
        if (++digit[i] < base)
            return true;
        digit[i] = 0;
    }
    return false;
}

/* fills script with the pattern repeated; false if no behaviour in it is
 * certain to make progress (such a driver stalls forever: not in the alphabet) */
static bool
pattern_fill(uint8_t *script, const int *digit, int p, const uint8_t *dev, int ndev)
{
    bool progress = false;
    for (int i = 0; i < LONG_SLOTS; ++i) {
        const int dg = digit[i % p];
        script[i] = dg == 0 ? B_REST : dev[dg - 1];
        progress |= (script[i] == B_REST || script[i] == B_ONE || script[i] == B_TWO);
    }
    (void)ndev;
    return progress;
}

static void
long_family(int maxperiod_one, int maxperiod_two, void (*leaf)(const struct casep *, int))
{
    struct casep c;
    const int slots = LONG_SLOTS - LONG_SLOTS % 12; /* a multiple of every period <= 4 */
    /* one driver */
    for (int p = 1; p <= maxperiod_one; ++p)
        for (int op = OP_GET_CHUNK; op <= OP_PUT_CHUNK; ++op)
            for (int kind = 0; kind < 2; ++kind) {
                const bool get = (op == OP_GET_CHUNK);
                const uint8_t *dev = get ? (kind == 0 ? DEV_OCTET_SRC : DEV_CHUNK_SRC) : (kind == 0 ? DEV_OCTET_SNK : DEV_CHUNK_SNK);
                const int ndev = get ? (kind == 0 ? (int)sizeof DEV_OCTET_SRC : (int)sizeof DEV_CHUNK_SRC)
                                     : (kind == 0 ? (int)sizeof DEV_OCTET_SNK : (int)sizeof DEV_CHUNK_SNK);
                int digit[4] = { 0, 0, 0, 0 };
                do {
                    if (!pattern_fill(long_a, digit, p, dev, ndev))
                        continue;
                    memset(&c, 0, sizeof c);
                    c.op = op;
                    c.src_octet = c.snk_octet = (kind == 0);
                    c.n = LONG_N;
                    if (get) { c.long_src = long_a; c.slen_src = slots; c.period_src = p; }
                    else { c.long_snk = long_a; c.slen_snk = slots; c.period_snk = p; }
                    leaf(&c, p);
                } while (pattern_next(digit, p, ndev + 1));
            }
    /* two drivers */
    static const int ops[] = { OP_N_CBC, OP_N, OP_N_AUX, OP_DRAIN_CBC, OP_DRAIN_AUX };
    for (int p = 1; p <= maxperiod_two; ++p)
        for (int q = 1; q <= maxperiod_two; ++q)
            for (int oi = 0; oi < 5; ++oi)
                for (int sk = 0; sk < 2; ++sk)
                    for (int kk = 0; kk < 2; ++kk) {
                        const uint8_t *dsrc = sk == 0 ? DEV_OCTET_SRC : DEV_CHUNK_SRC;
                        const int nsrc = sk == 0 ? (int)sizeof DEV_OCTET_SRC : (int)sizeof DEV_CHUNK_SRC;
                        const uint8_t *dsnk = kk == 0 ? DEV_OCTET_SNK : DEV_CHUNK_SNK;
                        const int nsnk = kk == 0 ? (int)sizeof DEV_OCTET_SNK : (int)sizeof DEV_CHUNK_SNK;
                        int da[4] = { 0, 0, 0, 0 };
                        do {
                            if (!pattern_fill(long_a, da, p, dsrc, nsrc))
                                continue;
                            int db[4] = { 0, 0, 0, 0 };
                            do {
                                if (!pattern_fill(long_b, db, q, dsnk, nsnk))
                                    continue;
                                memset(&c, 0, sizeof c);
                                c.op = ops[oi];
                                c.src_octet = (sk == 0);
                                c.snk_octet = (kk == 0);
                                c.long_src = long_a; c.slen_src = slots; c.period_src = p;
                                c.long_snk = long_b; c.slen_snk = slots; c.period_snk = q;
                                if (op_drain(c.op)) {
                                    c.L = LONG_N;
                                } else {
                                    c.n = LONG_N;
                                    c.L = LONG_N + 2;
                                }
                                if (c.op == OP_N_AUX) { c.off = 0; c.used = 2; c.size = 3; }
                                if (c.op == OP_DRAIN_AUX) { c.off = 1; c.used = 3; c.size = 4; }
                                leaf(&c, p > q ? p : q);
                            } while (pattern_next(db, q, nsnk + 1));
                        } while (pattern_next(da, p, nsrc + 1));
                    }
}

/* ------------------------------------------------------------------------ */
/* part C: the library's own endpoints (buffer.c, trivial.c) as drivers     */

static unsigned char *
stream_block(size_t n)
{
    unsigned char *p = mc_exact(n);
    for (size_t i = 0; i < n; ++i)
        p[i] = STREAM(i);
    return p;
}

enum cop { C_GET_CHUNK, C_GET_ATMOST, C_N_CBC, C_N, C_N_AUX, C_DRAIN_CBC, C_DRAIN, C_DRAIN_AUX, C__N };
static const char *const COPNAME[] = { "source_get_chunk", "source_get_chunk_atmost", "sts_n_cbc", "sts_n", "sts_n_aux",
                                       "sts_drain_cbc", "sts_drain", "sts_drain_aux" };

/* The library's endpoints are reached through a counting pass-through driver,
 * so that a retry loop that never ends shows as C17/hang here as well.  The
 * pass-through is of the same style (octet / chunk) as the endpoint behind it
 * and records what that endpoint answered: the oracle of the at-most form holds
 * the library to its driver's answers, not to a prediction of them. */
struct wrap {
    Source *src;
    Sink *snk;
    int calls, budget;
    bool over;
    /* answers of the wrapped driver */
    int zeros;      /* calls answered 0 */
    int first_neg;  /* first negative answer (0: none) */
    size_t moved;   /* sum of the positive answers */
};

static void
wrap_note(struct wrap *w, ssize_t rc)
{
    if (rc == 0)
        w->zeros++;
    else if (rc < 0 && w->first_neg == 0)
        w->first_neg = (int)rc;
    else if (rc > 0)
        w->moved += (size_t)rc;
}

static ssize_t
wrap_source(void *driver, void *data, size_t n)
{
    struct wrap *w = driver;
    if (++w->calls > w->budget) {
        w->over = true;
        return -EIO;
    }
    const ssize_t rc = w->src->source.chunk(w->src->driver, data, n);
    wrap_note(w, rc);
    mc_log("source call %d asked=%zu -> %zd", w->calls, n, rc);
    return rc;
}

static int
wrap_source_octet(void *driver, void *data)
{
    struct wrap *w = driver;
    if (++w->calls > w->budget) {
        w->over = true;
        return -EIO;
    }
    const int rc = w->src->source.octet(w->src->driver, data);
    wrap_note(w, rc);
    mc_log("source call %d (octet) -> %d", w->calls, rc);
    return rc;
}

static ssize_t
wrap_sink(void *driver, const void *data, size_t n)
{
    struct wrap *w = driver;
    if (++w->calls > w->budget) {
        w->over = true;
        return -EIO;
    }
    const ssize_t rc = w->snk->sink.chunk(w->snk->driver, data, n);
    wrap_note(w, rc);
    mc_log("sink call %d asked=%zu -> %zd", w->calls, n, rc);
    return rc;
}

static int
wrap_sink_octet(void *driver, unsigned char c)
{
    struct wrap *w = driver;
    if (++w->calls > w->budget) {
        w->over = true;
        return -EIO;
    }
    const int rc = w->snk->sink.octet(w->snk->driver, c);
    wrap_note(w, rc);
    mc_log("sink call %d (octet) -> %d", w->calls, rc);
    return rc;
}

/* source_from_chunks over the stream cut into parts p[0..np) (np == 1 also
 * runs source_from_buffer); sink_to_buffer with room for cap octets.
 *
 * `inactive` chunks in front of the list's `active` index hold unread octets
 * that are not part of the list's stream (ByteChunks.active is where the list
 * starts: flenp_chunks_use / flenp_chunks_to_sink frame from there, and so
 * does the reader); with `lead` every chunk of the stream has one octet in
 * front of its read offset that was consumed before. */
#define REAL_MAXPARTS 5
#define REAL_MAXINACTIVE 2
static void
real_case(int cop, const size_t *p, int np, size_t n, size_t cap, bool plain_buffer, int inactive, int lead, int prefill)
{
    size_t L = 0;
    for (int i = 0; i < np; ++i)
        L += p[i];
    if (!mc_would_run()) {
        mc_skip_case();
        return;
    }
    char pd[64];
    size_t pl = 0;
    pd[0] = 0;
    for (int i = 0; i < np; ++i)
        pl += (size_t)snprintf(pd + pl, sizeof pd - pl, "%s%zu", i ? "," : "", p[i]);
    if (!mc_case("real op=%s source=%s parts=[%s]/%d inactive-chunks=%d lead=%d n=%zu sink=buffer(%zu%s)", COPNAME[cop],
                 plain_buffer ? "buffer" : "chunks", pd, np, inactive, lead, n, cap, prefill ? " free, 2 octets in it" : ""))
        return;
    const int nch = inactive + np;
    unsigned char *mem[REAL_MAXPARTS + REAL_MAXINACTIVE] = { NULL };
    ByteBuffer list[REAL_MAXPARTS + REAL_MAXINACTIVE];
    ByteBuffer *part = list + inactive;
    for (int i = 0; i < inactive; ++i) {
        /* chunk i in front of `active`: one consumed octet, i + 1 unread ones */
        const size_t sz = (size_t)i + 2u;
        mem[i] = mc_exact(sz);
        for (size_t k = 0; k < sz; ++k)
            mem[i][k] = (unsigned char)(0xa0u + 16u * (unsigned)i + k);
        list[i].data = mem[i];
        list[i].size = list[i].used = sz;
        list[i].offset = 1;
    }
    size_t at = 0;
    for (int i = 0; i < np; ++i) {
        unsigned char *m = mc_exact(p[i] + (size_t)lead);
        mem[inactive + i] = m;
        if (lead)
            m[0] = (unsigned char)(0xc0u + (unsigned)i);
        for (size_t k = 0; k < p[i]; ++k)
            m[(size_t)lead + k] = STREAM(at + k);
        at += p[i];
        part[i].data = m;
        part[i].size = part[i].used = p[i] + (size_t)lead;
        part[i].offset = (size_t)lead;
    }
    ByteChunks chunks = { (size_t)nch, (size_t)inactive, list };
    Source real_source, source;
    if (plain_buffer)
        source_from_buffer(&real_source, &part[0]);
    else
        source_from_chunks(&real_source, &chunks);
    /* with `prefill` the sink's buffer holds two octets already (one of them
     * consumed): what the sink receives is what is appended behind them */
    const size_t pre = prefill ? 2u : 0u;
    unsigned char *sinkmem = mc_exact(pre + cap);
    memset(sinkmem, 0xee, pre + cap);
    for (size_t i = 0; i < pre; ++i)
        sinkmem[i] = (unsigned char)(0xb0u + i);
    ByteBuffer sinkb = { sinkmem, pre + cap, pre, pre ? 1u : 0u };
    Sink real_sink, sink;
    sink_to_buffer(&real_sink, &sinkb);
    const int budget = 4 * (int)(L + n + cap) + 16;
    struct wrap wsrc = { &real_source, NULL, 0, budget, false, 0, 0, 0 }, wsnk = { NULL, &real_sink, 0, budget, false, 0, 0, 0 };
    /* whichever style the library gives its buffer endpoints, the pass-through has the same */
    MC_ANCHOR((real_source.kind == DATA_KIND_CHUNK || real_source.kind == DATA_KIND_OCTET)
                  && (real_sink.kind == DATA_KIND_CHUNK || real_sink.kind == DATA_KIND_OCTET),
              "buffer endpoints are octet- or chunk-style");
    if (real_source.kind == DATA_KIND_OCTET)
        octet_source_init(&source, wrap_source_octet, &wsrc);
    else
        chunk_source_init(&source, wrap_source, &wsrc);
    if (real_sink.kind == DATA_KIND_OCTET)
        octet_sink_init(&sink, wrap_sink_octet, &wsnk);
    else
        chunk_sink_init(&sink, wrap_sink, &wsnk);
    unsigned char *auxmem = mc_exact(3);
    memset(auxmem, 0xe0, 3);
    ByteBuffer aux = { auxmem, 3, 2, 0 };
    unsigned char *dst = mc_exact(n);
    memset(dst, 0xee, n);

    ssize_t rc = 0;
    switch (cop) {
    case C_GET_CHUNK: rc = source_get_chunk(&source, dst, n); break;
    case C_GET_ATMOST: rc = source_get_chunk_atmost(&source, dst, n); break;
    case C_N_CBC: rc = sts_n_cbc(&source, &sink, n); break;
    case C_N: rc = sts_n(&source, &sink, n); break;
    case C_N_AUX: rc = sts_n_aux(&source, &sink, &aux, n); break;
    case C_DRAIN_CBC: rc = sts_drain_cbc(&source, &sink); break;
    case C_DRAIN: rc = sts_drain(&source, &sink); break;
    case C_DRAIN_AUX: rc = sts_drain_aux(&source, &sink, &aux); break;
    }
    mc_trans(1);
    size_t foreign = 0;
    for (int i = 0; i < inactive; ++i)
        foreign += list[i].offset - 1u;
    /* How far the source advanced, free of how the endpoint represents its
     * position (audit 6: chunk offsets, ByteChunks.active moved past a chunk
     * that was delivered wholly, a cursor of its own ...): what the same source
     * delivers from here on, octet by octet through its own driver, has to be
     * exactly the rest of the stream; its length says where the source stands.
     * rest_bad: it is not a suffix of the stream (then `taken` means nothing). */
    size_t taken = 0;
    bool rest_bad = false;
    {
        unsigned char rest[REAL_MAXPARTS * 8 + 8];
        size_t nrest = 0;
        int idle = 0;
        const int idle_max = 2 * nch + 4; /* answers of 0 while empty chunks are stepped over */
        while (nrest < sizeof rest && idle <= idle_max) {
            unsigned char o = 0;
            const ssize_t r = real_source.kind == DATA_KIND_OCTET ? (ssize_t)real_source.source.octet(real_source.driver, &o)
                                                                  : real_source.source.chunk(real_source.driver, &o, 1);
            if (r < 0)
                break;
            if (r == 0) {
                idle++;
                continue;
            }
            idle = 0;
            rest[nrest++] = o;
        }
        if (nrest > L || idle > idle_max) {
            rest_bad = true;
        } else {
            taken = L - nrest;
            for (size_t k = 0; k < nrest; ++k)
                rest_bad |= rest[k] != STREAM(taken + k);
        }
        mc_log_hex("what the source delivers after the call", rest, nrest);
        if (rest_bad)
            mc_log("... which is not a suffix of the stream of %zu octets", L);
    }
    const bool sink_shrunk = sinkb.used < pre;
    const size_t sinkgot = sink_shrunk ? 0 : sinkb.used - pre;
    const unsigned char *sinkdata = sinkmem + pre;
    mc_log("returned %zd; %zu octets taken from the source (%zu from chunks in front of the active one), %zu appended to the sink", rc,
           taken, foreign, sinkgot);
    mc_log_hex("destination", dst, n);
    mc_log_hex("sink", sinkdata, sinkgot <= cap ? sinkgot : cap);

    const char *outcome = "real-ok";
    if (wsrc.over || wsnk.over) {
        mc_fail("C17/hang", "%s kept calling its drivers: source %d calls, sink %d calls (budget %d each)", COPNAME[cop],
                wsrc.calls, wsnk.calls, budget);
        outcome = "hang";
    } else if (rest_bad && rc >= 0) {
        /* "no loss, duplication or reordering": after a call that did not fail
         * the source goes on with the rest of the stream */
        mc_fail("C17/source-advance", "%s returned %zd; what the source delivers afterwards is not the rest of the stream (see replay)",
                COPNAME[cop], rc);
        outcome = "violation";
    } else if (cop == C_GET_CHUNK) {
        if (L >= n) {
            if (rc != (ssize_t)n)
                mc_fail("C17/exact-count", "source_get_chunk(N=%zu) on %zu octets returned %zd", n, L, rc);
            else if (!is_prefix(dst, n))
                mc_fail("C17/in-order", "destination holds [%s], not the next %zu octets", hexs(dst, n), n);
            else if (taken != n)
                mc_fail("C17/source-advance", "source advanced by %zu for N=%zu", taken, n);
            outcome = inactive ? "real-ok-behind-inactive-chunks" : np > 1 ? "real-ok-across-chunks" : "real-ok";
        } else {
            if (rc != -ENODATA)
                mc_fail("C17/hard-error-unchanged", "source ended after %zu octets, source_get_chunk(N=%zu) returned %zd", L, n, rc);
            outcome = "real-source-end";
        }
    } else if (cop == C_GET_ATMOST) {
        /* "never move more than asked and return the count actually moved"; "a
         * hard driver error is returned unchanged".  What the buffer endpoint
         * answers to a call (a count, 0 while it steps over an empty chunk, its
         * end) is its own business: the call is held to the answers the
         * pass-through recorded. */
        if (taken > n || (rc > 0 && (size_t)rc > n)) {
            mc_fail("C17/atmost-bound", "source_get_chunk_atmost(%zu) with %zu octets available took %zu and returned %zd", n, L,
                    taken, rc);
        } else if (!is_prefix(dst, taken <= n ? taken : n)) {
            mc_fail("C17/in-order", "destination holds [%s]", hexs(dst, taken));
        } else if (rc < 0) {
            if (wsrc.first_neg == 0)
                mc_fail("C17/atmost-count", "source_get_chunk_atmost(%zu) returned %zd, which the source's driver never answered", n, rc);
            else if (rc != wsrc.first_neg)
                mc_fail("C17/hard-error-unchanged", "the source's driver answered %d, source_get_chunk_atmost returned %zd",
                        wsrc.first_neg, rc);
            outcome = "real-source-end";
        } else if (wsrc.first_neg != 0 && wsrc.moved == 0) {
            mc_fail("C17/hard-error-unchanged", "the source's driver moved nothing and answered %d, source_get_chunk_atmost returned %zd",
                    wsrc.first_neg, rc);
        } else if ((size_t)rc != taken) {
            mc_fail("C17/atmost-count", "returned %zd but the source advanced by %zu", rc, taken);
        } else {
            outcome = rc == 0 ? "real-atmost-none" : (size_t)rc < n ? "real-atmost-short" : "real-atmost-full";
        }
    } else {
        const bool drain = (cop >= C_DRAIN_CBC);
        const size_t want = drain ? L : n;
        /* which hard errors the real endpoints can answer on the way: the sink
         * fills up before the count / the source's end is reached (-ENOMEM),
         * the source ends before the count (-ENODATA) */
        const bool may_enomem = cap < (want < L ? want : L);
        const bool may_enodata = L < want;
        if (sink_shrunk || sinkgot > cap || (!rest_bad && sinkgot > taken) || sinkgot > want || !is_prefix(sinkdata, sinkgot <= cap ? sinkgot : cap)) {
            mc_fail("C17/sink-prefix", "%zu octets taken from the source, sink %s %zu: [%s]", taken,
                    sink_shrunk ? "lost octets it held before; appended" : "received", sinkgot,
                    hexs(sinkdata, sinkgot <= cap ? sinkgot : cap));
        } else if (may_enomem || may_enodata) {
            /* plumbing: "when it fails, an error is returned" (any negative code) */
            if (rc >= 0)
                mc_fail("C17/failure-is-error", "%s: source holds %zu octets, sink has room for %zu, %zu to move: returned %zd",
                        COPNAME[cop], L, cap, want, rc);
            outcome = may_enomem ? "real-sink-full" : "real-source-end";
        } else if (drain) {
            if (sinkgot != L || taken != L)
                mc_fail("C17/drain-complete", "%s returned %zd with %zu of %zu octets in the sink", COPNAME[cop], rc, sinkgot, L);
            outcome = inactive ? "real-drain-behind-inactive-chunks" : np > 1 ? "real-drain-across-chunks" : "real-drain";
        } else {
            if (rc != (ssize_t)n)
                mc_fail("C17/exact-count", "%s(n=%zu) returned %zd", COPNAME[cop], n, rc);
            else if (sinkgot != n)
                mc_fail("C17/exact-count", "%s(n=%zu) put %zu octets into the sink", COPNAME[cop], n, sinkgot);
            else if (taken != n)
                mc_fail("C17/source-advance", "%s(n=%zu) took %zu octets from the source", COPNAME[cop], n, taken);
            outcome = inactive ? "real-ok-behind-inactive-chunks" : np > 1 ? "real-ok-across-chunks" : "real-ok";
        }
    }
    for (int i = 0; i < nch; ++i)
        free(mem[i]);
    free(sinkmem);
    free(auxmem);
    free(dst);
    mc_end(np > 1 || L < n || cap < n || inactive > 0, outcome);
}

static void
real_endpoints(size_t maxlen, int maxparts)
{
    /* ordered by the number of chunk boundaries (= deviations from "one chunk
     * holds everything"): every cut of every stream <= maxlen into np parts,
     * empty parts at every position included */
    for (int np = 1; np <= maxparts; ++np)
        for (int cop = 0; cop < C__N; ++cop) {
            size_t p[REAL_MAXPARTS] = { 0 };
            for (;;) {
                size_t L = 0;
                for (int i = 0; i < np; ++i)
                    L += p[i];
                if (L <= maxlen) {
                    const bool drain = (cop >= C_DRAIN_CBC);
                    const bool one = (cop <= C_GET_ATMOST);
                    for (int inactive = 0; inactive <= REAL_MAXINACTIVE; ++inactive)
                        for (int lead = 0; lead < 2; ++lead)
                            for (size_t n = 1; n <= (drain ? 1 : maxlen); ++n)
                                for (size_t cap = one ? maxlen : 0; cap <= maxlen; ++cap)
                                    for (int prefill = 0; prefill < (one ? 1 : 2); ++prefill) {
                                        real_case(cop, p, np, n, cap, false, inactive, lead, prefill);
                                        if (np == 1 && L > 0 && inactive == 0)
                                            real_case(cop, p, np, n, cap, true, 0, lead, prefill);
                                    }
                }
                int i = 0;
                while (i < np && ++p[i] > maxlen)
                    p[i++] = 0;
                if (i == np)
                    break;
            }
        }

    /* trivial.c: /dev/zero, /dev/null, the empty source */
    for (size_t n = 1; n <= maxlen; ++n) {
        if (mc_case("real trivial source_zero -> source_get_chunk N=%zu", n)) {
            unsigned char *dst = mc_exact(n);
            memset(dst, 0xee, n);
            const ssize_t rc = source_get_chunk(&source_zero, dst, n);
            mc_trans(1);
            bool zero = true;
            for (size_t i = 0; i < n; ++i)
                zero &= (dst[i] == 0);
            if (rc != (ssize_t)n || !zero)
                mc_fail("C17/exact-count", "source_zero: returned %zd, destination [%s]", rc, hexs(dst, n));
            free(dst);
            mc_end(false, "real-trivial");
        }
        if (mc_case("real trivial source_empty -> source_get_chunk N=%zu", n)) {
            unsigned char *dst = mc_exact(n);
            const ssize_t rc = source_get_chunk(&source_empty, dst, n);
            mc_trans(1);
            if (rc != -ENODATA)
                mc_fail("C17/hard-error-unchanged", "source_empty: returned %zd", rc);
            free(dst);
            mc_end(true, "real-source-end");
        }
        if (mc_case("real trivial sink_null <- sink_put_chunk N=%zu", n)) {
            unsigned char *src = stream_block(n);
            const ssize_t rc = sink_put_chunk(&sink_null, src, n);
            mc_trans(1);
            if (rc != (ssize_t)n)
                mc_fail("C17/exact-count", "sink_null: returned %zd", rc);
            free(src);
            mc_end(false, "real-trivial");
        }
        if (mc_case("real trivial source_zero -> sts_n -> sink_to_buffer n=%zu", n)) {
            unsigned char *sinkmem = mc_exact(n);
            memset(sinkmem, 0xee, n);
            ByteBuffer sinkb = { sinkmem, n, 0, 0 };
            Sink sink;
            sink_to_buffer(&sink, &sinkb);
            const ssize_t rc = sts_n(&source_zero, &sink, n);
            mc_trans(1);
            bool zero = true;
            for (size_t i = 0; i < n; ++i)
                zero &= (sinkmem[i] == 0);
            if (rc != (ssize_t)n || sinkb.used != n || !zero)
                mc_fail("C17/exact-count", "source_zero -> buffer: returned %zd, %zu octets", rc, sinkb.used);
            free(sinkmem);
            mc_end(false, "real-trivial");
        }
        if (mc_case("real trivial source_empty -> sts_drain_cbc -> sink_to_buffer(%zu)", n)) {
            unsigned char *sinkmem = mc_exact(n);
            ByteBuffer sinkb = { sinkmem, n, 0, 0 };
            Sink sink;
            sink_to_buffer(&sink, &sinkb);
            const ssize_t rc = sts_drain_cbc(&source_empty, &sink);
            mc_trans(1);
            if (sinkb.used != 0)
                mc_fail("C17/sink-prefix", "empty source, sink holds %zu octets (returned %zd)", sinkb.used, rc);
            free(sinkmem);
            mc_end(true, "real-drain");
        }
    }
}

/* ------------------------------------------------------------------------ */
/* start-up: anchors and oracle self-test                                   */

static int selftest_fail_count;
static char selftest_first[200];

static void
selftest_leaf(const struct casep *c, int d)
{
    bool nt;
    quiet_clause = NULL;
    run_case(&IMPL_REF, c, &nt);
    if (quiet_clause != NULL) {
        if (selftest_fail_count++ == 0) {
            char a[60], b[60];
            script_str(a, sizeof a, c->s_src, c->slen_src);
            script_str(b, sizeof b, c->s_snk, c->slen_snk);
            snprintf(selftest_first, sizeof selftest_first, "%s dev=%d op=%s n=%zu src=%s/[%s] snk=%s/[%s]", quiet_clause, d,
                     OPNAME[c->op], c->n, c->src_octet ? "octet" : "chunk", a, c->snk_octet ? "octet" : "chunk", b);
        }
    }
}

static void
selftest(void)
{
    static const size_t counts[] = { 0, 1, 3 }, lengths[] = { 0, 2, 3 }, atmost[] = { 1, 2 };
    static const struct auxcfg aux[] = { { 0, 2, 3 }, { 1, 2, 3 } };
    static const size_t shorts[] = { 3 };
    static const struct tier small = { SLOTS_ONE, 3, 2, 2, counts, 3, lengths, 3, atmost, 2, shorts, 1, aux, 2, 2 };
    quiet = true;
    /* the reference implementation satisfies the oracle ... */
    ref_bugs = 0;
    selftest_fail_count = 0;
    for (int d = 0; d <= 3; ++d) {
        one_sided_layer(&small, d, selftest_leaf);
        two_sided_layer(&small, d, selftest_leaf);
    }
    if (selftest_fail_count)
        mc_broken("oracle rejects the reference implementation (%d cases), first: %s", selftest_fail_count, selftest_first);
    /* ... and each broken variant of it is rejected */
    static const unsigned bugs[] = { RB_NO_ADVANCE, RB_ADAPT_ZERO, RB_FORWARD_N, RB_FORWARD_UNREAD };
    static const char *const bugname[] = { "position not advanced after a partial transfer", "octet adapter reports 0",
                                           "aux plumbing forwards the asked count", "per-octet plumbing forwards an unread octet" };
    for (int k = 0; k < 4; ++k) {
        ref_bugs = bugs[k];
        selftest_fail_count = 0;
        for (int d = 0; d <= 1; ++d) {
            one_sided_layer(&small, d, selftest_leaf);
            two_sided_layer(&small, d, selftest_leaf);
        }
        if (selftest_fail_count == 0)
            mc_broken("oracle is toothless: broken reference variant '%s' passed", bugname[k]);
    }
    ref_bugs = 0;
    quiet = false;
}

static void
anchors(void)
{
    /* The driver contract, as used by the repository's own test driver
     * (src/endpoints/instrumentable.c, exercised by t-rfc1055.c and
     * t-register-protocol.c): an octet driver answers 1 per octet moved, a
     * source answers -ENODATA at its end, a full sink -ENOMEM, and the error
     * injected by t-rfc1055.c is instrumentable_error_at(&sink, 10, -EIO),
     * which the caller has to see unchanged ("passes error code correctly"). */
    unsigned char srcmem[3] = { 0x01, 0x02, 0x03 }, sinkmem[12];
    InstrumentableBuffer ib, ob;
    memset(&ib, 0, sizeof ib);
    memset(&ob, 0, sizeof ob);
    byte_buffer_use(&ib.buffer, srcmem, sizeof srcmem);
    byte_buffer_space(&ob.buffer, sinkmem, sizeof sinkmem);
    Source isrc;
    Sink isnk;
    instrumentable_source(&isrc, &ib);
    instrumentable_sink(&isnk, &ob);

    struct casep c;
    memset(&c, 0, sizeof c);
    memset(&E, 0, sizeof E);
    memset(&SRC, 0, sizeof SRC);
    memset(&SNK, 0, sizeof SNK);
    static const uint8_t snk_script[2] = { B_REST, B_EIO };
    SRC.total = 3;
    SRC.budget = SNK.budget = 100;
    SNK.is_sink = true;
    SNK.script = snk_script;
    SNK.slen = 2;
    for (int i = 0; i < 4; ++i) {
        unsigned char a = 0xee, b = 0xee;
        const int ra = isrc.source.octet(isrc.driver, &a);
        const int rb = cb_octet_source(&SRC, &b);
        MC_ANCHOR(ra == rb && (i == 3 || a == b), "scripted octet source disagrees with the repository's instrumentable source");
        MC_ANCHOR(i < 3 ? (rb == 1 && b == STREAM(i)) : rb == -ENODATA, "octet source contract: 1 per octet, -ENODATA at the end");
    }
    MC_ANCHOR(E.first_hard == -ENODATA && E.first_scripted_hard == 0, "end of stream is recorded as the source's own hard answer");
    instrumentable_error_at(&ob, 1, -EIO);
    const int s1 = isnk.sink.octet(isnk.driver, 0x01), s2 = isnk.sink.octet(isnk.driver, 0x02);
    const int t1 = cb_octet_sink(&SNK, 0x01), t2 = cb_octet_sink(&SNK, 0x02);
    MC_ANCHOR(s1 == 1 && s2 == -EIO && t1 == s1 && t2 == s2, "scripted octet sink disagrees with instrumentable_error_at(.., -EIO)");
    MC_ANCHOR(E.first_scripted_hard == -EIO && SNK.ngot == 1 && SNK.got[0] == 0x01, "sink log");
    instrumentable_no_error(&ob);
    ob.buffer.used = ob.buffer.size;
    MC_ANCHOR(isnk.sink.octet(isnk.driver, 0x03) == -ENOMEM, "a full sink answers -ENOMEM");
}

int
main(int argc, char **argv)
{
    mc_init(argc, argv);
    const char *which = getenv("C17_IMPL");
    if (which != NULL && !strcmp(which, "ref"))
        SUBJECT = &IMPL_REF; /* oracle check: the whole enumeration on the reference implementation */
    anchors();
    selftest();

    const struct tier *t = mc_thorough() ? &THOROUGH : &QUICK;
    const int dmax = t->one_full > t->two_d ? t->one_full : t->two_d;
    for (int d = 0; d <= dmax; ++d) {
        one_sided_layer(t, d, emit);
        two_sided_layer(t, d, emit);
    }
    long_family(mc_thorough() ? 4 : 3, mc_thorough() ? 3 : 2, emit);
    wide_n_family(mc_thorough() ? 2 : 1, emit);
    if (SUBJECT == &IMPL_UFW)
        real_endpoints(mc_thorough() ? 6 : 4, mc_thorough() ? 5 : 4);

    char bound[1000];
    snprintf(bound, sizeof bound,
             "%sone driver: every script over the first %d of %d call slots and every placement of <= %d deviations over all %d, "
             "N 0..6 and SSIZE_MAX+1; two drivers: every placement of <= %d deviations over 6+6 call slots, %d counts, %d stream "
             "lengths, %d aux geometries (%d of them to one deviation less); octet and chunk drivers on both sides; transfers of "
             "40 octets under every periodic script of period <= %d (one driver) / <= %d per side (two drivers); sts_atmost_aux "
             "on every aux geometry 0<=offset<used<size<=6 and sts_atmost with n in {SSIZE_MAX-1..SSIZE_MAX+2, SIZE_MAX-6..SIZE_MAX} "
             "under every placement of <= %d deviations; real buffer/chunks/trivial endpoints with streams <= %d",
             SUBJECT == &IMPL_REF ? "[REFERENCE IMPLEMENTATION, not ufw] " : "", t->one_full, t->one_len, t->one_dany, t->one_len,
             t->two_d, t->ncounts, t->nlengths, t->naux, t->naux - t->aux_deep, mc_thorough() ? 4 : 3, mc_thorough() ? 3 : 2,
             mc_thorough() ? 2 : 1, mc_thorough() ? 6 : 4);
    mc_finish(true, bound);
    return 0;
}
