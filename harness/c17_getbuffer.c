/*
 * C17 (second harness) -- source-to-sink plumbing through a source that offers
 * a scratch buffer (the `getbuffer` extension): sts_some / sts_atmost / sts_n
 * / sts_drain take the sts_atmost_via_source path, which the scripted-driver
 * harness c17_endpoints.c does not reach.
 *
 * Closed driver: the stream is 01 02 03 ...; the source is chunk-style with a
 * finite script of per-call behaviours (when the script runs out: transfer
 * everything asked) and offers a scratch region [offset, used) inside an
 * exact-size heap block; the sink is chunk-style with its own script.  The
 * behaviours are the ones of the statement: partial transfers (1, 2), the
 * zero-length return, EINTR / EAGAIN and a hard error (EIO).  Every placement
 * of up to `maxlen` deviating answers over maxlen + maxlen call slots is
 * enumerated, fewest deviations first.
 *
 * Oracle (the one of c17_endpoints.c): what reached the sink is a prefix of
 * the stream; after a hard answer of a driver (or the source's early end) a
 * failing call returns an error -- any negative code, the statement says "an
 * error is returned" of plumbing -- and a call that went on and moved exactly
 * what was asked did not fail; without a hard answer the counted form returns n with exactly n octets moved (0 /
 * EINTR / EAGAIN are retried through) and the drain form moves the whole
 * stream; the at-most forms never move more than asked, return the count
 * moved (a short positive count also when a hard answer followed progress), and
 * may pass an interruption on only if nothing was taken and dropped.
 */
#include "mc.h"

#include <errno.h>
#include <ufw/endpoints.h>

#define STREAM 12
#define BUDGET 200

enum beh { B_REST, B_ONE, B_TWO, B_ZERO, B_EINTR, B_EAGAIN, B_EIO, B_NBEH };
static const char *BN[] = { "rest", "1", "2", "0", "EINTR", "EAGAIN", "EIO" };

static struct {
    /* source */
    size_t pos, len;
    int sscript[4], slen, scall;
    unsigned char *scratch;
    size_t ssize, soff, sused;
    /* sink */
    unsigned char got[64];
    size_t ngot;
    int kscript[4], klen, kcall;
    long calls;
    bool overrun, wrote_outside;
    /* answers really delivered */
    int first_hard, first_scripted_hard;
    bool seen_eintr, seen_eagain;
    int partials, zeros, intrs, hards, ends;
} E;

/* a scripted answer that moves nothing; returns true and the answer if `b` is one */
static bool
stalling(int b, ssize_t *ans)
{
    switch (b) {
    case B_ZERO: E.zeros++; *ans = 0; return true;
    case B_EINTR: E.intrs++; E.seen_eintr = true; *ans = -EINTR; return true;
    case B_EAGAIN: E.intrs++; E.seen_eagain = true; *ans = -EAGAIN; return true;
    case B_EIO:
        E.hards++;
        if (E.first_hard == 0)
            E.first_hard = -EIO;
        if (E.first_scripted_hard == 0)
            E.first_scripted_hard = -EIO;
        *ans = -EIO;
        return true;
    default: return false;
    }
}

static ssize_t
src_chunk(void *drv, void *buf, size_t n)
{
    (void)drv;
    if (++E.calls > BUDGET) {
        E.overrun = true;
        return -EIO;
    }
    /* Memory of the source's scratch block may only be used inside the offered
     * region.  Not using the offer at all (reading into memory of the
     * implementation's own) touches nothing it should not. */
    const uintptr_t p = (uintptr_t)buf, blk = (uintptr_t)E.scratch;
    if (n > 0 && p < blk + E.ssize && p + n > blk && !(p >= blk + E.soff && p + n <= blk + E.sused))
        E.wrote_outside = true;
    if (E.pos >= E.len) {
        E.ends++;
        if (E.first_hard == 0)
            E.first_hard = -ENODATA;
        return -ENODATA;
    }
    const int b = E.scall < E.slen ? E.sscript[E.scall] : B_REST;
    E.scall++;
    ssize_t ans;
    if (stalling(b, &ans))
        return ans;
    size_t k = b == B_ONE ? 1 : b == B_TWO ? 2 : n;
    if (k > n)
        k = n;
    if (k > E.len - E.pos)
        k = E.len - E.pos;
    if (k < n && k < E.len - E.pos)
        E.partials++;
    for (size_t i = 0; i < k; ++i)
        ((unsigned char *)buf)[i] = (unsigned char)(E.pos + i + 1);
    E.pos += k;
    return (ssize_t)k;
}

static ByteBuffer
src_getbuffer(Source *s)
{
    (void)s;
    ByteBuffer b;
    byte_buffer_set(&b, E.scratch, E.ssize, E.sused, E.soff);
    return b;
}

static ssize_t
snk_chunk(void *drv, const void *buf, size_t n)
{
    (void)drv;
    if (++E.calls > BUDGET) {
        E.overrun = true;
        return -EIO;
    }
    const int b = E.kcall < E.klen ? E.kscript[E.kcall] : B_REST;
    E.kcall++;
    ssize_t ans;
    if (stalling(b, &ans))
        return ans;
    size_t k = b == B_ONE ? 1 : b == B_TWO ? 2 : n;
    if (k > n)
        k = n;
    if (k < n)
        E.partials++;
    if (E.ngot + k > sizeof E.got) {
        E.overrun = true;
        return -EIO;
    }
    memcpy(E.got + E.ngot, buf, k);
    E.ngot += k;
    return (ssize_t)k;
}

enum op { OP_N, OP_ATMOST, OP_SOME, OP_DRAIN, NOPS };
static const char *OPN[] = { "sts_n", "sts_atmost", "sts_some", "sts_drain" };

static bool intr_code(ssize_t rc) { return rc == -EINTR || rc == -EAGAIN; }
static bool intr_seen(ssize_t rc) { return (rc == -EINTR && E.seen_eintr) || (rc == -EAGAIN && E.seen_eagain); }

static const char *
run(int op, size_t n, size_t stream, size_t ssize, size_t soff, size_t sused, const int *ss, int sl, const int *ks, int kl)
{
    memset(&E, 0, sizeof E);
    E.len = stream;
    E.scratch = mc_exact(ssize);
    memset(E.scratch, 0xee, ssize);
    E.ssize = ssize;
    E.soff = soff;
    E.sused = sused;
    memcpy(E.sscript, ss, sizeof(int) * (size_t)sl);
    E.slen = sl;
    memcpy(E.kscript, ks, sizeof(int) * (size_t)kl);
    E.klen = kl;
    Source src;
    Sink snk;
    chunk_source_init(&src, src_chunk, NULL);
    src.ext.getbuffer = src_getbuffer;
    chunk_sink_init(&snk, snk_chunk, NULL);
    ssize_t rc = 0;
    switch (op) {
    case OP_N: rc = sts_n(&src, &snk, n); break;
    case OP_ATMOST: rc = sts_atmost(&src, &snk, n); break;
    case OP_SOME: rc = sts_some(&src, &snk); break;
    case OP_DRAIN: rc = sts_drain(&src, &snk); break;
    }
    mc_trans(1);
    mc_log("%s rc=%zd source position=%zu sink got=%zu calls=%ld", OPN[op], rc, E.pos, E.ngot, E.calls);
    mc_log_hex("sink", E.got, E.ngot);
    free(E.scratch);
    const size_t region = sused - soff;
    const bool stalled = (E.zeros + E.intrs) > 0;
    /* what reached the sink is always a prefix of the stream, in order */
    bool prefix = true;
    for (size_t i = 0; i < E.ngot; ++i)
        prefix &= E.got[i] == (unsigned char)(i + 1);
    if (E.overrun) {
        mc_fail("C17/hang", "%s: driver call budget exceeded", OPN[op]);
        return "failed";
    }
    if (E.wrote_outside) {
        mc_fail("C17/aux-region", "%s asked the source to fill memory of the scratch block outside the offered region", OPN[op]);
        return "failed";
    }
    if (!prefix || E.ngot > E.pos) {
        mc_fail("C17/sink-prefix", "%s: what reached the sink (%zu octets, %zu taken from the source) is not a prefix of the stream", OPN[op],
                E.ngot, E.pos);
        return "failed";
    }
    if (op == OP_DRAIN) {
        /* plumbing: "when it fails, an error is returned" -- any negative code; a
         * drain that went on after a hard answer and moved the whole stream did
         * not fail */
        if (E.first_scripted_hard != 0 && !(E.ngot == stream && E.pos == stream)) {
            if (rc >= 0)
                mc_fail("C17/failure-is-error", "driver answered %d, sts_drain stopped after %zu of %zu octets and returned %zd",
                        E.first_scripted_hard, E.ngot, stream, rc);
            return "hard-error";
        }
        /* the return value of a drain that met nothing but the source's end is not pinned */
        if (E.ngot != stream || E.pos != stream) {
            if (intr_code(rc))
                mc_fail("C17/retry-interruptions", "sts_drain stopped with %zd after %zu of %zu octets", rc, E.ngot, stream);
            else
                mc_fail("C17/drain-complete", "sts_drain moved %zu of %zu octets (rc %zd)", E.ngot, stream, rc);
            return "failed";
        }
        return stalled ? "drained-after-interruption" : "drained";
    }
    if (op == OP_N) {
        if (E.ngot > n || E.pos > n) {
            mc_fail("C17/exact-count", "sts_n(%zu) took %zu octets from the source and put %zu into the sink", n, E.pos, E.ngot);
            return "failed";
        }
        /* after a hard answer: a negative return reports the failure (any code);
         * a non-negative one is only right if the call did not fail after all */
        if (E.first_hard != 0 && rc < 0)
            return E.first_scripted_hard == 0 ? "n-source-ended" : "hard-error";
        if (E.first_hard != 0 && !(rc == (ssize_t)n && E.ngot == n && E.pos == n)) {
            mc_fail("C17/failure-is-error", "driver answered %d, sts_n(%zu) on a stream of %zu octets returned %zd with %zu octets in the sink",
                    E.first_hard, n, stream, rc, E.ngot);
            return "failed";
        }
        if (rc != (ssize_t)n) {
            if (intr_code(rc))
                mc_fail("C17/retry-interruptions", "sts_n(%zu) returned %zd instead of retrying (%zu octets in the sink)", n, rc, E.ngot);
            else
                mc_fail("C17/exact-count", "sts_n(%zu) returned %zd and moved %zu octets", n, rc, E.ngot);
            return "failed";
        }
        if (E.ngot != n || E.pos != n) {
            mc_fail(E.ngot != n ? "C17/exact-count" : "C17/source-advance", "sts_n(%zu) returned %zd: %zu octets taken from the source, %zu reached the sink",
                    n, rc, E.pos, E.ngot);
            return "failed";
        }
        return stalled ? "n-moved-after-interruption" : "n-moved";
    }
    /* at-most forms: bounded by what was asked, not by the size of the scratch region */
    if (op == OP_ATMOST && (E.ngot > n || E.pos > n)) {
        mc_fail("C17/atmost-bound", "sts_atmost(%zu): %zu taken from the source, %zu put into the sink", n, E.pos, E.ngot);
        return "failed";
    }
    if (rc >= 0) {
        /* a hard answer after some progress may be reported as the short positive
         * count; with nothing in the sink the call failed and an error is owed */
        if (E.first_hard != 0 && E.ngot == 0) {
            mc_fail("C17/failure-is-error", "driver answered %d, nothing reached the sink, %s returned %zd", E.first_hard, OPN[op], rc);
            return "failed";
        }
        if ((size_t)rc != E.ngot) {
            mc_fail("C17/atmost-count", "%s with a %zu-octet scratch region returned %zd and moved %zu octets", OPN[op], region, rc, E.ngot);
            return "failed";
        }
        if (E.pos != E.ngot) {
            mc_fail("C17/no-loss", "%s returned %zd: %zu octets taken from the source, %zu reached the sink", OPN[op], rc, E.pos, E.ngot);
            return "failed";
        }
        if (rc == 0) {
            /* nothing moved and 0 returned: "never move more than asked and
             * return the count actually moved" holds (audit 6; c17_endpoints
             * accepts the same outcome as plumb-moved-none), whether or not a
             * driver answered 0 / an interruption; observation only */
            if (!stalled)
                mc_log("%s with a %zu-octet scratch region moved nothing although %zu octets were to be had and no driver answered 0 (not judged)",
                       OPN[op], region, stream);
            return "atmost-moved-none";
        }
        return "atmost-moved";
    }
    if (E.first_hard != 0) /* "when it fails, an error is returned": any negative code */
        return "hard-error";
    if (intr_code(rc) && intr_seen(rc)) {
        if (E.pos != E.ngot)
            mc_fail("C17/no-loss", "%s passed on the interruption %zd after taking %zu octets from the source (%zu reached the sink)", OPN[op],
                    rc, E.pos, E.ngot);
        return "atmost-interrupted";
    }
    mc_fail("C17/atmost-count", "%s returned %zd, which no driver answered (%zu octets moved)", OPN[op], rc, E.ngot);
    return "failed";
}

/* every placement of exactly d deviating answers over sl + kl call slots */
struct en {
    int op, gi, d, slots;
    size_t n, stream;
    int ss[4], ks[4];
};
static const size_t G[][3] = { { 1, 0, 1 }, { 2, 0, 2 }, { 3, 0, 3 }, { 5, 1, 4 }, { 8, 0, 8 }, { 4, 2, 3 } };

static void
en_rec(struct en *e, int start, int remaining)
{
    if (remaining == 0) {
        if (!mc_would_run()) {
            mc_skip_case();
            return;
        }
        /* printed without the trailing default answers */
        int sl = e->slots, kl = e->slots;
        while (sl && e->ss[sl - 1] == B_REST)
            --sl;
        while (kl && e->ks[kl - 1] == B_REST)
            --kl;
        char sd[48] = "", kd[48] = "";
        for (int i = 0; i < sl; ++i)
            snprintf(sd + strlen(sd), sizeof sd - strlen(sd), "%s%s", i ? "," : "", BN[e->ss[i]]);
        for (int i = 0; i < kl; ++i)
            snprintf(kd + strlen(kd), sizeof kd - strlen(kd), "%s%s", i ? "," : "", BN[e->ks[i]]);
        if (!mc_case("getbuffer dev=%d op=%s n=%zu stream=%zu scratch=(size %zu, region [%zu,%zu)) src=[%s] snk=[%s]", e->d, OPN[e->op],
                     e->n, e->stream, G[e->gi][0], G[e->gi][1], G[e->gi][2], sd, kd))
            return;
        const char *outcome = run(e->op, e->n, e->stream, G[e->gi][0], G[e->gi][1], G[e->gi][2], e->ss, sl, e->ks, kl);
        mc_end(true, outcome);
        return;
    }
    for (int pos = start; pos + remaining <= 2 * e->slots; ++pos) {
        int *slot = pos < e->slots ? &e->ss[pos] : &e->ks[pos - e->slots];
        for (int b = B_REST + 1; b < B_NBEH; ++b) {
            *slot = b;
            en_rec(e, pos + 1, remaining - 1);
        }
        *slot = B_REST;
    }
}

int
main(int argc, char **argv)
{
    mc_init(argc, argv);
    const bool th = mc_thorough();
    const int maxlen = th ? 4 : 3;
    for (int op = 0; op < NOPS; ++op)
        for (unsigned gi = 0; gi < sizeof G / sizeof *G; ++gi)
            for (size_t stream = 1; stream <= (th ? 9u : 7u); ++stream)
                for (size_t n = 1; n <= ((op == OP_N || op == OP_ATMOST) ? stream + 1 : 1); ++n)
                    for (int dev = 0; dev <= maxlen; ++dev) {
                        struct en e;
                        memset(&e, 0, sizeof e);
                        e.op = op;
                        e.gi = (int)gi;
                        e.d = dev;
                        e.slots = maxlen;
                        e.n = n;
                        e.stream = stream;
                        en_rec(&e, 0, dev);
                    }
    mc_finish(true, th ? "4 plumbing operations x 6 scratch geometries x streams 1..9 x every n <= stream+1 x every placement of <= 4 answers from {1, 2, 0, EINTR, EAGAIN, EIO} over 4+4 source and sink call slots (default: rest)"
                       : "4 plumbing operations x 6 scratch geometries x streams 1..7 x every n <= stream+1 x every placement of <= 3 answers from {1, 2, 0, EINTR, EAGAIN, EIO} over 3+3 source and sink call slots (default: rest)");
    return 0;
}
