/*
 * C17 (second harness) -- source-to-sink plumbing through a source that offers
 * a scratch buffer (the `getbuffer` extension): sts_some / sts_atmost / sts_n
 * / sts_drain take the sts_atmost_via_source path, which the scripted-driver
 * harness c17_endpoints.c does not reach.
 *
 * Closed driver: the stream is 01 02 03 ...; the source is chunk-style with a
 * finite script of per-call behaviours (when the script runs out: transfer
 * everything asked) and offers a scratch region [offset, used) inside an
 * exact-size heap block; the sink is chunk-style with its own script.  All
 * scripts up to the stated length are enumerated, fewest deviations first.
 */
#include "mc.h"

#include <errno.h>
#include <ufw/endpoints.h>

#define STREAM 12
#define BUDGET 200

enum beh { B_REST, B_ONE, B_TWO, B_NBEH };
static const char *BN[] = { "rest", "1", "2" };

static struct {
    /* source */
    size_t pos, len;
    int sscript[4], slen, scall;
    unsigned char *scratch;
    size_t ssize, soff, sused;
    /* sink */
    unsigned char got[64];
    size_t ngot;
    int kscript[4], klen, kcall;
    long calls;
    bool overrun, wrote_outside;
} E;

static ssize_t
src_chunk(void *drv, void *buf, size_t n)
{
    (void)drv;
    if (++E.calls > BUDGET) {
        E.overrun = true;
        return -EIO;
    }
    /* Memory of the source's scratch block may only be used inside the offered
     * region.  Not using the offer at all (reading into memory of the
     * implementation's own) touches nothing it should not. */
    const uintptr_t p = (uintptr_t)buf, blk = (uintptr_t)E.scratch;
    if (n > 0 && p < blk + E.ssize && p + n > blk && !(p >= blk + E.soff && p + n <= blk + E.sused))
        E.wrote_outside = true;
    if (E.pos >= E.len)
        return -ENODATA;
    const int b = E.scall < E.slen ? E.sscript[E.scall] : B_REST;
    E.scall++;
    size_t k = b == B_ONE ? 1 : b == B_TWO ? 2 : n;
    if (k > n)
        k = n;
    if (k > E.len - E.pos)
        k = E.len - E.pos;
    for (size_t i = 0; i < k; ++i)
        ((unsigned char *)buf)[i] = (unsigned char)(E.pos + i + 1);
    E.pos += k;
    return (ssize_t)k;
}

static ByteBuffer
src_getbuffer(Source *s)
{
    (void)s;
    ByteBuffer b;
    byte_buffer_set(&b, E.scratch, E.ssize, E.sused, E.soff);
    return b;
}

static ssize_t
snk_chunk(void *drv, const void *buf, size_t n)
{
    (void)drv;
    if (++E.calls > BUDGET) {
        E.overrun = true;
        return -EIO;
    }
    const int b = E.kcall < E.klen ? E.kscript[E.kcall] : B_REST;
    E.kcall++;
    size_t k = b == B_ONE ? 1 : b == B_TWO ? 2 : n;
    if (k > n)
        k = n;
    if (E.ngot + k > sizeof E.got) {
        E.overrun = true;
        return -EIO;
    }
    memcpy(E.got + E.ngot, buf, k);
    E.ngot += k;
    return (ssize_t)k;
}

enum op { OP_N, OP_ATMOST, OP_SOME, OP_DRAIN, NOPS };
static const char *OPN[] = { "sts_n", "sts_atmost", "sts_some", "sts_drain" };

static void
run(int op, size_t n, size_t stream, size_t ssize, size_t soff, size_t sused, const int *ss, int sl, const int *ks, int kl)
{
    memset(&E, 0, sizeof E);
    E.len = stream;
    E.scratch = mc_exact(ssize);
    memset(E.scratch, 0xee, ssize);
    E.ssize = ssize;
    E.soff = soff;
    E.sused = sused;
    memcpy(E.sscript, ss, sizeof(int) * (size_t)sl);
    E.slen = sl;
    memcpy(E.kscript, ks, sizeof(int) * (size_t)kl);
    E.klen = kl;
    Source src;
    Sink snk;
    chunk_source_init(&src, src_chunk, NULL);
    src.ext.getbuffer = src_getbuffer;
    chunk_sink_init(&snk, snk_chunk, NULL);
    ssize_t rc = 0;
    switch (op) {
    case OP_N: rc = sts_n(&src, &snk, n); break;
    case OP_ATMOST: rc = sts_atmost(&src, &snk, n); break;
    case OP_SOME: rc = sts_some(&src, &snk); break;
    case OP_DRAIN: rc = sts_drain(&src, &snk); break;
    }
    mc_trans(1);
    mc_log("%s rc=%zd source position=%zu sink got=%zu calls=%ld", OPN[op], rc, E.pos, E.ngot, E.calls);
    mc_log_hex("sink", E.got, E.ngot);
    const size_t region = sused - soff;
    /* what reached the sink is always a prefix of the stream, in order */
    bool prefix = true;
    for (size_t i = 0; i < E.ngot; ++i)
        prefix &= E.got[i] == (unsigned char)(i + 1);
    if (E.overrun)
        mc_fail("C17/hang", "%s: driver call budget exceeded", OPN[op]);
    else if (E.wrote_outside)
        mc_fail("C17/aux-region", "%s asked the source to fill memory of the scratch block outside the offered region", OPN[op]);
    else if (!prefix)
        mc_fail("C17/sink-prefix", "%s: what reached the sink is not a prefix of the stream", OPN[op]);
    else if (E.ngot != E.pos)
        mc_fail("C17/no-loss", "%s: %zu octets taken from the source, %zu reached the sink", OPN[op], E.pos, E.ngot);
    else
        switch (op) {
        case OP_N:
            if (n <= stream) {
                if (rc != (ssize_t)n || E.ngot != n)
                    mc_fail("C17/exact-count", "sts_n(%zu) returned %zd and moved %zu octets", n, rc, E.ngot);
            } else if (rc >= 0)
                mc_fail("C17/hard-error-unchanged", "sts_n(%zu) on a stream of %zu octets returned %zd", n, stream, rc);
            break;
        case OP_ATMOST:
            /* bounded by what was asked, not by the size of the scratch region */
            if (stream > 0 && (rc < 0 || (size_t)rc != E.ngot || E.ngot > n || E.ngot == 0))
                mc_fail("C17/atmost-count", "sts_atmost(%zu) with a %zu-octet scratch region returned %zd and moved %zu octets", n, region, rc, E.ngot);
            break;
        case OP_SOME:
            if (stream > 0 && (rc < 0 || (size_t)rc != E.ngot || E.ngot == 0))
                mc_fail("C17/atmost-count", "sts_some with a %zu-octet scratch region returned %zd and moved %zu octets", region, rc, E.ngot);
            break;
        case OP_DRAIN:
            /* the return value of a drain that met nothing but the source's end is not pinned */
            if (E.ngot != stream)
                mc_fail("C17/drain-complete", "sts_drain moved %zu of %zu octets (rc %zd)", E.ngot, stream, rc);
            break;
        }
    free(E.scratch);
}

int
main(int argc, char **argv)
{
    mc_init(argc, argv);
    const bool th = mc_thorough();
    const int maxlen = th ? 4 : 3;
    /* scratch geometries (size, offset, used) */
    static const size_t G[][3] = { { 1, 0, 1 }, { 2, 0, 2 }, { 3, 0, 3 }, { 5, 1, 4 }, { 8, 0, 8 }, { 4, 2, 3 } };
    for (int op = 0; op < NOPS; ++op)
        for (unsigned gi = 0; gi < sizeof G / sizeof *G; ++gi)
            for (size_t stream = 1; stream <= (th ? 9u : 7u); ++stream)
                for (size_t n = 1; n <= ((op == OP_N || op == OP_ATMOST) ? stream + 1 : 1); ++n) {
                    /* scripts: total deviations (non-"rest" answers) 0, then 1, then 2, ... */
                    for (int dev = 0; dev <= maxlen; ++dev)
                        for (int sl = 0; sl <= maxlen; ++sl)
                            for (int kl = 0; kl <= maxlen; ++kl) {
                                int total = 1;
                                for (int i = 0; i < sl + kl; ++i)
                                    total *= B_NBEH;
                                for (int x = 0; x < total; ++x) {
                                    int ss[4], ks[4], y = x, d = 0;
                                    for (int i = 0; i < sl; ++i) {
                                        ss[i] = y % B_NBEH;
                                        y /= B_NBEH;
                                        d += ss[i] != B_REST;
                                    }
                                    for (int i = 0; i < kl; ++i) {
                                        ks[i] = y % B_NBEH;
                                        y /= B_NBEH;
                                        d += ks[i] != B_REST;
                                    }
                                    /* canonical scripts only: the last entry of a script is a deviation */
                                    if ((sl && ss[sl - 1] == B_REST) || (kl && ks[kl - 1] == B_REST) || d != dev)
                                        continue;
                                    char sd[40] = "", kd[40] = "";
                                    if (mc_would_run()) {
                                        for (int i = 0; i < sl; ++i)
                                            snprintf(sd + strlen(sd), sizeof sd - strlen(sd), "%s%s", i ? "," : "", BN[ss[i]]);
                                        for (int i = 0; i < kl; ++i)
                                            snprintf(kd + strlen(kd), sizeof kd - strlen(kd), "%s%s", i ? "," : "", BN[ks[i]]);
                                    }
                                    if (!mc_case("getbuffer dev=%d op=%s n=%zu stream=%zu scratch=(size %zu, region [%zu,%zu)) src=[%s] snk=[%s]", dev, OPN[op],
                                                 n, stream, G[gi][0], G[gi][1], G[gi][2], sd, kd))
                                        continue;
                                    run(op, n, stream, G[gi][0], G[gi][1], G[gi][2], ss, sl, ks, kl);
                                    mc_end(true, mc.cur_failed ? "failed" : op == OP_N ? (n <= stream ? "n-moved" : "n-source-ended") : op == OP_DRAIN ? "drained" : "atmost-moved");
                                }
                            }
                }
    mc_finish(true, th ? "4 plumbing operations x 6 scratch geometries x streams 1..9 x every n <= stream+1 x all source and sink scripts of length <= 4 over {rest,1,2}"
                       : "4 plumbing operations x 6 scratch geometries x streams 1..7 x every n <= stream+1 x all source and sink scripts of length <= 3 over {rest,1,2}");
    return 0;
}
