/*
 * regtab.h -- shared by the register-table harnesses (C01..C05):
 *   * a run-time table builder (memory-backed areas on exact-size heap blocks,
 *     callback-backed areas over exact-size heap blocks with bounds-checking
 *     callbacks),
 *   * an independent reference for the value codec (octet image in table
 *     order, IEEE class by bit pattern), the constraints, and the flat address
 *     space (mapped / readable / writable / word content).
 * Nothing in here is copied from ufw's sources.
 */
#ifndef VERIF_REGTAB_H
#define VERIF_REGTAB_H

#include <math.h>
#include <ufw/register-table.h>

#define RT_MAXA 4
#define RT_MAXR 6
#define RT_MAXW 40 /* words in the flat window */

enum ckind { K_NONE, K_FAIL, K_MIN, K_MAX, K_RANGE, K_CB, K_NKINDS };
static const char *CKIND_NAME[] = { "none", "fail", "min", "max", "range", "cb" };
static const char *TYPE_NAME[] = { "u16", "u32", "u64", "s16", "s32", "s64", "f32", "f64", "invalid" };

struct rspec {
    RegisterType type;
    uint32_t addr;
    int ckind;
    RegisterValueU lo, hi, def;
};

struct aspec {
    uint32_t base, size;
    uint16_t flags;
    bool cb;      /* callback-backed (area->mem == NULL) */
    bool nowrite; /* write callback is NULL */
};

struct tspec {
    int na, nr;
    struct aspec a[RT_MAXA];
    struct rspec r[RT_MAXR];
    bool be;
};

struct tab {
    struct tspec s;
    RegisterTable t;
    RegisterArea *areas;   /* na + 1 (sentinel), exact heap block */
    RegisterEntry *entries; /* nr + 1 (sentinel), exact heap block */
    RegisterAtom *store[RT_MAXA]; /* exact heap block per area */
    int cb_oob;            /* a callback was asked for words outside its area */
    long cb_reads, cb_writes;
    long cb_fail_read_at, cb_fail_write_at; /* environment deviation: the k-th read/write callback (counted from the last arming) answers IO_ERROR; -1 never */
};

static struct tab *g_tab; /* the table the callbacks belong to */

/* ---- reference: sizes, raw bits, octet image -------------------------------- */

static inline unsigned
ref_words(RegisterType t)
{
    switch (t) {
    case REG_TYPE_UINT16: case REG_TYPE_SINT16: return 1;
    case REG_TYPE_UINT32: case REG_TYPE_SINT32: case REG_TYPE_FLOAT32: return 2;
    case REG_TYPE_UINT64: case REG_TYPE_SINT64: case REG_TYPE_FLOAT64: return 4;
    default: return 0;
    }
}

static inline RegisterValueU
vu_zero(void)
{
    RegisterValueU u;
    memset(&u, 0, sizeof u);
    return u;
}

/* value -> width-limited raw bit pattern */
static inline uint64_t
ref_bits(RegisterType t, RegisterValueU v)
{
    uint64_t b = 0;
    switch (t) {
    case REG_TYPE_UINT16: b = v.u16; break;
    case REG_TYPE_SINT16: b = (uint16_t)v.s16; break;
    case REG_TYPE_UINT32: b = v.u32; break;
    case REG_TYPE_SINT32: b = (uint32_t)v.s32; break;
    case REG_TYPE_UINT64: b = v.u64; break;
    case REG_TYPE_SINT64: b = (uint64_t)v.s64; break;
    case REG_TYPE_FLOAT32: { uint32_t x; memcpy(&x, &v.f32, 4); b = x; break; }
    case REG_TYPE_FLOAT64: memcpy(&b, &v.f64, 8); break;
    default: break;
    }
    return b;
}

static inline RegisterValueU
ref_from_bits(RegisterType t, uint64_t b)
{
    RegisterValueU v = vu_zero();
    switch (t) {
    case REG_TYPE_UINT16: v.u16 = (uint16_t)b; break;
    case REG_TYPE_SINT16: v.s16 = (int16_t)(uint16_t)b; break;
    case REG_TYPE_UINT32: v.u32 = (uint32_t)b; break;
    case REG_TYPE_SINT32: v.s32 = (int32_t)(uint32_t)b; break;
    case REG_TYPE_UINT64: v.u64 = b; break;
    case REG_TYPE_SINT64: v.s64 = (int64_t)b; break;
    case REG_TYPE_FLOAT32: { uint32_t x = (uint32_t)b; memcpy(&v.f32, &x, 4); break; }
    case REG_TYPE_FLOAT64: memcpy(&v.f64, &b, 8); break;
    default: break;
    }
    return v;
}

/* octet image of a raw pattern in table order: big-endian = most significant
 * octet first, little-endian = least significant first */
static inline void
ref_image(RegisterType t, uint64_t bits, bool be, unsigned char *out)
{
    const unsigned n = ref_words(t) * 2;
    for (unsigned k = 0; k < n; ++k)
        out[k] = (unsigned char)(bits >> (8 * (be ? (n - 1 - k) : k)));
}

static inline uint64_t
ref_unimage(RegisterType t, const unsigned char *in, bool be)
{
    const unsigned n = ref_words(t) * 2;
    uint64_t b = 0;
    for (unsigned k = 0; k < n; ++k)
        b |= (uint64_t)in[k] << (8 * (be ? (n - 1 - k) : k));
    return b;
}

/* does a raw pattern decode?  integers: always; floats: zero or normal */
static inline bool
ref_storable(RegisterType t, uint64_t bits)
{
    if (t == REG_TYPE_FLOAT32) {
        const uint32_t e = (bits >> 23) & 0xff, m = bits & 0x7fffff;
        return !(e == 0xff || (e == 0 && m != 0));
    }
    if (t == REG_TYPE_FLOAT64) {
        const uint64_t e = (bits >> 52) & 0x7ff, m = bits & 0xfffffffffffffull;
        return !(e == 0x7ff || (e == 0 && m != 0));
    }
    return true;
}

/* IEEE NaN by bit pattern (floats only) */
static inline bool
ref_is_nan(RegisterType t, uint64_t bits)
{
    if (t == REG_TYPE_FLOAT32)
        return ((bits >> 23) & 0xff) == 0xff && (bits & 0x7fffff) != 0;
    if (t == REG_TYPE_FLOAT64)
        return ((bits >> 52) & 0x7ff) == 0x7ff && (bits & 0xfffffffffffffull) != 0;
    return false;
}

static inline int
ref_cmp(RegisterType t, RegisterValueU a, RegisterValueU b)
{
    switch (t) {
    case REG_TYPE_UINT16: return (a.u16 > b.u16) - (a.u16 < b.u16);
    case REG_TYPE_UINT32: return (a.u32 > b.u32) - (a.u32 < b.u32);
    case REG_TYPE_UINT64: return (a.u64 > b.u64) - (a.u64 < b.u64);
    case REG_TYPE_SINT16: return (a.s16 > b.s16) - (a.s16 < b.s16);
    case REG_TYPE_SINT32: return (a.s32 > b.s32) - (a.s32 < b.s32);
    case REG_TYPE_SINT64: return (a.s64 > b.s64) - (a.s64 < b.s64);
    case REG_TYPE_FLOAT32: return (a.f32 > b.f32) - (a.f32 < b.f32);
    case REG_TYPE_FLOAT64: return (a.f64 > b.f64) - (a.f64 < b.f64);
    default: return 0;
    }
}

/* the callback constraint used throughout: "the low bit of the raw pattern's
 * least significant octet is clear" for integers, "value is not negative" for
 * floats */
static inline bool
ref_cb_pred(RegisterType t, RegisterValueU v)
{
    if (t == REG_TYPE_FLOAT32)
        return !(ref_bits(t, v) >> 31);
    if (t == REG_TYPE_FLOAT64)
        return !(ref_bits(t, v) >> 63);
    return (ref_bits(t, v) & 1u) == 0;
}

static bool
rt_validator(const RegisterEntry *e, RegisterValue v)
{
    return ref_cb_pred(e->type, v.value);
}

/* constraint on a decoded value, outside initialisation */
static inline bool
ref_constraint(const struct rspec *r, RegisterValueU v)
{
    switch (r->ckind) {
    case K_NONE: return true;
    case K_FAIL: return false;
    case K_MIN: return ref_cmp(r->type, v, r->lo) >= 0;
    case K_MAX: return ref_cmp(r->type, v, r->hi) <= 0;
    case K_RANGE: return ref_cmp(r->type, v, r->lo) >= 0 && ref_cmp(r->type, v, r->hi) <= 0;
    case K_CB: return ref_cb_pred(r->type, v);
    default: return false;
    }
}

/* ---- callbacks for callback-backed areas ------------------------------------ */

/* Which area of the table under test does the descriptor handed to an accessor
 * describe?  The table's own descriptor is recognised by its place in the
 * array.  A library may just as well hand the accessor a COPY of the
 * descriptor (a snapshot on its stack): such a copy is identified by the
 * description fields the accessor is entitled to read -- its base and size are
 * looked up in the table spec.  -1: describes no area of the table. */
static inline int
rt_cb_area_index(const RegisterArea *a)
{
    const uintptr_t p = (uintptr_t)a, lo = (uintptr_t)g_tab->areas;
    if (p >= lo && p < lo + (uintptr_t)g_tab->s.na * sizeof(RegisterArea) && (p - lo) % sizeof(RegisterArea) == 0)
        return (int)((p - lo) / sizeof(RegisterArea));
    for (int i = 0; i < g_tab->s.na; ++i)
        if (g_tab->s.a[i].base == a->base && g_tab->s.a[i].size == a->size)
            return i;
    return -1;
}

static RegisterAccess
rt_cb_read(const RegisterArea *a, RegisterAtom *dest, RegisterOffset off, RegisterOffset n)
{
    RegisterAccess rv = REG_ACCESS_RESULT_INIT;
    const int i = rt_cb_area_index(a);
    if (g_tab->cb_fail_read_at >= 0 && g_tab->cb_reads == g_tab->cb_fail_read_at) {
        g_tab->cb_reads++;
        rv.code = REG_ACCESS_IO_ERROR;
        rv.address = a->base + off;
        return rv;
    }
    g_tab->cb_reads++;
    if (i < 0 || i >= g_tab->s.na || (uint64_t)off + n > g_tab->s.a[i].size) {
        g_tab->cb_oob++;
        return rv;
    }
    memcpy(dest, g_tab->store[i] + off, n * sizeof(RegisterAtom));
    return rv;
}

static RegisterAccess
rt_cb_write(RegisterArea *a, const RegisterAtom *src, RegisterOffset off, RegisterOffset n)
{
    RegisterAccess rv = REG_ACCESS_RESULT_INIT;
    const int i = rt_cb_area_index(a);
    if (g_tab->cb_fail_write_at >= 0 && g_tab->cb_writes == g_tab->cb_fail_write_at) {
        g_tab->cb_writes++;
        rv.code = REG_ACCESS_IO_ERROR;
        rv.address = a->base + off;
        return rv;
    }
    g_tab->cb_writes++;
    if (i < 0 || i >= g_tab->s.na || (uint64_t)off + n > g_tab->s.a[i].size) {
        g_tab->cb_oob++;
        return rv;
    }
    memcpy(g_tab->store[i] + off, src, n * sizeof(RegisterAtom));
    return rv;
}

/* ---- builder ------------------------------------------------------------------ */

static void
tab_free(struct tab *tb)
{
    for (int i = 0; i < RT_MAXA; ++i) {
        free(tb->store[i]);
        tb->store[i] = NULL;
    }
    free(tb->areas);
    free(tb->entries);
    tb->areas = NULL;
    tb->entries = NULL;
}

/* builds the description; does not call register_init */
static void
tab_build(struct tab *tb, const struct tspec *s)
{
    memset(tb, 0, sizeof *tb);
    tb->s = *s;
    tb->cb_fail_read_at = tb->cb_fail_write_at = -1;
    tb->areas = mc_exact((size_t)(s->na + 1) * sizeof(RegisterArea));
    tb->entries = mc_exact((size_t)(s->nr + 1) * sizeof(RegisterEntry));
    memset(tb->areas, 0, (size_t)(s->na + 1) * sizeof(RegisterArea));
    memset(tb->entries, 0, (size_t)(s->nr + 1) * sizeof(RegisterEntry));
    for (int i = 0; i < s->na; ++i) {
        RegisterArea *a = &tb->areas[i];
        tb->store[i] = mc_exact(s->a[i].size * sizeof(RegisterAtom));
        memset(tb->store[i], 0xa5, s->a[i].size * sizeof(RegisterAtom));
        a->flags = s->a[i].flags;
        a->base = s->a[i].base;
        a->size = s->a[i].size;
        if (s->a[i].cb) {
            a->read = rt_cb_read;
            a->write = s->a[i].nowrite ? NULL : rt_cb_write;
            a->mem = NULL;
        } else {
            a->read = reg_mem_read;
            a->write = s->a[i].nowrite ? NULL : reg_mem_write;
            a->mem = tb->store[i];
        }
    }
    /* sentinel area: all zero */
    for (int i = 0; i < s->nr; ++i) {
        RegisterEntry *e = &tb->entries[i];
        e->type = s->r[i].type;
        e->default_value = s->r[i].def;
        e->address = s->r[i].addr;
        e->name = NULL;
        switch (s->r[i].ckind) {
        case K_NONE: e->check.type = REGV_TYPE_TRIVIAL; break;
        case K_FAIL: e->check.type = REGV_TYPE_FAIL; break;
        case K_MIN: e->check.type = REGV_TYPE_MIN; e->check.arg.min = s->r[i].lo; break;
        case K_MAX: e->check.type = REGV_TYPE_MAX; e->check.arg.max = s->r[i].hi; break;
        case K_RANGE:
            e->check.type = REGV_TYPE_RANGE;
            e->check.arg.range.min = s->r[i].lo;
            e->check.arg.range.max = s->r[i].hi;
            break;
        case K_CB: e->check.type = REGV_TYPE_CALLBACK; e->check.arg.cb = rt_validator; break;
        }
    }
    tb->entries[s->nr].type = REG_TYPE_INVALID;
    tb->t.flags = 0;
    tb->t.area = tb->areas;
    tb->t.entry = tb->entries;
    register_make_bigendian(&tb->t, s->be);
    g_tab = tb;
}

/* ---- flat address space --------------------------------------------------------- */

static inline int
flat_area_of(const struct tspec *s, uint32_t addr)
{
    for (int i = 0; i < s->na; ++i)
        if (addr >= s->a[i].base && addr - s->a[i].base < s->a[i].size)
            return i;
    return -1;
}

static inline bool
flat_writable(const struct aspec *a)
{
    return (a->flags & REG_AF_WRITEABLE) && !a->nowrite;
}

static inline bool
flat_readable(const struct aspec *a)
{
    return (a->flags & REG_AF_READABLE) != 0;
}

/* current word at an address, read straight from the backing block */
static inline RegisterAtom
flat_word(const struct tab *tb, uint32_t addr)
{
    const int i = flat_area_of(&tb->s, addr);
    return tb->store[i][addr - tb->s.a[i].base];
}

/* octet image of a register's current words */
static inline void
flat_reg_image(const struct tab *tb, int r, unsigned char *out)
{
    const struct rspec *rs = &tb->s.r[r];
    for (unsigned w = 0; w < ref_words(rs->type); ++w) {
        RegisterAtom x = flat_word(tb, rs->addr + w);
        memcpy(out + 2 * w, &x, 2);
    }
}

/* snapshot of all area storage, concatenated */
static inline size_t
flat_snapshot(const struct tab *tb, RegisterAtom *out)
{
    size_t k = 0;
    for (int i = 0; i < tb->s.na; ++i) {
        memcpy(out + k, tb->store[i], tb->s.a[i].size * sizeof(RegisterAtom));
        k += tb->s.a[i].size;
    }
    return k;
}

static inline void
flat_restore(struct tab *tb, const RegisterAtom *in)
{
    size_t k = 0;
    for (int i = 0; i < tb->s.na; ++i) {
        memcpy(tb->store[i], in + k, tb->s.a[i].size * sizeof(RegisterAtom));
        k += tb->s.a[i].size;
    }
}

static inline uint32_t
touched_mask(struct tab *tb)
{
    uint32_t m = 0;
    for (int i = 0; i < tb->s.nr; ++i)
        if (register_was_touched(&tb->t, (RegisterHandle)i))
            m |= 1u << i;
    return m;
}

static inline void
touched_restore(struct tab *tb, uint32_t m)
{
    for (int i = 0; i < tb->s.nr; ++i)
        if (m & (1u << i))
            register_touch(&tb->t, (RegisterHandle)i);
        else
            register_untouch(&tb->t, (RegisterHandle)i);
}

/* was the armed callback fault (cb_fail_*_at, counted from the last arming)
 * reached by the calls made since? */
static inline bool
tab_fault_reached(const struct tab *tb)
{
    return (tb->cb_fail_read_at >= 0 && tb->cb_reads > tb->cb_fail_read_at)
        || (tb->cb_fail_write_at >= 0 && tb->cb_writes > tb->cb_fail_write_at);
}

/* public probe: does the table answer as one that is (wholly or partly) out of
 * service?  No statement mentions driver I/O errors: a library that takes the
 * table -- or only the area whose callback failed -- out of service after an
 * area callback answered IO_ERROR (fail-safe latch, whatever code it answers
 * with from then on: UNINITIALISED, IO_ERROR, ...) keeps C01/C02/C05 true, so a
 * history whose injected fault was reached is only continued when this probe
 * says the table is still in service.  Probe: a zero-length block read at the
 * first area's base and a full-extent block read of every area (base_i,
 * size_i) into a scratch block; a read of mapped words succeeds on a table in
 * service (C03), so ANY non-success answer means "out of service".  The probe
 * reads through the area callbacks: it runs with the faults disarmed and puts
 * the callback counters, the fault arming and the bounds flag back as they
 * were, so nothing of it is counted. */
static inline bool
tab_out_of_service(struct tab *tb)
{
    struct tab *const g_save = g_tab;
    const long reads = tb->cb_reads, writes = tb->cb_writes;
    const long fr = tb->cb_fail_read_at, fw = tb->cb_fail_write_at;
    const int oob = tb->cb_oob;
    bool out = false;
    g_tab = tb;
    tb->cb_fail_read_at = tb->cb_fail_write_at = -1;
    RegisterAtom *buf = mc_exact(sizeof(RegisterAtom));
    buf[0] = 0;
    RegisterAccess a = register_block_read(&tb->t, tb->s.na > 0 ? tb->s.a[0].base : 0, 0, buf);
    free(buf);
    if (a.code != REG_ACCESS_SUCCESS)
        out = true;
    for (int i = 0; i < tb->s.na && !out; ++i) {
        if (tb->s.a[i].size == 0)
            continue;
        buf = mc_exact(tb->s.a[i].size * sizeof(RegisterAtom));
        memset(buf, 0, tb->s.a[i].size * sizeof(RegisterAtom));
        a = register_block_read(&tb->t, tb->s.a[i].base, tb->s.a[i].size, buf);
        free(buf);
        if (a.code != REG_ACCESS_SUCCESS)
            out = true;
    }
    tb->cb_reads = reads;
    tb->cb_writes = writes;
    tb->cb_fail_read_at = fr;
    tb->cb_fail_write_at = fw;
    tb->cb_oob = oob;
    g_tab = g_save;
    return out;
}

/* an address as text: decimal, hexadecimal from 2^24 on (tables near the top
 * of the address space); rotates through a few static buffers */
static const char *
addr_str(uint32_t a)
{
    static char b[8][12];
    static int k;
    char *o = b[k++ & 7];
    snprintf(o, sizeof b[0], a >= 0x1000000u ? "0x%x" : "%u", a);
    return o;
}

/* human-readable one-line rendering of a table spec */
static const char *
tspec_str(const struct tspec *s)
{
    static char buf[300];
    size_t l = (size_t)snprintf(buf, sizeof buf, "%s areas[", s->be ? "BE" : "LE");
    for (int i = 0; i < s->na && l < sizeof buf - 40; ++i)
        l += (size_t)snprintf(buf + l, sizeof buf - l, "%s%s+%u:%s%s%s%s", i ? " " : "",
                              addr_str(s->a[i].base), s->a[i].size,
                              (s->a[i].flags & REG_AF_READABLE) ? "R" : "",
                              (s->a[i].flags & REG_AF_WRITEABLE) ? "W" : "",
                              (s->a[i].flags & REG_AF_SKIP_DEFAULTS) ? "S" : "",
                              s->a[i].cb ? (s->a[i].nowrite ? ":cb-nowr" : ":cb") : (s->a[i].nowrite ? ":nowr" : ""));
    l += (size_t)snprintf(buf + l, sizeof buf - l, "] regs[");
    for (int i = 0; i < s->nr && l < sizeof buf - 40; ++i)
        l += (size_t)snprintf(buf + l, sizeof buf - l, "%s%s@%s:%s", i ? " " : "",
                              TYPE_NAME[s->r[i].type], addr_str(s->r[i].addr), CKIND_NAME[s->r[i].ckind]);
    snprintf(buf + l, sizeof buf - l, "]");
    return buf;
}

/* ---- block-write verdict of the flat model ----------------------------------------- */
struct verdict {
    /* first address per failure class, -1 if the class does not apply */
    long unmapped, readonly, invalid, range;
    uint32_t overlapped; /* mask of registers the block overlaps */
};

static void
flat_write_verdict(const struct tab *t, uint32_t addr, uint32_t n, const RegisterAtom *buf, struct verdict *v)
{
    const struct tspec *s = &t->s;
    v->unmapped = v->readonly = v->invalid = v->range = -1;
    v->overlapped = 0;
    /* exclusive ends are formed in 64 bits: an extent whose last word is
     * 0xffffffff ends at 2^32 (the request itself never wraps: addr + n <= 2^32) */
    const uint64_t wend = (uint64_t)addr + n;
    for (uint64_t a64 = addr; a64 < wend; ++a64) {
        const uint32_t a = (uint32_t)a64;
        const int ai = flat_area_of(s, a);
        if (ai < 0) {
            if (v->unmapped < 0)
                v->unmapped = (long)a;
        } else if (!flat_writable(&s->a[ai])) {
            if (v->readonly < 0)
                v->readonly = (long)a;
        }
    }
    for (int r = 0; r < s->nr; ++r) {
        const struct rspec *rs = &s->r[r];
        const uint32_t rw = ref_words(rs->type);
        if (n == 0 || (uint64_t)rs->addr + rw <= addr || wend <= rs->addr)
            continue;
        v->overlapped |= 1u << r;
        unsigned char img[8];
        flat_reg_image(t, r, img);
        for (uint32_t w = 0; w < rw; ++w) {
            const uint32_t a = rs->addr + w; /* a word of the register: <= 0xffffffff */
            if (a >= addr && a < wend)
                memcpy(img + 2 * w, &buf[a - addr], 2);
        }
        const uint64_t bits = ref_unimage(rs->type, img, s->be);
        const long first = (long)(addr > rs->addr ? addr : rs->addr);
        if (!ref_storable(rs->type, bits)) {
            if (v->invalid < 0)
                v->invalid = first;
            /* "out-of-range" applies besides "invalid" (the statement fixes no
             * precedence between the classes, nor the order in which an
             * implementation decodes and judges):
             *   - an infinite or subnormal pattern is still an ordered value:
             *     when it lies outside the register's min/max/range;
             *   - a NaN lies inside no min/max/range interval;
             *   - an always-fail register is out of range for every content;
             *   - what a user predicate answers on an undecodable pattern is
             *     open (it may never be asked, or may refuse it). */
            bool also_range;
            switch (rs->ckind) {
            case K_NONE: also_range = false; break;
            case K_FAIL: case K_CB: also_range = true; break;
            default: /* min, max, range */
                also_range = ref_is_nan(rs->type, bits) || !ref_constraint(rs, ref_from_bits(rs->type, bits));
                break;
            }
            if (also_range && v->range < 0)
                v->range = first;
        } else if (!ref_constraint(rs, ref_from_bits(rs->type, bits))) {
            if (v->range < 0)
                v->range = first;
        }
    }
}


/* typed constructors for RegisterValueU from small integers / doubles */
static inline RegisterValueU
vu_int(RegisterType t, int64_t x)
{
    RegisterValueU v = vu_zero();
    switch (t) {
    case REG_TYPE_UINT16: v.u16 = (uint16_t)x; break;
    case REG_TYPE_SINT16: v.s16 = (int16_t)x; break;
    case REG_TYPE_UINT32: v.u32 = (uint32_t)x; break;
    case REG_TYPE_SINT32: v.s32 = (int32_t)x; break;
    case REG_TYPE_UINT64: v.u64 = (uint64_t)x; break;
    case REG_TYPE_SINT64: v.s64 = x; break;
    case REG_TYPE_FLOAT32: v.f32 = (float)x; break;
    case REG_TYPE_FLOAT64: v.f64 = (double)x; break;
    default: break;
    }
    return v;
}

static inline bool
type_is_float(RegisterType t)
{
    return t == REG_TYPE_FLOAT32 || t == REG_TYPE_FLOAT64;
}

static inline bool
type_is_unsigned(RegisterType t)
{
    return t == REG_TYPE_UINT16 || t == REG_TYPE_UINT32 || t == REG_TYPE_UINT64;
}

#endif /* VERIF_REGTAB_H */
