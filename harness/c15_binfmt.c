/*
 * C15 -- endian codecs of include/ufw/binary-format.h: bounded-exhaustive
 * comparison of every bf_* function with shift/mask arithmetic on uint64_t.
 *
 * Every function of the header is reached through a macro-generated table
 * (width, order, kind, ref-function, set-function; swap helpers; range
 * predicates).  At start-up the header that is being compiled
 * ($UFW_REPO/include/ufw/binary-format.h) is scanned for the definitions of
 * bf_ref_*, bf_set_*, bf_swap*, bf_inrange_*: a definition without a table row
 * is recorded as a cap ("not driven").  Fewer plain definitions than table rows
 * (macro-generated functions) is not a gap: the wrappers call all 111 names, so
 * the harness does not compile unless every one exists.
 *
 * A value of a W-bit row is handled as its W-bit pattern v (0 <= v < 2^W).  The
 * argument handed to a signed setter is v sign-extended from bit W-1; floats
 * travel as bit patterns (memcpy), never through arithmetic.
 *
 * Families (numbering never depends on what ufw does):
 *   sweep     all patterns of a 16/24-bit row at every offset 0..7, of a 32-bit
 *             row in the thorough tier (offset rotating with the value), in
 *             cases of <= 2^20 patterns
 *   value     structured patterns for every row: every octet lane x every octet
 *             value on backgrounds 00/ff/a5, single bits and their complements,
 *             2^k+-1 and -(2^k)+-1, width/sign boundaries, the unit test's
 *             constants, float classes and NaN payloads; each at offsets 0..7 in
 *             an exact-size block (ASan red zone directly behind the datum) and
 *             in a block with in-band canaries on both sides
 *   wide      arguments of the partial-width setters with bits above the row's
 *             width set.  Not a value of that width (all unsigned ones, signed
 *             ones that are not a sign extension): only "writes nothing
 *             outside width/8 octets" (a setter may store the low octets or
 *             refuse: the returned address is not demanded).  Sign extensions
 *             of a W-bit value: octets, returned address, neighbours
 *   swap      reversal and involution, structured + sweeps
 *   inrange   structured boundaries over the whole argument type + sweeps
 *   typed     the datum lives in an object whose declared element type is
 *             uint16_t, uint32_t or uint64_t (a register image) at octet offsets
 *             0..7.  The harness assigns and reads single elements of the image
 *             through lvalues of that type directly before/after the codec
 *             call, inside one optimised function per (row, element type) into
 *             which the codec is inlined: store after every element was
 *             assigned, load before and after every element is assigned.
 *             "Loading those octets returns the same value" and "writes exactly
 *             width/8 octets" must hold for such memory too; a codec that
 *             accesses memory through an lvalue of another non-character type
 *             lets the optimiser reorder it against the image accesses.
 *
 * Build variants (engine/checks.d/C15.py): the same source is compiled as
 *   c15_binfmt                       -O2, swap builtins          (all families)
 *   c15_binfmt_o2_portable_swap      -O2, -UUFW_USE_BUILTIN_SWAP (C15_LIGHT)
 *   c15_binfmt_o1_portable_swap      -O1, -UUFW_USE_BUILTIN_SWAP (C15_LIGHT)
 *   c15_binfmt_o2_plain              -O2, swap builtins, -fno-sanitize=all
 *                                    (C15_LIGHT, C15_PLAIN): the sanitizers'
 *                                    instrumentation keeps the optimiser from
 *                                    using what type-based alias analysis tells
 *                                    it (loads are not forwarded / hoisted over
 *                                    the checks), so the typed-image family only
 *                                    has its full meaning in a build without it
 * the first three with -fsanitize=alignment: "at any alignment" is part of the statement, a
 * codec that dereferences a uintNN_t lvalue at an odd address is reported by
 * the sanitizer (attributed to the case in flight as clause memsafe).
 * C15_LIGHT: the 24-bit rows are swept once with the offset rotating with the
 * pattern instead of once per offset, the 2^32 row and predicate sweeps are left
 * to the main variant; structured families, typed images and swap sweeps are
 * complete in every variant.
 */
#include "mc.h"

#include <ufw/binary-format.h>

/* which build of the header this is (the bound text of the evidence says so) */
#if defined(UFW_USE_BUILTIN_SWAP)
#define C15_SWAPS "swap builtins"
#else
#define C15_SWAPS "portable swaps"
#endif
#if defined(C15_PLAIN)
#define C15_SAN ", no sanitizer instrumentation"
#else
#define C15_SAN ""
#endif
#if defined(C15_O0)
#define C15_BUILD "-O0 with the stack below the caller filled with a5 before every load, " C15_SWAPS C15_SAN
#elif defined(__OPTIMIZE__) && !defined(C15_O1)
#define C15_BUILD "-O2, " C15_SWAPS C15_SAN
#else
#define C15_BUILD "-O1, " C15_SWAPS C15_SAN
#endif

/* ======================================================================== *
 *  The function table
 * ======================================================================== */

#define ORDERS(X, W, K, T) X(W, K, n, T) X(W, K, b, T) X(W, K, l, T)
#define INT_ROWS(X)                                                            \
    ORDERS(X, 16, u, uint16_t) ORDERS(X, 16, s, int16_t)                       \
    ORDERS(X, 24, u, uint32_t) ORDERS(X, 24, s, int32_t)                       \
    ORDERS(X, 32, u, uint32_t) ORDERS(X, 32, s, int32_t)                       \
    ORDERS(X, 40, u, uint64_t) ORDERS(X, 40, s, int64_t)                       \
    ORDERS(X, 48, u, uint64_t) ORDERS(X, 48, s, int64_t)                       \
    ORDERS(X, 56, u, uint64_t) ORDERS(X, 56, s, int64_t)                       \
    ORDERS(X, 64, u, uint64_t) ORDERS(X, 64, s, int64_t)
#define FLT_ROWS(X) ORDERS(X, 32, f, float) ORDERS(X, 64, f, double)
#define ALL_ROWS(X) INT_ROWS(X) FLT_ROWS(X)

#define SWAP_ROWS(X)                                                           \
    X(16, uint16_t) X(24, uint32_t) X(32, uint32_t) X(40, uint64_t)            \
    X(48, uint64_t) X(56, uint64_t) X(64, uint64_t)

#define RANGE_ROWS(X)                                                          \
    X(24, u, uint32_t) X(24, s, int32_t) X(40, u, uint64_t) X(40, s, int64_t)  \
    X(48, u, uint64_t) X(48, s, int64_t) X(56, u, uint64_t) X(56, s, int64_t)

/* Table size when this harness was written: 48 ref + 48 set + 7 swap + 8
 * inrange `static inline` definitions in binary-format.h. */
#define FUNCTIONS_AT_WRITING_TIME 111

enum { KIND_u = 'u', KIND_s = 's', KIND_f = 'f', ORD_n = 'n', ORD_b = 'b', ORD_l = 'l' };

/* Uniform wrappers: a loaded value is returned as 64 bits (unsigned: zero
 * extended from the function's return type, signed: sign extended from it,
 * float: the bits of the returned object). */
/* C15_O0 (unoptimised build, no sanitizer): every load is preceded by a call
 * that fills its own frame -- the region the loader's frame is about to occupy
 * -- with a5, so that a loader returning octets of an object it did not fully
 * initialise returns a5 lanes instead of whatever the previous call left
 * (seed C15r).  A codec that initialises what it returns cannot notice. */
#if defined(C15_O0)
__attribute__((noinline)) static void
c15_stack_poison(void)
{
    volatile unsigned char a[384];
    for (size_t i = 0; i < sizeof a; ++i)
        a[i] = 0xa5;
}
#define C15_POISON() c15_stack_poison()
#else
#define C15_POISON() ((void)0)
#endif
#define WRAP_u(W, O, T)                                                        \
    static uint64_t wr_u##W##O(const void *p) { C15_POISON(); return (uint64_t)bf_ref_u##W##O(p); } \
    static void *ws_u##W##O(void *p, uint64_t v) { return bf_set_u##W##O(p, (T)v); }
#define WRAP_s(W, O, T)                                                        \
    static uint64_t wr_s##W##O(const void *p) { C15_POISON(); return (uint64_t)(int64_t)bf_ref_s##W##O(p); } \
    static void *ws_s##W##O(void *p, uint64_t v) { return bf_set_s##W##O(p, (T)(int64_t)v); }
#define WRAP_f(W, O, T)                                                        \
    static uint64_t wr_f##W##O(const void *p)                                  \
    {                                                                          \
        C15_POISON();                                                          \
        const T x = bf_ref_f##W##O(p);                                         \
        uint##W##_t b;                                                         \
        memcpy(&b, &x, sizeof b);                                              \
        return b;                                                              \
    }                                                                          \
    static void *ws_f##W##O(void *p, uint64_t v)                               \
    {                                                                          \
        const uint##W##_t b = (uint##W##_t)v;                                  \
        T x;                                                                   \
        memcpy(&x, &b, sizeof x);                                              \
        return bf_set_f##W##O(p, x);                                           \
    }
#define WRAP(W, K, O, T) WRAP_##K(W, O, T)
ALL_ROWS(WRAP)

struct row {
    int width;
    int kind, order;
    int argbits;
    const char *refname, *setname;
    uint64_t (*ref)(const void *);
    void *(*set)(void *, uint64_t);
};
#define ROWINIT(W, K, O, T)                                                    \
    { W, KIND_##K, ORD_##O, (int)(sizeof(T) * 8), "bf_ref_" #K #W #O, "bf_set_" #K #W #O, \
      wr_##K##W##O, ws_##K##W##O }
#define ROW(W, K, O, T) ROWINIT(W, K, O, T),
static const struct row rows[] = { ALL_ROWS(ROW) };
#define NROWS ((int)(sizeof rows / sizeof rows[0]))

#define WRAPSWAP(W, T) \
    static uint64_t wsw##W(uint64_t v) { return (uint64_t)bf_swap##W((T)v); }
SWAP_ROWS(WRAPSWAP)
struct swaprow {
    int width, argbits;
    const char *name;
    uint64_t (*fn)(uint64_t);
};
#define SWAPROW(W, T) { W, (int)(sizeof(T) * 8), "bf_swap" #W, wsw##W },
static const struct swaprow swaps[] = { SWAP_ROWS(SWAPROW) };
#define NSWAPS ((int)(sizeof swaps / sizeof swaps[0]))

#define WRAPRANGE(W, K, T) \
    static bool wir_##K##W(uint64_t v) { return bf_inrange_##K##W((T)v); }
RANGE_ROWS(WRAPRANGE)
struct rangerow {
    int width, kind, argbits;
    const char *name;
    bool (*fn)(uint64_t);
};
#define RANGEROW(W, K, T) { W, KIND_##K, (int)(sizeof(T) * 8), "bf_inrange_" #K #W, wir_##K##W },
static const struct rangerow ranges[] = { RANGE_ROWS(RANGEROW) };
#define NRANGES ((int)(sizeof ranges / sizeof ranges[0]))

/* ======================================================================== *
 *  Table vs header guard
 * ======================================================================== */

static bool
in_table(const char *name)
{
    for (int i = 0; i < NROWS; ++i)
        if (!strcmp(name, rows[i].refname) || !strcmp(name, rows[i].setname))
            return true;
    for (int i = 0; i < NSWAPS; ++i)
        if (!strcmp(name, swaps[i].name))
            return true;
    for (int i = 0; i < NRANGES; ++i)
        if (!strcmp(name, ranges[i].name))
            return true;
    return false;
}

static bool
idchar(int c)
{
    return (c >= 'a' && c <= 'z') || (c >= 'A' && c <= 'Z') || (c >= '0' && c <= '9') || c == '_';
}

static void
table_guard(void)
{
    const int table = 2 * NROWS + NSWAPS + NRANGES;
    MC_ANCHOR(table == FUNCTIONS_AT_WRITING_TIME, "the macro table no longer expands to the 111 functions it was written for");

    const char *repo = getenv("UFW_REPO");
    if (repo == NULL || *repo == 0)
        repo = "/repo";
    char path[1024];
    snprintf(path, sizeof path, "%s/include/ufw/binary-format.h", repo);
    FILE *f = fopen(path, "r");
    if (f == NULL)
        mc_broken("cannot open %s to compare it with the function table", path);
    static char text[1 << 20];
    const size_t n = fread(text, 1, sizeof text - 1, f);
    fclose(f);
    if (n == sizeof text - 1)
        mc_broken("%s is larger than the scanner's buffer", path);
    text[n] = 0;
    /* blank out comments, keep the line structure */
    for (size_t i = 0; i + 1 < n; ++i) {
        if (text[i] == '/' && text[i + 1] == '*') {
            while (i + 1 < n && !(text[i] == '*' && text[i + 1] == '/')) {
                if (text[i] != '\n')
                    text[i] = ' ';
                ++i;
            }
            text[i] = text[i + 1] = ' ';
        } else if (text[i] == '/' && text[i + 1] == '/') {
            while (i < n && text[i] != '\n')
                text[i++] = ' ';
        }
    }
    /* a definition: a family name directly followed by '(' that starts its line,
     * or sits on a line that starts with `static` */
    int found = 0, unknown = 0;
    size_t line = 0;
    for (size_t i = 0; i < n; ++i) {
        if (i == 0 || text[i - 1] == '\n')
            line = i;
        if (strncmp(text + i, "bf_", 3) != 0 || (i > 0 && idchar(text[i - 1])))
            continue;
        size_t e = i;
        while (idchar(text[e]))
            ++e;
        char name[64];
        if (e - i >= sizeof name)
            continue;
        memcpy(name, text + i, e - i);
        name[e - i] = 0;
        if (strncmp(name, "bf_ref_", 7) && strncmp(name, "bf_set_", 7) && strncmp(name, "bf_swap", 7)
            && strncmp(name, "bf_inrange_", 11))
            continue;
        size_t a = e;
        while (text[a] == ' ' || text[a] == '\t')
            ++a;
        if (text[a] != '(')
            continue;
        size_t s = line;
        while (text[s] == ' ' || text[s] == '\t')
            ++s;
        const bool is_def = (s == i) || (strncmp(text + s, "static", 6) == 0 && !idchar(text[s + 6]));
        if (!is_def) {
            i = e;
            continue;
        }
        /* a forward prototype is not a definition: its statement ends in ';'
         * before any '{' */
        {
            size_t q = a;
            int depth = 0;
            for (; q < n; ++q) {
                if (text[q] == '(')
                    ++depth;
                else if (text[q] == ')')
                    --depth;
                else if (depth == 0 && (text[q] == ';' || text[q] == '{'))
                    break;
            }
            if (q < n && text[q] == ';') {
                i = e;
                continue;
            }
        }
        if (!in_table(name)) {
            /* a function the table does not know: it cannot be driven, but that
             * must not stop the functions that are known from being checked */
            if (unknown++ == 0)
                mc_cap("binary-format.h defines %s (and possibly more) without a row in the C15 function table: not driven", name);
            i = e;
            continue;
        }
        ++found;
        i = e;
    }
    /* found < table: some functions of the table are not written as plain
     * `static inline` definitions (generated by a macro template, or macros
     * themselves).  That takes nothing away from the check: the wrappers above
     * call every one of the 111 names, so this harness does not compile unless
     * each exists, and each is driven.  The scan only serves to notice
     * functions the table does not know (reported above). */
    if (found > table)
        mc_cap("the header scan counts %d definitions for the %d names of the C15 table (duplicate definitions under #if?); all %d names are driven",
               found, table, table);
}

/* ======================================================================== *
 *  Reference: shift/mask arithmetic on uint64_t
 * ======================================================================== */

static bool host_little;

static inline uint64_t
maskw(int W)
{
    return (W >= 64) ? ~(uint64_t)0 : (((uint64_t)1 << W) - 1u);
}

static inline uint64_t
sext(uint64_t v, int W)
{
    v &= maskw(W);
    if (W < 64 && ((v >> (W - 1)) & 1u))
        v |= ~maskw(W);
    return v;
}

/* the 64-bit image of the value a row's pattern v stands for */
static inline uint64_t
canon(const struct row *r, uint64_t v)
{
    return (r->kind == KIND_s) ? sext(v, r->width) : (v & maskw(r->width));
}

static inline bool
row_big(const struct row *r)
{
    return r->order == ORD_b || (r->order == ORD_n && !host_little);
}

/* octet i of the stored form: big = most significant octet first */
static inline void
encode(unsigned char *dst, uint64_t v, int W, bool big)
{
    const int nb = W / 8;
    for (int i = 0; i < nb; ++i)
        dst[i] = (unsigned char)(big ? (v >> (W - 8 * (i + 1))) : (v >> (8 * i)));
}

static inline uint64_t
reverse_octets(uint64_t x, int W)
{
    const int nb = W / 8;
    uint64_t r = 0;
    for (int i = 0; i < nb; ++i)
        r |= ((x >> (8 * i)) & 0xffu) << (W - 8 * (i + 1));
    return r;
}

/* is the argument pattern a (B bits wide, signed or unsigned) representable in W bits */
static inline bool
representable(uint64_t a, int B, int W, int kind)
{
    a &= maskw(B);
    if (kind == KIND_u)
        return (a >> W) == 0;
    /* signed: bits W-1 .. B-1 must all be equal */
    const uint64_t top = a >> (W - 1);
    const uint64_t ones = maskw(B) >> (W - 1);
    return top == 0 || top == ones;
}

static void
anchors(void)
{
    const uint16_t probe = 0x0102u;
    unsigned char first;
    memcpy(&first, &probe, 1);
    host_little = (first == 0x02u);
#if defined(SYSTEM_ENDIANNESS_LITTLE)
    MC_ANCHOR(host_little, "built with SYSTEM_ENDIANNESS_LITTLE on a host that is not little-endian");
#else
    MC_ANCHOR(!host_little, "built with SYSTEM_ENDIANNESS_BIG on a host that is not big-endian");
#endif
    unsigned char b[8];
    /* test/t-binary-format.c: t_big_set_*, t_little_set_* */
    static const unsigned char e16b[] = { 0x12, 0x34 }, e24b[] = { 0xff, 0xee, 0xdd }, e24l[] = { 0xdd, 0xee, 0xff },
                               e40b[] = { 0xff, 0xee, 0xdd, 0xcc, 0xbb },
                               e56b[] = { 0xff, 0xee, 0xdd, 0xcc, 0xbb, 0xaa, 0x99 },
                               e64b[] = { 0x11, 0x22, 0x33, 0x44, 0x55, 0x66, 0x77, 0x88 },
                               e64l[] = { 0x88, 0x77, 0x66, 0x55, 0x44, 0x33, 0x22, 0x11 };
    encode(b, 0x1234u, 16, true);
    MC_ANCHOR(!memcmp(b, e16b, 2), "reference: 0x1234 big-endian is 12 34");
    encode(b, 0xffeeddul, 24, true);
    MC_ANCHOR(!memcmp(b, e24b, 3), "reference: 0xffeedd big-endian is ff ee dd");
    encode(b, 0xffeeddul, 24, false);
    MC_ANCHOR(!memcmp(b, e24l, 3), "reference: 0xffeedd little-endian is dd ee ff");
    encode(b, 0xffeeddccbbull, 40, true);
    MC_ANCHOR(!memcmp(b, e40b, 5), "reference: 0xffeeddccbb big-endian");
    encode(b, 0xffeeddccbbaa99ull, 56, true);
    MC_ANCHOR(!memcmp(b, e56b, 7), "reference: 0xffeeddccbbaa99 big-endian");
    encode(b, 0x1122334455667788ull, 64, true);
    MC_ANCHOR(!memcmp(b, e64b, 8), "reference: 0x1122334455667788 big-endian");
    encode(b, 0x1122334455667788ull, 64, false);
    MC_ANCHOR(!memcmp(b, e64l, 8), "reference: 0x1122334455667788 little-endian");
    /* t_big_ref_signed: ff ee dd .. read as s24/s40/s48/s56 */
    MC_ANCHOR((int64_t)sext(0xffeeddull, 24) == -4387, "reference: s24 ffeedd is -4387");
    MC_ANCHOR((int64_t)sext(0xffeeddccbbull, 40) == -287454021ll, "reference: s40 ffeeddccbb is -287454021");
    MC_ANCHOR((int64_t)sext(0xffeeddccbbaaull, 48) == -73588229206ll, "reference: s48");
    MC_ANCHOR((int64_t)sext(0xffeeddccbbaa99ull, 56) == -18838586676583ll, "reference: s56");
    MC_ANCHOR(sext(0x7fffffull, 24) == 0x7fffffull, "reference: positive s24 is not extended");
    /* t_swap* */
    MC_ANCHOR(reverse_octets(0x1234u, 16) == 0x3412u, "reference: swap16");
    MC_ANCHOR(reverse_octets(0x00345678ul, 24) == 0x00785634ul, "reference: swap24");
    MC_ANCHOR(reverse_octets(0x12345678ul, 32) == 0x78563412ul, "reference: swap32");
    MC_ANCHOR(reverse_octets(0x4455667788ull, 40) == 0x8877665544ull, "reference: swap40");
    MC_ANCHOR(reverse_octets(0x334455667788ull, 48) == 0x887766554433ull, "reference: swap48");
    MC_ANCHOR(reverse_octets(0x22334455667788ull, 56) == 0x88776655443322ull, "reference: swap56");
    MC_ANCHOR(reverse_octets(0x1122334455667788ull, 64) == 0x8877665544332211ull, "reference: swap64");
    /* t_range_test */
    MC_ANCHOR(!representable((uint64_t)(int64_t)-8388609l, 32, 24, KIND_s), "reference: min(s24)-1 not representable");
    MC_ANCHOR(representable((uint64_t)(int64_t)-8388608l, 32, 24, KIND_s), "reference: min(s24) representable");
    MC_ANCHOR(representable(8388607ul, 32, 24, KIND_s), "reference: max(s24) representable");
    MC_ANCHOR(!representable(8388608ul, 32, 24, KIND_s), "reference: max(s24)+1 not representable");
    MC_ANCHOR(!representable((uint64_t)-549755813889ll, 64, 40, KIND_s), "reference: min(s40)-1");
    MC_ANCHOR(representable((uint64_t)-549755813888ll, 64, 40, KIND_s), "reference: min(s40)");
    MC_ANCHOR(representable(36028797018963967ull, 64, 56, KIND_s), "reference: max(s56)");
    MC_ANCHOR(!representable(36028797018963968ull, 64, 56, KIND_s), "reference: max(s56)+1");
    MC_ANCHOR(representable(16777215ul, 32, 24, KIND_u) && !representable(16777216ul, 32, 24, KIND_u), "reference: u24");
    MC_ANCHOR(representable(281474976710655ull, 64, 48, KIND_u) && !representable(281474976710656ull, 64, 48, KIND_u),
              "reference: u48");
}

/* ======================================================================== *
 *  Memory: exact-size blocks, allocated once
 * ======================================================================== */

#define PAD 16
static unsigned char *wblk[9][8]; /* [nb][off]: off + nb octets, datum at the very end */
static unsigned char *rblk[9][8]; /* same geometry, source of loads */
static unsigned char *pblk[9][8]; /* PAD + off + nb + PAD octets, in-band canaries */

static inline unsigned char
canary(size_t i)
{
    return (unsigned char)(0xc3u ^ (i * 29u));
}

static void
make_blocks(void)
{
    for (int nb = 2; nb <= 8; ++nb)
        for (int off = 0; off < 8; ++off) {
            wblk[nb][off] = mc_exact((size_t)(off + nb));
            rblk[nb][off] = mc_exact((size_t)(off + nb));
            pblk[nb][off] = mc_exact((size_t)(PAD + off + nb + PAD));
            for (int i = 0; i < off + nb; ++i)
                wblk[nb][off][i] = rblk[nb][off][i] = canary((size_t)i);
        }
}

static const char *
hex(char *buf, const unsigned char *p, int n)
{
    for (int i = 0; i < n; ++i)
        snprintf(buf + 3 * i, 4, "%02x ", p[i]);
    if (n)
        buf[3 * n - 1] = 0;
    else
        buf[0] = 0;
    return buf;
}

/* A returned address for a message or the replay log: as an offset from the
 * datum pointer when it lies inside the block the datum lives in (one past its
 * end included), in words otherwise -- never an address or a difference of
 * unrelated addresses (replays must print identical text). */
static const char *
retdesc(char *buf, size_t n, const void *ret, const void *blk, size_t total, const void *p)
{
    const unsigned char *r = ret, *b = blk;
    if (ret == NULL)
        snprintf(buf, n, "NULL");
    else if (r >= b && r <= b + total)
        snprintf(buf, n, "ptr%+lld", (long long)(r - (const unsigned char *)p));
    else
        snprintf(buf, n, "an address outside the block");
    return buf;
}

static const char *
load_clause(const struct row *r)
{
    return r->kind == KIND_s ? "C15/load-sign-extends" : r->kind == KIND_f ? "C15/load-float-bits" : "C15/load-value";
}

/* One store + load of pattern v through row r at offset off in the exact-size
 * blocks.  Returns false after reporting the first disagreement. */
static inline __attribute__((always_inline)) bool
store_load(const struct row *r, uint64_t v, int off)
{
    const int W = r->width, nb = W / 8;
    unsigned char exp[8];
    encode(exp, v, W, row_big(r));
    const uint64_t arg = canon(r, v);
    unsigned char *blk = wblk[nb][off], *p = blk + off;
    for (int j = 0; j < nb; ++j)
        p[j] = (unsigned char)~exp[j]; /* an octet that is not written stays wrong */
    void *ret = r->set(p, arg);
    char h1[32], h2[32];
    unsigned diff = 0; /* plain loops: the libc calls are intercepted by ASan and dominate a 2^32 sweep */
    for (int j = 0; j < nb; ++j)
        diff |= (unsigned)(p[j] ^ exp[j]);
    if (diff != 0) {
        mc_fail("C15/store-octets", "%s(ptr+%d, 0x%llx) stored [%s], expected [%s]", r->setname, off,
                (unsigned long long)arg, hex(h1, p, nb), hex(h2, exp, nb));
        return false;
    }
    if (ret != (void *)(p + nb)) {
        char rd[48];
        mc_fail("C15/returns-past-end", "%s(ptr, 0x%llx) with ptr = block+%d returned %s, expected ptr+%d", r->setname,
                (unsigned long long)arg, off, retdesc(rd, sizeof rd, ret, blk, (size_t)(off + nb), p), nb);
        return false;
    }
    for (int j = 0; j < off; ++j)
        if (blk[j] != canary((size_t)j)) {
            mc_fail("C15/neighbours-untouched", "%s(ptr+%d, 0x%llx) changed the octet %d before the datum to %02x",
                    r->setname, off, (unsigned long long)arg, off - j, blk[j]);
            blk[j] = canary((size_t)j);
            return false;
        }
    /* load from octets produced by the reference, not by the setter */
    unsigned char *q = rblk[nb][off] + off;
    for (int j = 0; j < nb; ++j)
        q[j] = exp[j];
    const uint64_t got = r->ref(q);
    if (got != arg) {
        mc_fail(load_clause(r), "%s(ptr+%d) over [%s] returned 0x%llx, expected 0x%llx", r->refname, off,
                hex(h1, exp, nb), (unsigned long long)got, (unsigned long long)arg);
        return false;
    }
    const uint64_t back = r->ref(p);
    if (back != arg) {
        mc_fail("C15/roundtrip", "%s after %s(ptr+%d, 0x%llx) returned 0x%llx", r->refname, r->setname, off,
                (unsigned long long)arg, (unsigned long long)back);
        return false;
    }
    return true;
}

/* The same store in a block with canaries on both sides. */
static bool
store_padded(const struct row *r, uint64_t arg, int off, const unsigned char *exp /* NULL: content not demanded */,
             bool fits /* false: the argument is not a value of the row's width, only the neighbours are demanded */)
{
    const int nb = r->width / 8;
    unsigned char *blk = pblk[nb][off];
    const size_t total = (size_t)(PAD + off + nb + PAD);
    for (size_t i = 0; i < total; ++i)
        blk[i] = canary(i);
    unsigned char *p = blk + PAD + off;
    if (exp != NULL)
        for (int j = 0; j < nb; ++j)
            p[j] = (unsigned char)~exp[j];
    void *ret = r->set(p, arg);
    char h1[32], h2[32], rd[48];
    mc_log("%s(ptr, 0x%llx) with ptr = block+%d: datum [%s] returned %s", r->setname, (unsigned long long)arg, PAD + off,
           hex(h1, p, nb), retdesc(rd, sizeof rd, ret, blk, total, p));
    for (size_t i = 0; i < total; ++i) {
        if (i >= (size_t)(PAD + off) && i < (size_t)(PAD + off + nb))
            continue;
        if (blk[i] != canary(i)) {
            mc_fail("C15/neighbours-untouched", "%s(ptr+%d, 0x%llx) changed the octet at datum%+lld to %02x",
                    r->setname, off, (unsigned long long)arg, (long long)i - (long long)(PAD + off), blk[i]);
            return false;
        }
    }
    if (!fits)
        return true; /* the statement speaks of storing a value of that width: a setter may refuse anything else */
    if (ret != (void *)(p + nb)) {
        mc_fail("C15/returns-past-end", "%s(ptr, 0x%llx) with ptr = block+%d returned %s, expected ptr+%d", r->setname,
                (unsigned long long)arg, PAD + off, retdesc(rd, sizeof rd, ret, blk, total, p), nb);
        return false;
    }
    if (exp != NULL && memcmp(p, exp, (size_t)nb) != 0) {
        mc_fail("C15/store-octets", "%s(ptr+%d, 0x%llx) stored [%s], expected [%s]", r->setname, off,
                (unsigned long long)arg, hex(h1, p, nb), hex(h2, exp, nb));
        return false;
    }
    return true;
}

/* ======================================================================== *
 *  Structured value families
 * ======================================================================== */

struct fam {
    int n;
    uint64_t v[8192];
    char tag[8192];
};

static void
fam_add(struct fam *f, uint64_t v, int W, char tag)
{
    v &= maskw(W);
    for (int i = 0; i < f->n; ++i)
        if (f->v[i] == v)
            return;
    if (f->n >= 8192)
        mc_broken("value family overflow");
    f->v[f->n] = v;
    f->tag[f->n] = tag;
    f->n++;
}

static void
fam_build(struct fam *f, int W, bool floats)
{
    const int nb = W / 8;
    const uint64_t m = maskw(W);
    f->n = 0;
    /* edges */
    const uint64_t sign = (uint64_t)1 << (W - 1);
    const uint64_t edges[] = { 0, 1, 2, m, m - 1, sign, sign - 1, sign + 1, sign >> 1, sign | (sign >> 1) };
    for (size_t i = 0; i < sizeof edges / sizeof edges[0]; ++i)
        fam_add(f, edges[i], W, 'E');
    /* constants of test/t-binary-format.c and two counting patterns */
    fam_add(f, 0x1122334455667788ull, W, 'A');
    fam_add(f, 0x1122334455667788ull >> (64 - W), W, 'A');
    fam_add(f, 0xffeeddccbbaa9988ull >> (64 - W), W, 'A');
    fam_add(f, 0x12345678ull, W, 'A');
    fam_add(f, 0x0123456789abcdefull, W, 'A');
    fam_add(f, 0xfedcba9876543210ull >> (64 - W), W, 'A');
    /* single bits and complements */
    for (int k = 0; k < W; ++k) {
        fam_add(f, (uint64_t)1 << k, W, 'B');
        fam_add(f, ~((uint64_t)1 << k), W, 'B');
    }
    /* 2^k +- 1, -(2^k) +- 1 */
    for (int k = 1; k < W; ++k) {
        const uint64_t p = (uint64_t)1 << k;
        fam_add(f, p - 1, W, 'P');
        fam_add(f, p + 1, W, 'P');
        fam_add(f, (uint64_t)0 - p, W, 'P');
        fam_add(f, (uint64_t)0 - p - 1, W, 'P');
        fam_add(f, (uint64_t)0 - p + 1, W, 'P');
    }
    /* every octet lane x every octet value on three backgrounds */
    static const unsigned char bgs[3] = { 0x00, 0xff, 0xa5 };
    for (int b = 0; b < 3; ++b) {
        uint64_t bg = 0;
        for (int j = 0; j < nb; ++j)
            bg |= (uint64_t)bgs[b] << (8 * j);
        for (int j = 0; j < nb; ++j)
            for (unsigned x = 0; x < 256; ++x)
                fam_add(f, (bg & ~((uint64_t)0xff << (8 * j))) | ((uint64_t)x << (8 * j)), W, 'L');
    }
    if (floats) {
        const int mb = (W == 32) ? 23 : 52;            /* mantissa bits */
        const uint64_t emax = (W == 32) ? 0xff : 0x7ff;
        const uint64_t bias = (W == 32) ? 127 : 1023;
        const uint64_t mall = ((uint64_t)1 << mb) - 1u, quiet = (uint64_t)1 << (mb - 1);
        const struct { uint64_t e, m; } cls[] = {
            { 0, 0 }, { 0, 1 }, { 0, mall }, { 1, 0 }, { bias, 0 }, { bias, 1 }, { emax - 1, mall }, { emax, 0 },
            /* signalling NaNs: smallest, largest payload, alternating payload */
            { emax, 1 }, { emax, quiet - 1 }, { emax, (0x2aaaaaaaaaaaaaull & (quiet - 1)) | 1u },
            /* quiet NaNs: default, +1, alternating payload, all ones */
            { emax, quiet }, { emax, quiet | 1u }, { emax, quiet | (0x5555555555555ull & (quiet - 1)) }, { emax, mall },
        };
        for (uint64_t s = 0; s < 2; ++s)
            for (size_t i = 0; i < sizeof cls / sizeof cls[0]; ++i)
                fam_add(f, (s << (W - 1)) | (cls[i].e << mb) | cls[i].m, W, 'F');
    }
}

static const char *
tagname(char t)
{
    switch (t) {
    case 'E': return "edge";
    case 'A': return "test-constant";
    case 'B': return "single-bit";
    case 'P': return "power-neighbour";
    case 'L': return "octet-lane";
    case 'F': return "float-class";
    default: return "?";
    }
}

static bool
octets_all_equal(uint64_t v, int W)
{
    for (int j = 1; j < W / 8; ++j)
        if (((v >> (8 * j)) & 0xffu) != (v & 0xffu))
            return false;
    return true;
}

static const char *
value_outcome(const struct row *r, uint64_t v)
{
    const int W = r->width;
    if (r->kind == KIND_u)
        return "value-unsigned";
    if (r->kind == KIND_s)
        return ((v >> (W - 1)) & 1u) ? "value-signed-negative" : "value-signed-nonnegative";
    const int mb = (W == 32) ? 23 : 52;
    const uint64_t emax = (W == 32) ? 0xff : 0x7ff;
    const uint64_t e = (v >> mb) & emax, m = v & (((uint64_t)1 << mb) - 1u);
    if (e == emax)
        return m ? "value-float-nan" : "value-float-inf";
    if (e == 0)
        return m ? "value-float-subnormal" : "value-float-zero";
    return "value-float-normal";
}

static struct fam fams[9], ffams[9]; /* by octet count; ffams: with float classes */

static void
family_value(void)
{
    for (int ri = 0; ri < NROWS; ++ri) {
        const struct row *r = &rows[ri];
        const int W = r->width, nb = W / 8;
        const struct fam *f = (r->kind == KIND_f) ? &ffams[nb] : &fams[nb];
        for (int vi = 0; vi < f->n; ++vi) {
            const uint64_t v = f->v[vi];
            if (!mc_case("value fn=%s/%s pattern=0x%0*llx (%s) offsets=0..7", r->setname, r->refname, 2 * nb,
                         (unsigned long long)v, tagname(f->tag[vi])))
                continue;
            unsigned char exp[8];
            encode(exp, v, W, row_big(r));
            char h[32];
            mc_log("argument 0x%llx, expected octets [%s]", (unsigned long long)canon(r, v), hex(h, exp, nb));
            for (int off = 0; off < 8; ++off) {
                if (!store_load(r, v, off))
                    break;
                if (!store_padded(r, canon(r, v), off, exp, true))
                    break;
            }
            mc_trans(8 * 4);
            mc_end(!octets_all_equal(v, W), value_outcome(r, v));
        }
    }
}

/* ======================================================================== *
 *  Memory with a declared element type
 * ======================================================================== */

#define TIMG 32 /* octets per image */
#define TDAT 8  /* the datum starts at octet TDAT + off */
static uint16_t timg_e16[TIMG / 2];
static uint32_t timg_e32[TIMG / 4];
static uint64_t timg_e64[TIMG / 8];

/* The image is only ever touched through lvalues of its declared element type
 * E (the four kinds of function below) and by the codec under test.
 *   tload   load; assign element i; load again          -> both loaded values
 *   tstore  assign element i; store; read element i     -> returned address, element
 *   tfill   assign every element          tread   read every element
 * tload/tstore keep the codec call and the element access next to each other in
 * one optimised function with the codec inlined; results come back in
 * registers, so that no other store stands between the accesses.  tfill/tread
 * xor with a key so that the loops are not turned into memcpy (which would hide
 * the element type from the optimiser). */
struct tloaded {
    uint64_t stale, fresh;
};
struct tstored {
    void *ret;
    uint64_t elem;
};
typedef struct tloaded tloadfn(void *img, unsigned i, uint64_t elem, const void *p);
typedef struct tstored tstorefn(void *img, unsigned i, uint64_t elem, void *p, uint64_t arg);
typedef void tfillfn(void *img, const void *src, uint64_t key);
typedef void treadfn(const void *img, void *dst, uint64_t key);

#define TYPEDFN(W, K, O, T, E, EN)                                             \
    static __attribute__((noinline)) struct tloaded tload_##K##W##O##_##EN(void *img, unsigned i, uint64_t elem, \
                                                                           const void *p) \
    {                                                                          \
        E *w = img;                                                            \
        struct tloaded r;                                                      \
        r.stale = wr_##K##W##O(p);                                             \
        w[i] = (E)elem;                                                        \
        r.fresh = wr_##K##W##O(p);                                             \
        return r;                                                              \
    }                                                                          \
    static __attribute__((noinline)) struct tstored tstore_##K##W##O##_##EN(void *img, unsigned i, uint64_t elem, \
                                                                            void *p, uint64_t arg) \
    {                                                                          \
        E *w = img;                                                            \
        struct tstored r;                                                      \
        w[i] = (E)elem;                                                        \
        r.ret = ws_##K##W##O(p, arg);                                          \
        r.elem = w[i];                                                         \
        return r;                                                              \
    }
#define TYPED16(W, K, O, T) TYPEDFN(W, K, O, T, uint16_t, e16)
#define TYPED32(W, K, O, T) TYPEDFN(W, K, O, T, uint32_t, e32)
#define TYPED64(W, K, O, T) TYPEDFN(W, K, O, T, uint64_t, e64)
ALL_ROWS(TYPED16)
ALL_ROWS(TYPED32)
ALL_ROWS(TYPED64)

#define TYPEDIMG(E, EN)                                                        \
    static __attribute__((noinline)) void tfill_##EN(void *img, const void *src, uint64_t key) \
    {                                                                          \
        E *w = img;                                                            \
        const E *s = src;                                                      \
        for (unsigned i = 0; i < TIMG / sizeof(E); ++i)                        \
            w[i] = (E)(s[i] ^ (E)key);                                         \
    }                                                                          \
    static __attribute__((noinline)) void tread_##EN(const void *img, void *dst, uint64_t key) \
    {                                                                          \
        const E *w = img;                                                      \
        E *d = dst;                                                            \
        for (unsigned i = 0; i < TIMG / sizeof(E); ++i)                        \
            d[i] = (E)(w[i] ^ (E)key);                                         \
    }
TYPEDIMG(uint16_t, e16)
TYPEDIMG(uint32_t, e32)
TYPEDIMG(uint64_t, e64)

struct typedrow {
    tloadfn *load[3];
    tstorefn *store[3];
};
#define TYPEDROW(W, K, O, T)                                                   \
    { { tload_##K##W##O##_e16, tload_##K##W##O##_e32, tload_##K##W##O##_e64 },  \
      { tstore_##K##W##O##_e16, tstore_##K##W##O##_e32, tstore_##K##W##O##_e64 } },
static const struct typedrow typedrows[] = { ALL_ROWS(TYPEDROW) }; /* same order as rows[] */

static void *const timgs[3] = { timg_e16, timg_e32, timg_e64 };
static tfillfn *const tfills[3] = { tfill_e16, tfill_e32, tfill_e64 };
static treadfn *const treads[3] = { tread_e16, tread_e32, tread_e64 };
static const char *const tnames[3] = { "uint16_t", "uint32_t", "uint64_t" };
static const char *const toutcomes[3] = { "typed-image-u16", "typed-image-u32", "typed-image-u64" };
#define TKEY 0x5a5a5a5a5a5a5a5aull

/* element i (size es) of an octet image as the value an E lvalue holds on this host */
static uint64_t
elem_of(const unsigned char *octets, int i, int es)
{
    uint64_t x = 0;
    memcpy(&x, octets + i * es, (size_t)es); /* little-endian host (anchored): low octets first */
    return x;
}

/* the row's value of nb octets (reference decoding: the inverse of encode()) */
static uint64_t
decode(const struct row *r, const unsigned char *o)
{
    const int W = r->width, nb = W / 8;
    uint64_t v = 0;
    for (int j = 0; j < nb; ++j)
        v |= (uint64_t)o[j] << (row_big(r) ? (W - 8 * (j + 1)) : (8 * j));
    return canon(r, v);
}

/* staging objects of each element type, so that tfill/tread only ever use
 * lvalues of the declared type of what they touch */
static uint16_t tstage_e16[TIMG / 2];
static uint32_t tstage_e32[TIMG / 4];
static uint64_t tstage_e64[TIMG / 8];

static void
typed_fill(int ei, const unsigned char *octets)
{
    const int es = 2 << ei, ne = TIMG / es;
    for (int i = 0; i < ne; ++i) {
        const uint64_t x = elem_of(octets, i, es) ^ TKEY;
        if (ei == 0)
            tstage_e16[i] = (uint16_t)x;
        else if (ei == 1)
            tstage_e32[i] = (uint32_t)x;
        else
            tstage_e64[i] = x;
    }
    void *volatile vimg = timgs[ei];
    void *volatile vsrc = (ei == 0) ? (void *)tstage_e16 : (ei == 1) ? (void *)tstage_e32 : (void *)tstage_e64;
    tfills[ei](vimg, vsrc, TKEY);
}

static void
typed_read(int ei, unsigned char *octets)
{
    const int es = 2 << ei, ne = TIMG / es;
    void *volatile vimg = timgs[ei];
    void *volatile vdst = (ei == 0) ? (void *)tstage_e16 : (ei == 1) ? (void *)tstage_e32 : (void *)tstage_e64;
    treads[ei](vimg, vdst, TKEY);
    for (int i = 0; i < ne; ++i) {
        const uint64_t x = ((ei == 0) ? tstage_e16[i] : (ei == 1) ? tstage_e32[i] : tstage_e64[i]) ^ TKEY;
        memcpy(octets + i * es, &x, (size_t)es); /* little-endian host (anchored): low octets first */
    }
}

/* One pattern at one offset in one typed image. */
static bool
typed_one(int ri, int ei, uint64_t v, int off)
{
    const struct row *r = &rows[ri];
    const int W = r->width, nb = W / 8;
    const int es = 2 << ei, ne = TIMG / es;
    unsigned char oldo[TIMG], newo[TIMG], cur[TIMG], exp[8];
    encode(exp, v, W, row_big(r));
    for (int i = 0; i < TIMG; ++i)
        oldo[i] = newo[i] = canary((size_t)i);
    for (int j = 0; j < nb; ++j) {
        newo[TDAT + off + j] = exp[j];
        oldo[TDAT + off + j] = (unsigned char)~exp[j];
    }
    /* the optimiser must not learn that the image and the datum pointer are related */
    void *volatile vimg = timgs[ei];
    void *volatile vdat = (unsigned char *)timgs[ei] + TDAT + off;
    const uint64_t arg = canon(r, v);
    char h1[32], h2[32];

    /* stores: the image holds the complement; element i is assigned (its old
     * content), the datum is stored, element i is read */
    for (int i = 0; i < ne; ++i) {
        typed_fill(ei, oldo);
        void *img = vimg, *p = vdat;
        const struct tstored st = typedrows[ri].store[ei](img, (unsigned)i, elem_of(oldo, i, es), p, arg);
        const uint64_t want = elem_of(newo, i, es);
        if (st.elem != want) {
            const bool in_datum = (i + 1) * es > TDAT + off && i * es < TDAT + off + nb;
            mc_fail(in_datum ? "C15/store-octets" : "C15/neighbours-untouched",
                    "%s(image+%d, 0x%llx) in a %s image: element %d assigned 0x%0*llx before the store reads 0x%0*llx "
                    "after it, expected 0x%0*llx", r->setname, TDAT + off, (unsigned long long)arg, tnames[ei], i, 2 * es,
                    (unsigned long long)elem_of(oldo, i, es), 2 * es, (unsigned long long)st.elem, 2 * es,
                    (unsigned long long)want);
            return false;
        }
        if (st.ret != (void *)((unsigned char *)p + nb)) {
            char rd[48];
            mc_fail("C15/returns-past-end", "%s(ptr, 0x%llx) with ptr = image+%d in a %s image returned %s, expected ptr+%d",
                    r->setname, (unsigned long long)arg, TDAT + off, tnames[ei],
                    retdesc(rd, sizeof rd, st.ret, img, TIMG, p), nb);
            return false;
        }
        typed_read(ei, cur);
        if (memcmp(cur + TDAT + off, exp, (size_t)nb) != 0) {
            mc_fail("C15/store-octets", "%s(image+%d, 0x%llx) in a %s image: the image reads back [%s], expected [%s]",
                    r->setname, TDAT + off, (unsigned long long)arg, tnames[ei], hex(h1, cur + TDAT + off, nb),
                    hex(h2, exp, nb));
            return false;
        }
        for (int k = 0; k < TIMG; ++k)
            if (cur[k] != newo[k]) {
                mc_fail("C15/neighbours-untouched",
                        "%s(image+%d, 0x%llx) in a %s image changed the octet at datum%+d to %02x", r->setname,
                        TDAT + off, (unsigned long long)arg, tnames[ei], k - (TDAT + off), cur[k]);
                return false;
            }
    }
    /* loads: the image holds the complement and is turned into the new image
     * element by element; the datum is loaded directly before and after each
     * assignment */
    typed_fill(ei, oldo);
    memcpy(cur, oldo, TIMG);
    for (int i = 0; i < ne; ++i) {
        void *img = vimg, *p = vdat;
        const uint64_t want_stale = decode(r, cur + TDAT + off);
        memcpy(cur + i * es, newo + i * es, (size_t)es);
        const uint64_t want_fresh = decode(r, cur + TDAT + off);
        const struct tloaded ld = typedrows[ri].load[ei](img, (unsigned)i, elem_of(newo, i, es), p);
        if (ld.stale != want_stale) {
            mc_fail(load_clause(r), "%s(image+%d) in a %s image before element %d is assigned returned 0x%llx, expected 0x%llx",
                    r->refname, TDAT + off, tnames[ei], i, (unsigned long long)ld.stale, (unsigned long long)want_stale);
            return false;
        }
        if (ld.fresh != want_fresh) {
            mc_fail(load_clause(r), "%s(image+%d) over [%s] after element %d of the %s image was assigned 0x%0*llx "
                    "returned 0x%llx, expected 0x%llx", r->refname, TDAT + off, hex(h1, cur + TDAT + off, nb), i,
                    tnames[ei], 2 * es, (unsigned long long)elem_of(newo, i, es), (unsigned long long)ld.fresh,
                    (unsigned long long)want_fresh);
            return false;
        }
    }
    return true;
}

static void
family_typed(void)
{
    for (int ri = 0; ri < NROWS; ++ri) {
        const struct row *r = &rows[ri];
        const int W = r->width, nb = W / 8;
        const struct fam *f = (r->kind == KIND_f) ? &ffams[nb] : &fams[nb];
        for (int ei = 0; ei < 3; ++ei)
            for (int vi = 0; vi < f->n; ++vi) {
                if (f->tag[vi] != 'E' && f->tag[vi] != 'A' && f->tag[vi] != 'F')
                    continue; /* edges, the unit test's constants, float classes */
                const uint64_t v = f->v[vi];
                if (!mc_case("typed fn=%s/%s image=%s[%d] pattern=0x%0*llx (%s) datum at octets %d..%d", r->setname,
                             r->refname, tnames[ei], (int)(TIMG / (2u << ei)), 2 * nb, (unsigned long long)v,
                             tagname(f->tag[vi]), TDAT, TDAT + 7))
                    continue;
                for (int off = 0; off < 8; ++off)
                    if (!typed_one(ri, ei, v, off))
                        break;
                mc_trans(8 * 3 * (TIMG / (2 << ei)));
                mc_end(true, toutcomes[ei]);
            }
    }
}

/* ======================================================================== *
 *  Sweeps
 * ======================================================================== */

#define CHUNK ((uint64_t)1 << 20)

static const char *
sweep_outcome(const struct row *r, uint64_t base, uint64_t count)
{
    const int W = r->width;
    if (r->kind == KIND_u)
        return "sweep-unsigned";
    if (r->kind == KIND_s) {
        const bool lo = (base >> (W - 1)) & 1u, hi = ((base + count - 1) >> (W - 1)) & 1u;
        return (lo != hi) ? "sweep-signed-both" : lo ? "sweep-signed-negative" : "sweep-signed-nonnegative";
    }
    /* f32 only: chunks are aligned to 2^20, the exponent field is bits 23..30 */
    return (((base >> 23) & 0xffu) == 0xffu) ? "sweep-float-nan" : "sweep-float-finite";
}

/* One specialised inner loop per row (same table macro, same order as rows[]):
 * with the row a compile-time constant the codec under test is inlined into
 * the loop, which is what makes the 2^32 sweeps affordable. */
typedef void sweepfn(uint64_t base, uint64_t count, int off, uint64_t salt);
#define SWEEPFN(W, K, O, T)                                                    \
    static void sweep_##K##W##O(uint64_t base, uint64_t count, int off, uint64_t salt) \
    {                                                                          \
        static const struct row r = ROWINIT(W, K, O, T);                       \
        for (uint64_t i = 0; i < count; ++i) {                                 \
            const uint64_t v = base + i;                                       \
            if (!store_load(&r, v, off >= 0 ? off : (int)((v + salt) & 7u)))   \
                break;                                                         \
        }                                                                      \
    }
#define SWEEP_ROWS(X)                                                          \
    ORDERS(X, 16, u, uint16_t) ORDERS(X, 16, s, int16_t)                       \
    ORDERS(X, 24, u, uint32_t) ORDERS(X, 24, s, int32_t)                       \
    ORDERS(X, 32, u, uint32_t) ORDERS(X, 32, s, int32_t) ORDERS(X, 32, f, float)
SWEEP_ROWS(SWEEPFN)
#define SWEEPENTRY(W, K, O, T) { "bf_set_" #K #W #O, sweep_##K##W##O },
static const struct {
    const char *setname;
    sweepfn *fn;
} sweepfns[] = { SWEEP_ROWS(SWEEPENTRY) };

static sweepfn *
sweep_of(const struct row *r)
{
    for (size_t i = 0; i < sizeof sweepfns / sizeof sweepfns[0]; ++i)
        if (!strcmp(sweepfns[i].setname, r->setname))
            return sweepfns[i].fn;
    mc_broken("no specialised sweep loop for %s", r->setname);
}

static void
sweep_row(const struct row *r, bool every_offset)
{
    const int W = r->width, nb = W / 8;
    const uint64_t total = (uint64_t)1 << W;
    const uint64_t step = total < CHUNK ? total : CHUNK;
    sweepfn *const sweep = sweep_of(r);
    for (uint64_t base = 0; base < total; base += step) {
        for (int off = every_offset ? 0 : -1; off < (every_offset ? 8 : 0); ++off) {
            if (off >= 0) {
                if (!mc_case("sweep fn=%s/%s patterns=0x%0*llx..0x%0*llx offset=%d", r->setname, r->refname, 2 * nb,
                             (unsigned long long)base, 2 * nb, (unsigned long long)(base + step - 1), off))
                    continue;
            } else if (!mc_case("sweep fn=%s/%s patterns=0x%0*llx..0x%0*llx offset=(pattern+chunk)%%8", r->setname,
                                r->refname, 2 * nb, (unsigned long long)base, 2 * nb,
                                (unsigned long long)(base + step - 1))) {
                continue;
            }
            sweep(base, step, off, base >> 20);
            mc_trans((int64_t)(3 * step));
            mc_end(true, sweep_outcome(r, base, step));
        }
    }
}

static void
family_sweep(void)
{
    for (int ri = 0; ri < NROWS; ++ri) {
        const struct row *r = &rows[ri];
#ifdef C15_LIGHT
        if (r->width <= 24)
            sweep_row(r, r->width == 16);
#else
        if (r->width <= 24)
            sweep_row(r, true);
        else if (r->width == 32 && mc_thorough())
            sweep_row(r, false);
#endif
    }
}

/* ======================================================================== *
 *  Arguments wider than the row
 * ======================================================================== */

static void
family_wide(void)
{
    for (int ri = 0; ri < NROWS; ++ri) {
        const struct row *r = &rows[ri];
        const int W = r->width, B = r->argbits, nb = W / 8;
        if (B <= W)
            continue;
        const uint64_t m = maskw(W);
        const uint64_t lows[4] = { 0, m, 0xa5a5a5a5a5a5a5a5ull & m, (uint64_t)1 << (W - 1) };
        const uint64_t highs[4] = { 1, maskw(B - W), (uint64_t)1 << (B - W - 1), 0x5a & maskw(B - W) };
        for (int li = 0; li < 4; ++li)
            for (int hi = 0; hi < 4; ++hi) {
                const uint64_t a = lows[li] | (highs[hi] << W);
                /* hand it over as the C argument the wrapper will form */
                const uint64_t arg = (r->kind == KIND_s) ? sext(a, B) : a;
                /* A signed argument whose upper bits repeat bit W-1 is a value of
                 * the row's width (its sign extension): the whole statement
                 * applies.  Any other argument is not "a value of that width":
                 * a setter may store its low octets or refuse it (return
                 * anything, write nothing); only "leaves neighbouring octets
                 * untouched" and memory safety are demanded. */
                const bool fits = representable(a, B, W, r->kind);
                if (!mc_case("wide fn=%s argument=0x%0*llx (%s %d bits) offsets=0..7", r->setname, B / 4,
                             (unsigned long long)a, fits ? "the sign extension of a value of" : "does not fit", W))
                    continue;
                unsigned char exp[8];
                encode(exp, a & m, W, row_big(r));
                for (int off = 0; off < 8; ++off) {
                    if (!store_padded(r, arg, off, fits ? exp : NULL, fits))
                        break;
                    /* and once directly in front of an ASan red zone */
                    unsigned char *blk = wblk[nb][off], *p = blk + off;
                    void *ret = r->set(p, arg);
                    if (fits && ret != (void *)(p + nb)) {
                        char rd[48];
                        mc_fail("C15/returns-past-end", "%s(ptr, 0x%llx) with ptr = block+%d returned %s, expected ptr+%d",
                                r->setname, (unsigned long long)arg, off,
                                retdesc(rd, sizeof rd, ret, blk, (size_t)(off + nb), p), nb);
                        break;
                    }
                    bool bad = false;
                    for (int j = 0; j < off && !bad; ++j)
                        if (blk[j] != canary((size_t)j)) {
                            mc_fail("C15/neighbours-untouched", "%s(ptr+%d, 0x%llx) changed an octet before the datum",
                                    r->setname, off, (unsigned long long)arg);
                            blk[j] = canary((size_t)j);
                            bad = true;
                        }
                    if (bad)
                        break;
                }
                mc_trans(16);
                mc_end(true, fits ? "wide-sign-extension" : "wide-argument");
            }
    }
}

/* ======================================================================== *
 *  Swap helpers
 * ======================================================================== */

static inline bool
swap_one(const struct swaprow *s, uint64_t x)
{
    const int W = s->width;
    const uint64_t m = maskw(W);
    const uint64_t r = s->fn(x);
    const uint64_t want = reverse_octets(x & m, W);
    if ((x & ~m) == 0) {
        if (r != want) {
            mc_fail("C15/swap-reverses", "%s(0x%llx) = 0x%llx, expected 0x%llx", s->name, (unsigned long long)x,
                    (unsigned long long)r, (unsigned long long)want);
            return false;
        }
        const uint64_t rr = s->fn(r);
        if (rr != x) {
            mc_fail("C15/swap-involution", "%s(%s(0x%llx)) = 0x%llx", s->name, s->name, (unsigned long long)x,
                    (unsigned long long)rr);
            return false;
        }
    } else {
        /* octets above width/8 are not part of the reversal: only the low ones are demanded */
        if ((r & m) != want) {
            mc_fail("C15/swap-reverses", "%s(0x%llx) = 0x%llx, low %d octets expected 0x%llx", s->name,
                    (unsigned long long)x, (unsigned long long)r, W / 8, (unsigned long long)want);
            return false;
        }
        const uint64_t rr = s->fn(r);
        if ((rr & m) != (x & m)) {
            mc_fail("C15/swap-involution", "%s(%s(0x%llx)) = 0x%llx", s->name, s->name, (unsigned long long)x,
                    (unsigned long long)rr);
            return false;
        }
    }
    return true;
}

static void
family_swap(void)
{
    for (int si = 0; si < NSWAPS; ++si) {
        const struct swaprow *s = &swaps[si];
        const int W = s->width, B = s->argbits;
        /* structured: the width's family, then (partial widths) the argument type's family */
        for (int pass = 0; pass < 2; ++pass) {
            if (pass == 1 && B == W)
                break;
            const struct fam *f = &fams[(pass ? B : W) / 8];
            for (int vi = 0; vi < f->n; ++vi) {
                const uint64_t x = f->v[vi];
                const bool wide = (x & ~maskw(W)) != 0;
                if (pass == 1 && !wide) {
                    continue; /* already enumerated in pass 0 (numbering depends on the family only) */
                }
                if (!mc_case("swap fn=%s x=0x%0*llx (%s)%s", s->name, B / 4, (unsigned long long)x, tagname(f->tag[vi]),
                             wide ? " wider than the swap" : ""))
                    continue;
                mc_log("%s(0x%llx) = 0x%llx", s->name, (unsigned long long)x, (unsigned long long)s->fn(x));
                swap_one(s, x);
                mc_trans(2);
                mc_end(!octets_all_equal(x, W), wide ? "swap-wide" : "swap-inrange");
            }
        }
        /* sweeps */
        uint64_t total = 0;
        if (W == 16)
            total = (uint64_t)1 << 16;
        else if (W == 24)
            total = mc_thorough() ? (uint64_t)1 << 32 : (uint64_t)1 << 24;
        else if (W == 32 && mc_thorough())
            total = (uint64_t)1 << 32;
        const uint64_t step = total < CHUNK ? total : CHUNK;
        for (uint64_t base = 0; base < total; base += step) {
            if (!mc_case("swap-sweep fn=%s x=0x%llx..0x%llx", s->name, (unsigned long long)base,
                         (unsigned long long)(base + step - 1)))
                continue;
            for (uint64_t i = 0; i < step; ++i)
                if (!swap_one(s, base + i))
                    break;
            mc_trans((int64_t)(2 * step));
            mc_end(true, (base & ~maskw(W)) ? "swap-sweep-wide" : "swap-sweep-inrange");
        }
    }
}

/* ======================================================================== *
 *  Range predicates
 * ======================================================================== */

static inline bool
range_one(const struct rangerow *g, uint64_t a, bool *accepted)
{
    const bool want = representable(a, g->argbits, g->width, g->kind);
    const bool got = g->fn(a);
    *accepted = want;
    if (got != want) {
        if (g->kind == KIND_s)
            mc_fail("C15/inrange-exact", "%s(%lld) = %s", g->name, (long long)(int64_t)sext(a, g->argbits),
                    got ? "true" : "false");
        else
            mc_fail("C15/inrange-exact", "%s(%llu) = %s", g->name, (unsigned long long)a, got ? "true" : "false");
        return false;
    }
    return true;
}

static void
family_range(void)
{
    for (int gi = 0; gi < NRANGES; ++gi) {
        const struct rangerow *g = &ranges[gi];
        const int B = g->argbits;
        const struct fam *f = &fams[B / 8];
        for (int vi = 0; vi < f->n; ++vi) {
            const uint64_t a = f->v[vi];
            if (!mc_case("inrange fn=%s argument-bits=0x%0*llx (%s)", g->name, B / 4, (unsigned long long)a,
                         tagname(f->tag[vi])))
                continue;
            bool acc = false;
            range_one(g, a, &acc);
            mc_log("%s -> %s expected", g->name, acc ? "true" : "false");
            mc_trans(1);
            mc_end(a != 0, acc ? "inrange-accept" : "inrange-reject");
        }
#ifdef C15_LIGHT
        if (false) {
#else
        if (B == 32 && mc_thorough()) {
#endif
            for (uint64_t base = 0; base < ((uint64_t)1 << 32); base += CHUNK) {
                if (!mc_case("inrange-sweep fn=%s argument-bits=0x%08llx..0x%08llx", g->name, (unsigned long long)base,
                             (unsigned long long)(base + CHUNK - 1)))
                    continue;
                uint64_t nacc = 0;
                for (uint64_t i = 0; i < CHUNK; ++i) {
                    bool acc = false;
                    if (!range_one(g, base + i, &acc))
                        break;
                    nacc += acc;
                }
                mc_trans((int64_t)CHUNK);
                mc_end(true, nacc == CHUNK ? "inrange-sweep-accept" : nacc == 0 ? "inrange-sweep-reject"
                                                                                : "inrange-sweep-mixed");
            }
        }
    }
}

int
main(int argc, char **argv)
{
    mc_init(argc, argv);
    table_guard();
    anchors();
    make_blocks();
    for (int nb = 2; nb <= 8; ++nb) {
        fam_build(&fams[nb], 8 * nb, false);
        if (nb == 4 || nb == 8)
            fam_build(&ffams[nb], 8 * nb, true);
    }
    family_value();
    family_wide();
    family_swap();
    family_range();
    family_typed();
    family_sweep();
    static char bound[1024];
    snprintf(bound, sizeof bound, "build %s: 111 functions; %s; structured families "
             "(octet lanes x octet values x 3 backgrounds, single bits, 2^k+-1, boundaries, float classes, NaN payloads) "
             "for all rows at offsets 0..7 in exact-size and canaried blocks; edges, test constants and float classes of "
             "every row in uint16_t/uint32_t/uint64_t images at offsets 0..7; %s",
             C15_BUILD,
#ifdef C15_LIGHT
             "every pattern of the 16-bit rows at offsets 0..7 and of the 24-bit rows at a rotating offset",
             mc_thorough() ? "swap16/24/32 over all 2^16/2^32/2^32 arguments; inrange over the structured family"
                           : "swap16/24 over all in-range arguments; inrange over the structured family"
#else
             mc_thorough() ? "every pattern of the 16-, 24- and 32-bit rows (u/s/f x n/b/l)"
                           : "every pattern of the 16- and 24-bit rows at offsets 0..7",
             mc_thorough() ? "swap16/24/32 over all 2^16/2^32/2^32 arguments; inrange_u24/s24 over all 2^32"
                           : "swap16/24 over all in-range arguments; inrange over the structured family"
#endif
    );
    mc_finish(true, bound);
    return 0;
}
