/*
 * regfam.h -- the small-scope table family shared by C02 (block write), C03
 * (block read / iteration) and C05.  Every table is a value of a finite
 * product of small menus, not a sample:
 *
 *   F1 "register logic": layouts A..D, all areas RW, backing/order in
 *      {(mem,LE), (cb,BE), (alternating,LE)}, register lists = every single
 *      register (5 types x every placement that fits one area x 6 constraint
 *      kinds) + every ordered non-overlapping pair over {u16,u32,u64,f32}
 *      (constraint kinds rotating) + curated 3/4-register lists.
 *   F2 "flag logic": layouts A..D x every combination of per-area access
 *      {RW, RO, WO, RO-without-write-callback} (3-area layout: 10 curated
 *      combinations) x backing {mem, cb} x a reduced register list menu.
 *
 * Addresses start at 1 so that address 0 is an unmapped word below the first
 * area; every layout ends at or before address 8.
 *
 *   T  "top of the address space": the family once more, moved up so that the
 *      last word of the layout is 0xffffffff (fam_enumerate_top, at the end of
 *      this file).  Called by the harnesses separately, after their other
 *      tables.
 */
#ifndef VERIF_REGFAM_H
#define VERIF_REGFAM_H

#include "regtab.h"

struct layout {
    int na;
    uint32_t base[3], size[3];
};

static const struct layout LAYOUTS[] = {
    { 1, { 1 }, { 6 } },                /* A: one area 1..6 */
    { 2, { 1, 4 }, { 3, 3 } },          /* B: adjacent */
    { 2, { 1, 5 }, { 3, 3 } },          /* C: one-word gap at 4 */
    { 3, { 1, 3, 6 }, { 2, 2, 2 } },    /* D: adjacent + gap at 5 */
};
#define NLAYOUTS 4
#define FAM_MAXADDR 9 /* windows cover addresses 0..9 */

static const RegisterType FAM_TYPES1[] = { REG_TYPE_UINT16, REG_TYPE_UINT32, REG_TYPE_UINT64, REG_TYPE_FLOAT32, REG_TYPE_SINT16 };
static const RegisterType FAM_TYPES2[] = { REG_TYPE_UINT16, REG_TYPE_UINT32, REG_TYPE_UINT64, REG_TYPE_FLOAT32 };

/* constraint bounds per type: chosen so that both halves of multi-word
 * registers matter (lo and hi differ in the high and in the low words) */
static void
fam_constrain(struct rspec *r, int ckind)
{
    const RegisterType t = r->type;
    r->ckind = ckind;
    r->lo = r->hi = r->def = vu_zero();
    switch (t) {
    case REG_TYPE_UINT16: r->lo = vu_int(t, 0x0100); r->hi = vu_int(t, 0x7f00); break;
    case REG_TYPE_SINT16: r->lo = vu_int(t, -0x100); r->hi = vu_int(t, -0x10); break; /* both bounds negative: a signed bound read through the unsigned member shows */
    case REG_TYPE_UINT32: r->lo = vu_int(t, 0x00010002); r->hi = vu_int(t, 0x7ffe8001); break;
    case REG_TYPE_UINT64: r->lo = vu_int(t, 0x0000000100020003ll); r->hi = vu_int(t, 0x7ffe800180028003ll); break;
    case REG_TYPE_FLOAT32: r->lo.f32 = -2.5f; r->hi.f32 = 1000.25f; break;
    default: break;
    }
    switch (ckind) {
    case K_NONE: case K_FAIL: r->def = (t == REG_TYPE_FLOAT32) ? r->hi : vu_int(t, 0x1234); break;
    case K_MIN: r->def = r->hi; break;
    case K_MAX: r->def = r->lo; break;
    case K_RANGE: r->def = r->lo; break;
    case K_CB: r->def = (t == REG_TYPE_FLOAT32) ? r->hi : vu_int(t, 0x1234); break;
    }
}

/* does a register of type t at addr fit wholly into one area of the layout? */
static bool
fam_fits(const struct layout *l, RegisterType t, uint32_t addr)
{
    for (int i = 0; i < l->na; ++i)
        if (addr >= l->base[i] && addr + ref_words(t) <= l->base[i] + l->size[i])
            return true;
    return false;
}

static uint32_t fam_shift; /* added to every address of the table being built */

static void
fam_areas(struct tspec *s, const struct layout *l, const int acc[3], int backing)
{
    /* acc: 0 RW, 1 RO, 2 WO, 3 RO without write callback; backing: 0 mem, 1 cb, 2 alternating */
    s->na = l->na;
    for (int i = 0; i < l->na; ++i) {
        s->a[i].base = l->base[i] + fam_shift;
        s->a[i].size = l->size[i];
        s->a[i].flags = (uint16_t)(acc[i] == 0 ? REG_AF_RW : acc[i] == 2 ? REG_AF_WRITEABLE : REG_AF_READABLE);
        s->a[i].nowrite = (acc[i] == 3);
        s->a[i].cb = (backing == 1) || (backing == 2 && (i & 1));
    }
}

typedef void (*fam_fn)(const struct tspec *s, int table_index);

static int
fam_enumerate(fam_fn fn, bool thorough)
{
    int idx = 0;
    struct tspec s;
    static const int RW3[3] = { 0, 0, 0 };
    /* ---- F1 ---- */
    for (int li = 0; li < NLAYOUTS; ++li) {
        const struct layout *l = &LAYOUTS[li];
        for (int combo = 0; combo < 4; ++combo) {
            if (combo == 2 && l->na == 1)
                continue;
            /* combo 3: memory-backed, little-endian, all addresses moved up so
             * that the table straddles the 16-bit address boundary (layouts A
             * and C; thorough: all) */
            fam_shift = 0;
            if (combo == 3) {
                if (!thorough && li != 0 && li != 2)
                    continue;
                fam_shift = 0xfffc;
            }
            const int backing = combo == 3 ? 0 : combo;       /* 0 mem, 1 cb, 2 alternating */
            const bool be = (combo == 1);
            /* singles */
            for (unsigned ti = 0; ti < 5; ++ti)
                for (uint32_t a = 1; a <= 8; ++a) {
                    if (!fam_fits(l, FAM_TYPES1[ti], a))
                        continue;
                    for (int ck = 0; ck < K_NKINDS; ++ck) {
                        memset(&s, 0, sizeof s);
                        s.be = be;
                        fam_areas(&s, l, RW3, backing);
                        s.nr = 1;
                        s.r[0].type = FAM_TYPES1[ti];
                        s.r[0].addr = a + fam_shift;
                        fam_constrain(&s.r[0], ck);
                        fn(&s, idx++);
                    }
                }
            /* pairs */
            int rot = 0;
            for (unsigned t1 = 0; t1 < 4; ++t1)
                for (uint32_t a1 = 1; a1 <= 8; ++a1) {
                    if (!fam_fits(l, FAM_TYPES2[t1], a1))
                        continue;
                    for (unsigned t2 = 0; t2 < 4; ++t2)
                        for (uint32_t a2 = a1 + ref_words(FAM_TYPES2[t1]); a2 <= 8; ++a2) {
                            if (!fam_fits(l, FAM_TYPES2[t2], a2))
                                continue;
                            /* quick: only directly adjacent or one-word-apart pairs */
                            if (!thorough && a2 > a1 + ref_words(FAM_TYPES2[t1]) + 1)
                                continue;
                            memset(&s, 0, sizeof s);
                            s.be = be;
                            fam_areas(&s, l, RW3, backing);
                            s.nr = 2;
                            s.r[0].type = FAM_TYPES2[t1];
                            s.r[0].addr = a1 + fam_shift;
                            fam_constrain(&s.r[0], 2 + (rot % 4));        /* min,max,range,cb */
                            s.r[1].type = FAM_TYPES2[t2];
                            s.r[1].addr = a2 + fam_shift;
                            fam_constrain(&s.r[1], (rot / 4) % 6);
                            rot++;
                            fn(&s, idx++);
                        }
                }
            /* curated longer lists: fill the layout with 16-bit and 32-bit registers */
            for (int variant = 0; variant < 2; ++variant) {
                memset(&s, 0, sizeof s);
                s.be = be;
                fam_areas(&s, l, RW3, backing);
                uint32_t a = 1;
                int k = 0;
                while (a <= 8 && s.nr < RT_MAXR - 1) {
                    RegisterType t = ((k + variant) & 1) ? REG_TYPE_UINT32 : REG_TYPE_UINT16;
                    if (!fam_fits(l, t, a)) {
                        t = REG_TYPE_UINT16;
                        if (!fam_fits(l, t, a)) {
                            a++;
                            continue;
                        }
                    }
                    s.r[s.nr].type = t;
                    s.r[s.nr].addr = a + fam_shift;
                    fam_constrain(&s.r[s.nr], (k + 2 * variant) % 6 == K_FAIL ? K_RANGE : (k + 2 * variant) % 6);
                    s.nr++;
                    a += ref_words(t);
                    k++;
                }
                fn(&s, idx++);
            }
        }
    }
    fam_shift = 0;
    /* ---- F2 ---- */
    static const int ACC3[10][3] = {
        { 0, 1, 0 }, { 1, 0, 0 }, { 0, 0, 1 }, { 2, 0, 0 }, { 0, 2, 0 },
        { 0, 0, 2 }, { 3, 0, 0 }, { 0, 3, 0 }, { 1, 2, 3 }, { 2, 1, 0 },
    };
    for (int li = 0; li < NLAYOUTS; ++li) {
        const struct layout *l = &LAYOUTS[li];
        const int ncombo = l->na == 1 ? 4 : l->na == 2 ? 16 : 10;
        for (int c = 0; c < ncombo; ++c) {
            int acc[3] = { 0, 0, 0 };
            if (l->na == 1)
                acc[0] = c;
            else if (l->na == 2) {
                acc[0] = c & 3;
                acc[1] = c >> 2;
            } else
                memcpy(acc, ACC3[c], sizeof acc);
            for (int backing = 0; backing < 2; ++backing)
                for (int rl = 0; rl < 4; ++rl) {
                    memset(&s, 0, sizeof s);
                    s.be = (rl & 1);
                    fam_areas(&s, l, acc, backing);
                    /* register menus: (none) | one register at the start of each
                     * area | u32 range at the end of each area | u16 everywhere */
                    for (int i = 0; i < l->na && rl > 0; ++i) {
                        if (rl == 1) {
                            s.r[s.nr].type = l->size[i] >= 4 ? REG_TYPE_UINT64 : REG_TYPE_UINT32;
                            s.r[s.nr].addr = l->base[i];
                            fam_constrain(&s.r[s.nr], K_MAX);
                            s.nr++;
                        } else if (rl == 2) {
                            s.r[s.nr].type = REG_TYPE_UINT32;
                            s.r[s.nr].addr = l->base[i] + l->size[i] - 2;
                            fam_constrain(&s.r[s.nr], K_RANGE);
                            s.nr++;
                        } else {
                            for (uint32_t a = l->base[i]; a < l->base[i] + l->size[i] && s.nr < RT_MAXR; a += 2) {
                                s.r[s.nr].type = REG_TYPE_UINT16;
                                s.r[s.nr].addr = a;
                                fam_constrain(&s.r[s.nr], (a & 2) ? K_MIN : K_NONE);
                                s.nr++;
                            }
                        }
                    }
                    fn(&s, idx++);
                }
        }
    }
    return idx;
}

/* ---- valid contents of a register (for non-initial images) ---------------------- */
static int
fam_contents(const struct rspec *r, uint64_t out[3])
{
    const RegisterType t = r->type;
    int n = 0;
    out[n++] = ref_bits(t, r->def);
    switch (r->ckind) {
    case K_NONE:
        out[n++] = (t == REG_TYPE_FLOAT32) ? 0xc2f60000u /* -123.0 */ : (0xfedcba9876543210ull & ((ref_words(t) == 4) ? ~0ull : ((1ull << (16 * ref_words(t))) - 1)));
        break;
    case K_FAIL:
        break;
    case K_MIN:
        out[n++] = ref_bits(t, r->lo);
        break;
    case K_MAX:
        out[n++] = ref_bits(t, r->hi);
        break;
    case K_RANGE:
        out[n++] = ref_bits(t, r->hi);
        break;
    case K_CB:
        out[n++] = (t == REG_TYPE_FLOAT32) ? 0x3fc00000u : 0x7ffe;
        break;
    }
    return n;
}

/* windows are enumerated over the ten addresses starting one below the first
 * area -- or over fewer, where the address space ends before the tenth */
static inline uint32_t
fam_origin(const struct tspec *s)
{
    return s->a[0].base - 1;
}

/* number of addresses the windows of a table range over: FAM_MAXADDR + 1, or
 * the addresses from the origin up to 0xffffffff.  A window is (origin + rel,
 * n) with rel + n <= span, so no window extends beyond 0xffffffff (ranges that
 * wrap around are not generated). */
static inline uint32_t
fam_span(const struct tspec *s)
{
    const uint64_t left = 0x100000000ull - fam_origin(s);
    return left < FAM_MAXADDR + 1 ? (uint32_t)left : FAM_MAXADDR + 1;
}

/* ---- T "top of the address space" ------------------------------------------------
 * The family once more with every address moved up so that the LAST WORD OF
 * THE LAYOUT IS 0xffffffff: the last area (and a register placed at its end)
 * ends at 2^32, an exclusive end address that 32-bit arithmetic cannot hold.
 *
 *   T1 layouts A..D, all areas RW x (mem | cb) x (LE | BE) x register lists:
 *      every single register (5 types x every placement that fits x 6
 *      constraint kinds; the last placement ends on the last word) + ordered
 *      non-overlapping pairs (quick: adjacent or one word apart) + the two
 *      curated lists.
 *   T2 the whole flag part F2 (every per-area access combination of RW / RO /
 *      WO / RO-without-write-callback x mem | cb x the four register menus).
 *
 * Windows of these tables range over the addresses from one below the first
 * area up to 0xffffffff (fam_span). */
static inline uint32_t
fam_last_word(const struct layout *l)
{
    return l->base[l->na - 1] + l->size[l->na - 1] - 1;
}

static inline bool
fam_is_top(const struct tspec *s)
{
    return s->na > 0 && (uint64_t)s->a[s->na - 1].base + s->a[s->na - 1].size == 0x100000000ull;
}

static int
fam_enumerate_top(fam_fn fn, int idx, bool thorough)
{
    struct tspec s;
    static const int RW3[3] = { 0, 0, 0 };
    static const int ACC3[10][3] = {
        { 0, 1, 0 }, { 1, 0, 0 }, { 0, 0, 1 }, { 2, 0, 0 }, { 0, 2, 0 },
        { 0, 0, 2 }, { 3, 0, 0 }, { 0, 3, 0 }, { 1, 2, 3 }, { 2, 1, 0 },
    };
    /* ---- T1 ---- */
    for (int li = 0; li < NLAYOUTS; ++li) {
        const struct layout *l = &LAYOUTS[li];
        fam_shift = 0xffffffffu - fam_last_word(l);
        for (int combo = 0; combo < 4; ++combo) {
            const int backing = combo >> 1; /* 0 mem, 1 cb */
            const bool be = (combo & 1);
            for (unsigned ti = 0; ti < 5; ++ti)
                for (uint32_t a = 1; a <= 8; ++a) {
                    if (!fam_fits(l, FAM_TYPES1[ti], a))
                        continue;
                    for (int ck = 0; ck < K_NKINDS; ++ck) {
                        memset(&s, 0, sizeof s);
                        s.be = be;
                        fam_areas(&s, l, RW3, backing);
                        s.nr = 1;
                        s.r[0].type = FAM_TYPES1[ti];
                        s.r[0].addr = a + fam_shift;
                        fam_constrain(&s.r[0], ck);
                        fn(&s, idx++);
                    }
                }
            int rot = 0;
            for (unsigned t1 = 0; t1 < 4; ++t1)
                for (uint32_t a1 = 1; a1 <= 8; ++a1) {
                    if (!fam_fits(l, FAM_TYPES2[t1], a1))
                        continue;
                    for (unsigned t2 = 0; t2 < 4; ++t2)
                        for (uint32_t a2 = a1 + ref_words(FAM_TYPES2[t1]); a2 <= 8; ++a2) {
                            if (!fam_fits(l, FAM_TYPES2[t2], a2))
                                continue;
                            if (!thorough && a2 > a1 + ref_words(FAM_TYPES2[t1]) + 1)
                                continue;
                            memset(&s, 0, sizeof s);
                            s.be = be;
                            fam_areas(&s, l, RW3, backing);
                            s.nr = 2;
                            s.r[0].type = FAM_TYPES2[t1];
                            s.r[0].addr = a1 + fam_shift;
                            fam_constrain(&s.r[0], 2 + (rot % 4));
                            s.r[1].type = FAM_TYPES2[t2];
                            s.r[1].addr = a2 + fam_shift;
                            fam_constrain(&s.r[1], (rot / 4) % 6);
                            rot++;
                            fn(&s, idx++);
                        }
                }
            for (int variant = 0; variant < 2; ++variant) {
                memset(&s, 0, sizeof s);
                s.be = be;
                fam_areas(&s, l, RW3, backing);
                uint32_t a = 1;
                int k = 0;
                while (a <= 8 && s.nr < RT_MAXR - 1) {
                    RegisterType t = ((k + variant) & 1) ? REG_TYPE_UINT32 : REG_TYPE_UINT16;
                    if (!fam_fits(l, t, a)) {
                        t = REG_TYPE_UINT16;
                        if (!fam_fits(l, t, a)) {
                            a++;
                            continue;
                        }
                    }
                    s.r[s.nr].type = t;
                    s.r[s.nr].addr = a + fam_shift;
                    fam_constrain(&s.r[s.nr], (k + 2 * variant) % 6 == K_FAIL ? K_RANGE : (k + 2 * variant) % 6);
                    s.nr++;
                    a += ref_words(t);
                    k++;
                }
                fn(&s, idx++);
            }
        }
    }
    /* ---- T2 ---- */
    for (int li = 0; li < NLAYOUTS; ++li) {
        const struct layout *l = &LAYOUTS[li];
        fam_shift = 0xffffffffu - fam_last_word(l);
        const int ncombo = l->na == 1 ? 4 : l->na == 2 ? 16 : 10;
        for (int c = 0; c < ncombo; ++c) {
            int acc[3] = { 0, 0, 0 };
            if (l->na == 1)
                acc[0] = c;
            else if (l->na == 2) {
                acc[0] = c & 3;
                acc[1] = c >> 2;
            } else
                memcpy(acc, ACC3[c], sizeof acc);
            for (int backing = 0; backing < 2; ++backing)
                for (int rl = 0; rl < 4; ++rl) {
                    memset(&s, 0, sizeof s);
                    s.be = (rl & 1);
                    fam_areas(&s, l, acc, backing);
                    for (int i = 0; i < l->na && rl > 0; ++i) {
                        if (rl == 1) {
                            s.r[s.nr].type = l->size[i] >= 4 ? REG_TYPE_UINT64 : REG_TYPE_UINT32;
                            s.r[s.nr].addr = l->base[i] + fam_shift;
                            fam_constrain(&s.r[s.nr], K_MAX);
                            s.nr++;
                        } else if (rl == 2) {
                            s.r[s.nr].type = REG_TYPE_UINT32;
                            s.r[s.nr].addr = l->base[i] + l->size[i] - 2 + fam_shift;
                            fam_constrain(&s.r[s.nr], K_RANGE);
                            s.nr++;
                        } else {
                            for (uint32_t a = l->base[i]; a < l->base[i] + l->size[i] && s.nr < RT_MAXR; a += 2) {
                                s.r[s.nr].type = REG_TYPE_UINT16;
                                s.r[s.nr].addr = a + fam_shift;
                                fam_constrain(&s.r[s.nr], (a & 2) ? K_MIN : K_NONE);
                                s.nr++;
                            }
                        }
                    }
                    fn(&s, idx++);
                }
        }
    }
    fam_shift = 0;
    return idx;
}

#endif /* VERIF_REGFAM_H */
