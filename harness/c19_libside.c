/* C19, mixed-NDEBUG build variants: what the *library's* translation units see.
 *
 * This file is compiled with exactly the flags the ufw sources of the harness
 * are compiled with (it is listed with them in engine/checks.d/C19.py and, unlike
 * c19_ring.c, does not look at C19_APP_DEBUG / C19_APP_NDEBUG).  It exports the
 * size and alignment of the public object types that cross the boundary between
 * the library objects and the application (octet_ring: operated on by
 * src/octet-ring.c, allocated by the application; rb_iter: constructed by the
 * application's template instances, advanced by src/ring-buffer-iter.c).
 *
 * The statement does not demand that these layouts are the same under both
 * NDEBUG settings (a debug-only member is a legitimate design: such a library
 * has to be built with the setting of its application).  The mixed harnesses
 * compare these numbers with their own view at start-up and do not run when
 * they differ (cap, not a violation). */
#include <stddef.h>

#include <ufw/octet-ring.h>
#include <ufw/ring-buffer-iter.h>
#include <ufw/ring-buffer.h>

size_t c19_lib_sizeof_rb_iter(void);
size_t c19_lib_alignof_rb_iter(void);
size_t c19_lib_sizeof_octet_ring(void);
size_t c19_lib_alignof_octet_ring(void);
int c19_lib_ndebug(void);

size_t c19_lib_sizeof_rb_iter(void) { return sizeof(rb_iter); }
size_t c19_lib_alignof_rb_iter(void) { return _Alignof(rb_iter); }
size_t c19_lib_sizeof_octet_ring(void) { return sizeof(octet_ring); }
size_t c19_lib_alignof_octet_ring(void) { return _Alignof(octet_ring); }

int
c19_lib_ndebug(void)
{
#ifdef NDEBUG
    return 1;
#else
    return 0;
#endif
}
