/*
 * C18 -- byte buffer: explicit-state search to fixpoint over the real
 * ByteBuffer (struct fields + memory image) against a list model.
 *
 * State key = (size, used, offset, image[size]).  The model of a state is
 * derived from the key itself: content = image[0..used), unread =
 * image[offset..used).  That is sound because a state is only enqueued after
 * the transition that produced it agreed with the model's prediction.
 */
#include "mc.h"

#include <ufw/byte-buffer.h>

#define MAXSIZE 8
static const unsigned char ALPHA[3] = { 0x00, 0xa1, 0xb2 };

enum opkind { OP_ADD, OP_CONSUME, OP_ATMOST, OP_REWIND, OP_RESET, OP_CLEAR, OP_REPEAT };
struct op {
    enum opkind k;
    size_t len;
    int pat; /* add: 0 all a1, 1 all b2, 2 alternating a1 b2 */
};

static struct op ops[128];
static int nops;

static void
make_ops(size_t size)
{
    nops = 0;
    for (size_t len = 0; len <= size + 1; ++len)
        for (int pat = 0; pat < 3; ++pat) {
            if (len == 0 && pat > 0)
                continue;
            if (len == 1 && pat == 2)
                continue;
            ops[nops++] = (struct op){ OP_ADD, len, pat };
        }
    for (size_t len = 0; len <= size + 1; ++len)
        ops[nops++] = (struct op){ OP_CONSUME, len, 0 };
    for (size_t len = 0; len <= size + 1; ++len)
        ops[nops++] = (struct op){ OP_ATMOST, len, 0 };
    ops[nops++] = (struct op){ OP_REWIND, 0, 0 };
    ops[nops++] = (struct op){ OP_RESET, 0, 0 };
    ops[nops++] = (struct op){ OP_CLEAR, 0, 0 };
    ops[nops++] = (struct op){ OP_REPEAT, 0, 0 };
}

static const char *
opname(const struct op *o, char *buf, size_t n)
{
    static const char *pn[] = { "a1..", "b2..", "a1b2.." };
    switch (o->k) {
    case OP_ADD: snprintf(buf, n, "add(%zu,%s)", o->len, pn[o->pat]); break;
    case OP_CONSUME: snprintf(buf, n, "consume(%zu)", o->len); break;
    case OP_ATMOST: snprintf(buf, n, "consume_at_most(%zu)", o->len); break;
    case OP_REWIND: snprintf(buf, n, "rewind"); break;
    case OP_RESET: snprintf(buf, n, "reset"); break;
    case OP_CLEAR: snprintf(buf, n, "clear"); break;
    case OP_REPEAT: snprintf(buf, n, "repeat"); break;
    }
    return buf;
}

struct key {
    unsigned char size, used, offset;
    unsigned char img[MAXSIZE];
};

static size_t
keylen(size_t size)
{
    return 3 + size;
}

static void
explore(size_t size)
{
    struct mc_set set;
    mc_set_init(&set);
    make_ops(size);

    struct key k0;
    memset(&k0, 0, sizeof k0);
    k0.size = (unsigned char)size;
    mc_set_add(&set, &k0, keylen(size), -1, -1, NULL);

    bool saw_wrap = false;
    for (int64_t cur = 0; cur < (int64_t)set.n; ++cur) {
        struct key k;
        memset(&k, 0, sizeof k);
        memcpy(&k, mc_set_key(&set, cur), keylen(size));
        char path[200] = "";
        for (int oi = 0; oi < nops; ++oi) {
            const struct op *o = &ops[oi];
            char on[64];
            if (mc_would_run() && path[0] == 0)
                mc_set_path(&set, cur, path, sizeof path);
            mc_case("size=%zu state=(used=%u,off=%u,img=%02x%02x%02x%02x%02x%02x%02x%02x) path=[%s] op=%d:%s",
                    size, k.used, k.offset, k.img[0], k.img[1], k.img[2], k.img[3],
                    k.img[4], k.img[5], k.img[6], k.img[7], path, oi, opname(o, on, sizeof on));
            mc_trans(1);
            /* real object on an exact-size heap block: ASan guards both ends */
            unsigned char *mem = mc_exact_copy(k.img, size);
            ByteBuffer b;
            if (byte_buffer_set(&b, mem, size, k.used, k.offset) < 0) {
                mc_fail("C18/setup-accepts-valid", "byte_buffer_set refused a valid state");
                free(mem);
                mc_end(false, "setup-refused");
                continue;
            }
            /* model prediction */
            size_t m_used = k.used, m_off = k.offset;
            unsigned char m_img[MAXSIZE];
            memcpy(m_img, k.img, size);
            const size_t rest = m_used - m_off;
            bool ok = true;
            const char *outcome = "?";
            switch (o->k) {
            case OP_ADD: {
                unsigned char *src = mc_exact(o->len);
                for (size_t i = 0; i < o->len; ++i)
                    src[i] = (o->pat == 0) ? 0xa1 : (o->pat == 1) ? 0xb2 : ((i & 1) ? 0xb2 : 0xa1);
                const bool fits = m_used + o->len <= size;
                int rc = byte_buffer_add(&b, src, o->len);
                mc_log("add rc=%d", rc);
                if (fits) {
                    memcpy(m_img + m_used, src, o->len);
                    m_used += o->len;
                    outcome = "add-ok";
                    if (rc < 0) {
                        mc_fail("C18/add-appends", "add of %zu octets with %zu free refused rc=%d",
                                o->len, size - k.used, rc);
                        ok = false;
                    }
                } else {
                    outcome = "add-refused";
                    if (rc >= 0) {
                        mc_fail("C18/add-refuses-overflow", "add of %zu octets with %zu free returned %d",
                                o->len, size - k.used, rc);
                        ok = false;
                    }
                }
                free(src);
                break;
            }
            case OP_CONSUME: {
                unsigned char *dst = mc_exact(o->len);
                memset(dst, 0xee, o->len);
                int rc = byte_buffer_consume(&b, dst, o->len);
                mc_log("consume rc=%d", rc);
                mc_log_hex("out", dst, o->len);
                if (o->len <= rest) {
                    outcome = "consume-ok";
                    if (rc < 0) {
                        mc_fail("C18/consume-oldest", "consume(%zu) with %zu unread refused rc=%d", o->len, rest, rc);
                        ok = false;
                    } else if (memcmp(dst, m_img + m_off, o->len) != 0) {
                        mc_fail("C18/consume-oldest", "consume(%zu) did not return the oldest unread octets", o->len);
                        ok = false;
                    }
                    m_off += o->len;
                } else {
                    outcome = "consume-refused";
                    if (rc >= 0) {
                        mc_fail("C18/consume-refuses-underrun", "consume(%zu) with %zu unread returned %d", o->len, rest, rc);
                        ok = false;
                    }
                }
                free(dst);
                break;
            }
            case OP_ATMOST: {
                unsigned char *dst = mc_exact(o->len);
                memset(dst, 0xee, o->len);
                ssize_t rc = byte_buffer_consume_at_most(&b, dst, o->len);
                mc_log("consume_at_most rc=%zd", rc);
                mc_log_hex("out", dst, o->len);
                if (rest == 0) {
                    outcome = "atmost-empty";
                    /* "failing only when none are": a request for zero octets
                     * on an empty buffer may fail or deliver its zero octets --
                     * the statement does not decide it; the state comparison
                     * below demands "nothing changed" either way */
                    if (o->len == 0 ? rc > 0 : rc >= 0) {
                        mc_fail("C18/atmost-fails-only-on-empty", "consume_at_most(%zu) on an empty buffer returned %zd", o->len, rc);
                        ok = false;
                    }
                } else {
                    const size_t n = o->len < rest ? o->len : rest;
                    outcome = (n < o->len) ? "atmost-short" : "atmost-full";
                    if (rc != (ssize_t)n) {
                        mc_fail("C18/atmost-count", "consume_at_most(%zu) with %zu unread returned %zd, expected %zu", o->len, rest, rc, n);
                        ok = false;
                    } else if (memcmp(dst, m_img + m_off, n) != 0) {
                        mc_fail("C18/atmost-oldest", "consume_at_most(%zu) did not return the oldest unread octets", o->len);
                        ok = false;
                    }
                    m_off += n;
                }
                free(dst);
                break;
            }
            case OP_REWIND: {
                int rc = byte_buffer_rewind(&b);
                mc_log("rewind rc=%d", rc);
                memmove(m_img, m_img + m_off, rest);
                m_used = rest;
                m_off = 0;
                outcome = k.offset ? (rest ? "rewind-moves" : "rewind-empties") : "rewind-noop";
                if (k.offset && rest)
                    saw_wrap = true;
                if (rc < 0) {
                    mc_fail("C18/rewind-keeps-unread", "rewind on a valid buffer returned %d", rc);
                    ok = false;
                }
                break;
            }
            case OP_RESET:
                byte_buffer_reset(&b);
                m_used = m_off = 0;
                outcome = "reset";
                break;
            case OP_CLEAR:
                byte_buffer_clear(&b);
                m_used = m_off = 0;
                memset(m_img, 0, size);
                outcome = "clear";
                for (size_t i = 0; i < size; ++i)
                    if (mem[i] != 0) {
                        mc_fail("C18/clear-zeroes", "octet %zu is %02x after clear", i, mem[i]);
                        ok = false;
                        break;
                    }
                break;
            case OP_REPEAT:
                byte_buffer_repeat(&b);
                m_off = 0;
                outcome = "repeat";
                break;
            }
            mc_log("after: size=%zu used=%zu offset=%zu", b.size, b.used, b.offset);
            mc_log_hex("image", mem, size);
            /* invariants and agreement with the model */
            if (b.data != mem || b.size != size) {
                mc_fail("C18/geometry-unchanged", "data/size changed: size=%zu", b.size);
                ok = false;
            } else if (!(b.offset <= b.used && b.used <= b.size)) {
                mc_fail("C18/invariant", "offset=%zu used=%zu size=%zu", b.offset, b.used, b.size);
                ok = false;
            } else if (ok) {
                const char *cl = (o->k == OP_REWIND) ? "C18/rewind-keeps-unread"
                    : (o->k == OP_ADD) ? "C18/add-appends"
                    : (o->k == OP_CONSUME || o->k == OP_ATMOST) ? "C18/consume-advances"
                    : "C18/reset-clear-repeat";
                if (b.used != m_used || b.offset != m_off) {
                    mc_fail(cl, "fields used=%zu offset=%zu, model used=%zu offset=%zu",
                            b.used, b.offset, m_used, m_off);
                    ok = false;
                } else if (memcmp(mem, m_img, m_used) != 0) {
                    mc_fail(cl, "filled region differs from the model's content");
                    ok = false;
                } else if (byte_buffer_avail(&b) != size - m_used || byte_buffer_rest(&b) != m_used - m_off) {
                    mc_fail("C18/avail-rest", "avail=%zu rest=%zu, model %zu %zu", byte_buffer_avail(&b),
                            byte_buffer_rest(&b), size - m_used, m_used - m_off);
                    ok = false;
                }
            }
            if (ok) {
                struct key nk;
                memset(&nk, 0, sizeof nk);
                nk.size = (unsigned char)size;
                nk.used = (unsigned char)b.used;
                nk.offset = (unsigned char)b.offset;
                memcpy(nk.img, mem, size);
                mc_set_add(&set, &nk, keylen(size), cur, oi, NULL);
            }
            free(mem);
            mc_end(o->k != OP_RESET || k.used != 0, outcome);
        }
        if (set.n > 2000000) {
            mc_cap("state cap 2000000 hit at size %zu", size);
            break;
        }
    }
    mc.states += (int64_t)set.n;
    if (!saw_wrap && size > 1 && mc.only < 0 && mc.violations == 0)
        mc_broken("vacuous: no rewind of a partly consumed buffer at size %zu", size);
    mc_set_free(&set);
}

/* Set-up matrix: byte_buffer_set / use / space */
static void
setup_matrix(size_t S)
{
    unsigned char *mem = mc_exact(S);
    memset(mem, 0x5a, S);
    const size_t sizes[3] = { 0, 1, S };
    const int nsizes = (S == 1) ? 2 : 3;
    for (int dnull = 0; dnull < 2; ++dnull)
        for (int si = 0; si < nsizes; ++si) {
            const size_t size = sizes[si];
            for (size_t used = 0; used <= S + 1; ++used)
                for (size_t off = 0; off <= S + 2; ++off) {
                    if (!mc_case("setup set(data=%s,size=%zu,used=%zu,offset=%zu)",
                                 dnull ? "NULL" : "mem", size, used, off))
                        continue;
                    ByteBuffer b = { (unsigned char *)0x10, 77, 55, 33 };
                    int rc = byte_buffer_set(&b, dnull ? NULL : mem, size, used, off);
                    mc_trans(1);
                    const bool valid = !dnull && size > 0 && used <= size && off <= used;
                    mc_log("rc=%d", rc);
                    if (valid) {
                        if (rc < 0)
                            mc_fail("C18/setup-accepts-valid", "refused rc=%d", rc);
                        else if (b.data != mem || b.size != size || b.used != used || b.offset != off)
                            mc_fail("C18/setup-accepts-valid", "fields not set");
                    } else if (rc >= 0) {
                        mc_fail("C18/setup-refuses", "accepted rc=%d", rc);
                    }
                    mc_end(true, valid ? "set-ok" : "set-refused");
                }
        }
    for (int which = 0; which < 2; ++which)
        for (int dnull = 0; dnull < 2; ++dnull)
            for (size_t size = 0; size <= S; size += S) {
                if (!mc_case("setup %s(data=%s,size=%zu)", which ? "space" : "use",
                             dnull ? "NULL" : "mem", size))
                    continue;
                ByteBuffer b = { (unsigned char *)0x10, 77, 55, 33 };
                int rc = which ? byte_buffer_space(&b, dnull ? NULL : mem, size)
                               : byte_buffer_use(&b, dnull ? NULL : mem, size);
                mc_trans(1);
                const bool valid = !dnull && size > 0;
                if (valid) {
                    if (rc < 0 || b.data != mem || b.size != size || b.offset != 0
                        || b.used != (which ? 0 : size))
                        mc_fail("C18/setup-accepts-valid", "%s: rc=%d used=%zu offset=%zu",
                                which ? "space" : "use", rc, b.used, b.offset);
                } else if (rc >= 0) {
                    mc_fail("C18/setup-refuses", "%s accepted rc=%d", which ? "space" : "use", rc);
                }
                mc_end(true, valid ? "set-ok" : "set-refused");
            }
    free(mem);
}

int
main(int argc, char **argv)
{
    mc_init(argc, argv);
    const size_t maxsize = mc_thorough() ? 8 : 5;
    for (size_t size = 1; size <= maxsize; ++size) {
        /* one partition per buffer size: the searches are independent */
        if (!mc_partition((int)(maxsize - size), (int64_t)size))
            continue;
        explore(size);
        setup_matrix(size);
    }
    char bound[128];
    snprintf(bound, sizeof bound, "sizes 1..%zu, octets {00,a1,b2}, all operations, operand lengths 0..size+1, to fixpoint", maxsize);
    mc_finish(true, bound);
    return 0;
}
