/*
 * C18 -- byte buffer: explicit-state search to fixpoint over the real
 * ByteBuffer (struct fields + memory image) against a list model, plus a
 * large-scope value family and descriptor re-use histories.
 *
 * Parts (all of them run the real code against the same list model):
 *
 *  A  small scope, to fixpoint.  State key = (size, used, offset,
 *     image[size]).  The model of a state is derived from the key itself:
 *     content = image[0..used), unread = image[offset..used).  That is sound
 *     because a state is only enqueued after the transition that produced it
 *     agreed with the model's prediction.
 *  A' far operands.  After the fixpoint every reached state is offered
 *     add / consume / consume_at_most with operand lengths from a boundary
 *     family (2^8 .. 2^64 -/+ (size+1)).  Such an add or consume has to fail
 *     without change, the at-most variant delivers what is there.  An add that
 *     refuses has nothing to append: its source block is smaller than stated.
 *     The destination of a consume / at-most really has the stated length (heap
 *     block, or a guarded 16 GiB mapping); lengths beyond that are not offered
 *     to consume / at-most.
 *  R  descriptor re-use.  Every set-up call of the argument matrix (set / use
 *     / space; null memory, zero size, used > size, offset > used -- small and
 *     far values) is made on a descriptor with a history: zeroed, 0xff-filled,
 *     byte_buffer_null'ed, and in use with every (used, offset) geometry over
 *     other memory or over the very memory now offered.  A refused set-up must
 *     leave both memory blocks unchanged and the descriptor either unchanged or
 *     consistent and describing no memory or exactly the offered block
 *     (refused_descriptor_ok);
 *     an accepted one must describe exactly what was asked for, and every
 *     operation of the alphabet is then run once on the re-used descriptor
 *     against the model of a fresh one (differential oracle).
 *  B1 medium scope on real exact-size heap blocks whose size straddles a type
 *     boundary (2^8, 2^16; thorough also 2^7, 2^15): every (used, offset) from
 *     the boundary family is installed with byte_buffer_set and every operation
 *     with boundary operand lengths is run once, full image compared.
 *  B2 large scope on a 4 GiB + 128 KiB mapping: sizes straddling 2^31 and
 *     2^32, (used, offset) from the boundary family, operations that move at
 *     most 8 octets or have to refuse (so no clear, and rewind only when at most
 *     8 octets are unread), octets compared in windows around every boundary;
 *     plus the set-up matrix with such sizes.  Only the pages under the windows
 *     are accessible: a call that touches another page of the mapping (work in
 *     proportion to the buffer size -- nothing the statement forbids) is
 *     abandoned as undecided and the run is marked non-exhaustive.
 *
 *  X  every operation with its buffer argument given as an expression with a
 *     side effect (expr_family).
 *  J  operands that touch the buffer's memory from outside (adjacent_family).
 *
 * The image an operation starts from is always the one the set-up call left
 * (set-up must keep the octets it is told are filled; what it does to the free
 * room is open).
 */
#include "mc.h"

#include <setjmp.h>

#include <ufw/byte-buffer.h>

#define MAXSIZE 8

enum opkind { OP_ADD, OP_CONSUME, OP_ATMOST, OP_REWIND, OP_RESET, OP_CLEAR, OP_REPEAT };
struct op {
    enum opkind k;
    size_t len;
    int pat; /* add: 0 all a1, 1 all b2, 2 alternating a1 b2, 3 positional */
};

#define MAXOPS 128

static int
make_ops(struct op *ops, size_t size)
{
    int nops = 0;
    for (size_t len = 0; len <= size + 1; ++len)
        for (int pat = 0; pat < 3; ++pat) {
            if (len == 0 && pat > 0)
                continue;
            if (len == 1 && pat == 2)
                continue;
            ops[nops++] = (struct op){ OP_ADD, len, pat };
        }
    for (size_t len = 0; len <= size + 1; ++len)
        ops[nops++] = (struct op){ OP_CONSUME, len, 0 };
    for (size_t len = 0; len <= size + 1; ++len)
        ops[nops++] = (struct op){ OP_ATMOST, len, 0 };
    ops[nops++] = (struct op){ OP_REWIND, 0, 0 };
    ops[nops++] = (struct op){ OP_RESET, 0, 0 };
    ops[nops++] = (struct op){ OP_CLEAR, 0, 0 };
    ops[nops++] = (struct op){ OP_REPEAT, 0, 0 };
    return nops;
}

/* Far operand lengths for a buffer of `size` octets: every 2^w -/+ (size+1)
 * for the widths a narrowing or a wrapping sum could hit.  2^64 + d (d >= 0)
 * are the small lengths of the ordinary alphabet and left out here. */
#define MAXFAR 256
static int
make_far(size_t *far, size_t size)
{
    static const size_t base[] = {
        (size_t)1 << 8,  (size_t)1 << 15, (size_t)1 << 16, (size_t)1 << 31, (size_t)1 << 32,
        (size_t)3 << 32, (size_t)1 << 48, (size_t)1 << 63, 0 /* 2^64 */
    };
    int n = 0;
    for (size_t bi = 0; bi < sizeof base / sizeof base[0]; ++bi)
        for (size_t d = 0; d <= 2 * (size + 1); ++d) {
            /* delta = d - (size+1) */
            if (base[bi] == 0 && d >= size + 1)
                continue;
            far[n++] = base[bi] + d - (size + 1);
        }
    return n;
}

static const char *
opname(const struct op *o, char *buf, size_t n)
{
    static const char *pn[] = { "a1..", "b2..", "a1b2..", "pos.." };
    switch (o->k) {
    case OP_ADD:
        if (o->len > 0xffff)
            snprintf(buf, n, "add(%#zx,%s)", o->len, pn[o->pat]);
        else
            snprintf(buf, n, "add(%zu,%s)", o->len, pn[o->pat]);
        break;
    case OP_CONSUME: snprintf(buf, n, o->len > 0xffff ? "consume(%#zx)" : "consume(%zu)", o->len); break;
    case OP_ATMOST: snprintf(buf, n, o->len > 0xffff ? "consume_at_most(%#zx)" : "consume_at_most(%zu)", o->len); break;
    case OP_REWIND: snprintf(buf, n, "rewind"); break;
    case OP_RESET: snprintf(buf, n, "reset"); break;
    case OP_CLEAR: snprintf(buf, n, "clear"); break;
    case OP_REPEAT: snprintf(buf, n, "repeat"); break;
    }
    return buf;
}

static void
fill_src(unsigned char *src, size_t n, int pat)
{
    for (size_t i = 0; i < n; ++i)
        src[i] = (pat == 0)   ? 0xa1
                 : (pat == 1) ? 0xb2
                 : (pat == 2) ? ((i & 1) ? 0xb2 : 0xa1)
                              : (unsigned char)(0xc3 ^ (i * 29 + (i >> 8) * 7));
}

/* ---- guarded regions ---------------------------------------------------------
 * Two lazily backed mappings whose pages are mostly inaccessible:
 *   bigmap  the memory of the large-scope buffers (B2): only the pages under
 *           the compared windows are accessible;
 *   fardst  the destination handed to consume / consume_at_most with a length
 *           of 2^31 and more: FARDST_LEN octets of address space that really
 *           belong to the harness, of which only the first 256 KiB are accessible.
 * An implementation that touches an inaccessible page of either (work in
 * proportion to the buffer size; padding or clearing the destination within
 * the length the caller states -- nothing the statement forbids) is not a
 * violation: the case is abandoned as undecided and the run marked
 * non-exhaustive.  Faults elsewhere go to the sanitizer's handler as before. */
#define BIGLEN (((size_t)1 << 32) + ((size_t)1 << 17))
static unsigned char *bigmap;
#define FARDST_LEN ((size_t)1 << 34)
#define FARDST_HOT ((size_t)1 << 18) /* accessible octets at its start */
static unsigned char *fardst;
static bool fardst_failed;

static sigjmp_buf big_jmp;
static volatile sig_atomic_t big_armed;
static struct sigaction big_oldsa;
static bool guard_installed;

static void
big_segv(int sig, siginfo_t *si, void *ctx)
{
    const uintptr_t a = (uintptr_t)si->si_addr;
    if (big_armed
        && ((bigmap != NULL && a >= (uintptr_t)bigmap && a < (uintptr_t)bigmap + BIGLEN)
            || (fardst != NULL && a >= (uintptr_t)fardst && a < (uintptr_t)fardst + FARDST_LEN))) {
        big_armed = 0;
        siglongjmp(big_jmp, 1);
    }
    if (big_oldsa.sa_flags & SA_SIGINFO) {
        big_oldsa.sa_sigaction(sig, si, ctx);
    } else {
        signal(SIGSEGV, SIG_DFL);
    }
}

static void
guard_install(void)
{
    if (guard_installed)
        return;
    struct sigaction sa;
    memset(&sa, 0, sizeof sa);
    sa.sa_sigaction = big_segv;
    sa.sa_flags = SA_SIGINFO | SA_NODEFER;
    sigaction(SIGSEGV, &sa, &big_oldsa);
    guard_installed = true;
}

/* run `CALL`; `UNDECIDED` when it touched an inaccessible page of a guarded region */
#define BIG_GUARDED(CALL, UNDECIDED)            \
    do {                                        \
        if (sigsetjmp(big_jmp, 1) == 0) {       \
            big_armed = 1;                      \
            CALL;                               \
            big_armed = 0;                      \
        } else {                                \
            UNDECIDED = true;                   \
        }                                       \
    } while (0)

/* A destination for a consume / consume_at_most that states `len` octets, of
 * which the implementation under the statement writes at most `hot`.  It
 * really has `len` octets: an exact-size heap block (ASan red zone behind it)
 * up to 2^20, the guarded mapping up to FARDST_LEN.  Lengths beyond that cannot
 * be backed and are not generated (farlen_backable).  NULL: mapping refused. */
#define FARDST_HEAP ((size_t)1 << 20)
static bool
farlen_backable(size_t len)
{
    return len <= FARDST_LEN;
}

static unsigned char *
dst_get(size_t len, size_t hot, bool *mapped)
{
    *mapped = false;
    if (len <= FARDST_HEAP) {
        unsigned char *d = mc_exact(len);
        memset(d, 0xee, len);
        return d;
    }
    if (fardst == NULL && !fardst_failed) {
        void *p = mmap(NULL, FARDST_LEN, PROT_NONE, MAP_PRIVATE | MAP_ANONYMOUS | MAP_NORESERVE, -1, 0);
        if (p == MAP_FAILED || mprotect(p, FARDST_HOT, PROT_READ | PROT_WRITE) != 0) {
            if (p != MAP_FAILED)
                munmap(p, FARDST_LEN);
            fardst_failed = true;
            mc_cap("%zu GiB of address space for far destinations not available: consume lengths >= 2^31 skipped",
                   FARDST_LEN >> 30);
        } else {
            fardst = p;
            guard_install();
        }
    }
    if (fardst == NULL)
        return NULL;
    if (hot > FARDST_HOT)
        mc_broken("far destination: %zu octets expected to be written, %zu are accessible", hot, (size_t)FARDST_HOT);
    memset(fardst, 0xee, hot < 64 ? 64 : hot);
    *mapped = true;
    return fardst;
}

static void
dst_put(unsigned char *d, bool mapped)
{
    if (!mapped)
        free(d);
}

/* After this many abandoned calls of one kind the remaining far-length calls
 * of that kind on the mapping are not made any more (each costs the
 * implementation's walk over GiB of address space up to the fault); the run
 * is non-exhaustive from the first one on. */
#define FAR_UNDECIDED_MAX 16
static int far_undecided_n[2]; /* consume, at-most */
static bool said_far_undecided;
static void
far_undecided(void)
{
    mc_log("undecided: the call touched the destination beyond the octets it delivers");
    if (!said_far_undecided)
        mc_cap("far-length cases abandoned: the implementation touches the destination in proportion to the stated length");
    said_far_undecided = true;
}

/* ---- argument expressions with a side effect ----------------------------------
 * The operations are functions of the public header: a call whose buffer
 * argument is an expression with a side effect (a cursor function walking a
 * list of buffers) operates on the one buffer that expression yields.  In
 * expression mode run_op() passes xb() as the buffer argument: its first
 * evaluation yields the buffer under test, every further one the next decoy
 * (same geometry over memory of its own).  An operation made available as a
 * function-like macro that evaluates its argument more than once then works
 * on the decoys. */
static bool expr_mode;
static struct {
    ByteBuffer *seq[3];
    int i;
} xcur;

static ByteBuffer *
xb(void)
{
    ByteBuffer *b = xcur.seq[xcur.i < 2 ? xcur.i : 2];
    xcur.i++;
    return b;
}
#define XB(b) (expr_mode ? xb() : (b))

/* The list model of one buffer: the whole memory image before the operation
 * (content = img[0..used), unread = img[off..used)). */
struct model {
    size_t size, used, off;
    unsigned char *img; /* size octets */
};

/* One operation on the real buffer `b` (memory `mem`, m->size octets) in
 * lock-step with the model; m is advanced to the state the statement
 * prescribes.  Returns whether the implementation agreed. */
static bool
run_op(ByteBuffer *b, unsigned char *mem, struct model *m, const struct op *o, const char **outcome)
{
    const size_t size = m->size;
    const size_t rest = m->used - m->off;
    /* an operand no buffer of this size could ever satisfy.  add: the source
     * block is then smaller than the operand says (an add that has to refuse
     * has no octet to append and does not read it).  consume / at-most: the
     * destination always has the stated length (dst_get); lengths that cannot
     * be backed are not generated. */
    const bool far = o->len > size + 1;
    if (far && o->k != OP_ADD && !farlen_backable(o->len))
        mc_broken("a consume length that cannot be backed was generated");
    const size_t k_used = m->used, k_off = m->off;
    bool ok = true, refused = false;
    *outcome = "?";
    switch (o->k) {
    case OP_ADD: {
        const size_t srcn = far ? size + 1 : o->len;
        unsigned char *src = mc_exact(srcn);
        fill_src(src, srcn, o->pat);
        const bool fits = o->len <= size - m->used;
        int rc = byte_buffer_add(XB(b), src, o->len);
        mc_log("add rc=%d", rc);
        if (fits) {
            memcpy(m->img + m->used, src, o->len);
            m->used += o->len;
            *outcome = "add-ok";
            if (rc < 0) {
                mc_fail("C18/add-appends", "add of %zu octets with %zu free refused rc=%d",
                        o->len, size - k_used, rc);
                ok = false;
            }
        } else {
            refused = true;
            *outcome = far ? "far-add-refused" : "add-refused";
            if (rc >= 0) {
                mc_fail("C18/add-refuses-overflow", "add of %#zx octets with %zu free returned %d",
                        o->len, size - k_used, rc);
                ok = false;
            }
        }
        free(src);
        break;
    }
    case OP_CONSUME: {
        /* the destination really has the o->len octets the call states */
        bool mapped = false, undecided = false;
        unsigned char *dst = dst_get(o->len, o->len <= rest ? o->len : 0, &mapped);
        if (dst == NULL) {
            *outcome = "far-unmapped";
            return false;
        }
        int rc = 0;
        if (mapped && far_undecided_n[0] >= FAR_UNDECIDED_MAX)
            undecided = true;
        else
            BIG_GUARDED(rc = byte_buffer_consume(XB(b), dst, o->len), undecided);
        if (undecided) {
            far_undecided_n[0]++;
            far_undecided();
            dst_put(dst, mapped);
            *outcome = "far-undecided";
            return false;
        }
        mc_log("consume rc=%d", rc);
        mc_log_hex("out", dst, o->len > 64 ? 64 : o->len);
        if (o->len <= rest) {
            *outcome = "consume-ok";
            if (rc < 0) {
                mc_fail("C18/consume-oldest", "consume(%zu) with %zu unread refused rc=%d", o->len, rest, rc);
                ok = false;
            } else if (memcmp(dst, m->img + m->off, o->len) != 0) {
                mc_fail("C18/consume-oldest", "consume(%zu) did not return the oldest unread octets", o->len);
                ok = false;
            }
            m->off += o->len;
        } else {
            refused = true;
            *outcome = far ? "far-consume-refused" : "consume-refused";
            if (rc >= 0) {
                mc_fail("C18/consume-refuses-underrun", "consume(%#zx) with %zu unread returned %d", o->len, rest, rc);
                ok = false;
            }
        }
        dst_put(dst, mapped);
        break;
    }
    case OP_ATMOST: {
        bool mapped = false, undecided = false;
        unsigned char *dst = dst_get(o->len, rest, &mapped);
        if (dst == NULL) {
            *outcome = "far-unmapped";
            return false;
        }
        ssize_t rc = 0;
        if (mapped && far_undecided_n[1] >= FAR_UNDECIDED_MAX)
            undecided = true;
        else
            BIG_GUARDED(rc = byte_buffer_consume_at_most(XB(b), dst, o->len), undecided);
        if (undecided) {
            far_undecided_n[1]++;
            far_undecided();
            dst_put(dst, mapped);
            *outcome = "far-undecided";
            return false;
        }
        mc_log("consume_at_most rc=%zd", rc);
        mc_log_hex("out", dst, o->len > 64 ? 64 : o->len);
        if (rest == 0) {
            refused = true; /* nothing there: failing or not, nothing may change */
            *outcome = far ? "far-atmost-empty" : "atmost-empty";
            /* "failing only when none are": a request for zero octets
             * on an empty buffer may fail or deliver its zero octets --
             * the statement does not decide it; the state comparison
             * below demands "nothing changed" either way */
            if (o->len == 0 ? rc > 0 : rc >= 0) {
                mc_fail("C18/atmost-fails-only-on-empty", "consume_at_most(%#zx) on an empty buffer returned %zd", o->len, rc);
                ok = false;
            }
        } else {
            const size_t n = o->len < rest ? o->len : rest;
            *outcome = far ? "far-atmost-short" : (n < o->len) ? "atmost-short" : "atmost-full";
            if (rc != (ssize_t)n) {
                mc_fail("C18/atmost-count", "consume_at_most(%#zx) with %zu unread returned %zd, expected %zu", o->len, rest, rc, n);
                ok = false;
            } else if (memcmp(dst, m->img + m->off, n) != 0) {
                mc_fail("C18/atmost-oldest", "consume_at_most(%#zx) did not return the oldest unread octets", o->len);
                ok = false;
            }
            m->off += n;
        }
        dst_put(dst, mapped);
        break;
    }
    case OP_REWIND: {
        int rc = byte_buffer_rewind(XB(b));
        mc_log("rewind rc=%d", rc);
        memmove(m->img, m->img + m->off, rest);
        m->used = rest;
        m->off = 0;
        *outcome = k_off ? (rest ? "rewind-moves" : "rewind-empties") : "rewind-noop";
        if (rc < 0) {
            mc_fail("C18/rewind-keeps-unread", "rewind on a valid buffer returned %d", rc);
            ok = false;
        }
        break;
    }
    case OP_RESET:
        byte_buffer_reset(XB(b));
        m->used = m->off = 0;
        *outcome = "reset";
        break;
    case OP_CLEAR:
        byte_buffer_clear(XB(b));
        m->used = m->off = 0;
        memset(m->img, 0, size);
        *outcome = "clear";
        for (size_t i = 0; i < size; ++i)
            if (mem[i] != 0) {
                mc_fail("C18/clear-zeroes", "octet %zu is %02x after clear", i, mem[i]);
                ok = false;
                break;
            }
        break;
    case OP_REPEAT:
        byte_buffer_repeat(XB(b));
        m->off = 0;
        *outcome = "repeat";
        break;
    }
    mc_log("after: size=%zu used=%zu offset=%zu", b->size, b->used, b->offset);
    mc_log_hex("image", mem, size > 64 ? 64 : size);
    /* invariants and agreement with the model */
    if (b->data != mem || b->size != size) {
        mc_fail("C18/geometry-unchanged", "data/size changed: size=%zu", b->size);
        ok = false;
    } else if (!(b->offset <= b->used && b->used <= b->size)) {
        mc_fail("C18/invariant", "offset=%zu used=%zu size=%zu", b->offset, b->used, b->size);
        ok = false;
    } else if (ok) {
        const char *cl = refused                   ? "C18/refusal-unchanged"
                         : (o->k == OP_REWIND)     ? "C18/rewind-keeps-unread"
                         : (o->k == OP_ADD)        ? "C18/add-appends"
                         : (o->k == OP_CONSUME || o->k == OP_ATMOST) ? "C18/consume-advances"
                                                   : "C18/reset-clear-repeat";
        if (b->used != m->used || b->offset != m->off) {
            mc_fail(cl, "fields used=%zu offset=%zu, model used=%zu offset=%zu",
                    b->used, b->offset, m->used, m->off);
            ok = false;
        } else if (memcmp(mem, m->img, m->used) != 0) {
            mc_fail(cl, "filled region differs from the model's content");
            ok = false;
        } else if (refused && memcmp(mem, m->img, size) != 0) {
            /* "fails without change": the whole image, not only the filled part */
            mc_fail("C18/refusal-unchanged", "a refused operation changed the buffer's memory");
            ok = false;
        }
    }
    /* byte_buffer_avail / byte_buffer_rest do not occur in the statement: observed, not demanded */
    mc_log("avail=%zu rest=%zu (model: %zu %zu)", byte_buffer_avail(b), byte_buffer_rest(b), size - m->used,
           m->used - m->off);
    return ok;
}

struct key {
    unsigned char size, used, offset;
    unsigned char img[MAXSIZE];
};

static size_t
keylen(size_t size)
{
    return 3 + size;
}

/* one transition of the small-scope search: operation o on the state k */
static bool
transition(const struct key *k, size_t size, const struct op *o, struct key *nk, const char **outcome)
{
    bool ok = true;
    /* real object on an exact-size heap block: ASan guards both ends */
    unsigned char *mem = mc_exact_copy(k->img, size);
    ByteBuffer b;
    if (byte_buffer_set(&b, mem, size, k->used, k->offset) < 0) {
        mc_fail("C18/setup-accepts-valid", "byte_buffer_set refused a valid state");
        free(mem);
        *outcome = "setup-refused";
        return false;
    }
    if (memcmp(mem, k->img, k->used) != 0) {
        /* the octets declared as already filled are the buffer's content */
        mc_fail("C18/setup-accepts-valid", "set-up changed the octets it was told are filled");
        free(mem);
        *outcome = "setup-refused";
        return false;
    }
    /* the image the operation starts from is the one set-up left (the
     * statement does not say what set-up does to the free room) */
    unsigned char m_img[MAXSIZE];
    memcpy(m_img, mem, size);
    struct model m = { size, k->used, k->offset, m_img };
    ok = run_op(&b, mem, &m, o, outcome);
    if (ok) {
        memset(nk, 0, sizeof *nk);
        nk->size = (unsigned char)size;
        nk->used = (unsigned char)b.used;
        nk->offset = (unsigned char)b.offset;
        memcpy(nk->img, mem, size);
    }
    free(mem);
    return ok;
}

#define STATE_FMT "size=%zu state=(used=%u,off=%u,img=%02x%02x%02x%02x%02x%02x%02x%02x) path=[%s]"
#define STATE_ARGS(k) size, (k).used, (k).offset, (k).img[0], (k).img[1], (k).img[2], (k).img[3], \
                      (k).img[4], (k).img[5], (k).img[6], (k).img[7], path

static void
explore(size_t size)
{
    struct mc_set set;
    mc_set_init(&set);
    static struct op ops[MAXOPS];
    const int nops = make_ops(ops, size);

    struct key k0;
    memset(&k0, 0, sizeof k0);
    k0.size = (unsigned char)size;
    mc_set_add(&set, &k0, keylen(size), -1, -1, NULL);

    bool saw_wrap = false;
    for (int64_t cur = 0; cur < (int64_t)set.n; ++cur) {
        struct key k;
        memset(&k, 0, sizeof k);
        memcpy(&k, mc_set_key(&set, cur), keylen(size));
        char path[200] = "";
        for (int oi = 0; oi < nops; ++oi) {
            const struct op *o = &ops[oi];
            char on[64];
            if (mc_would_run() && path[0] == 0)
                mc_set_path(&set, cur, path, sizeof path);
            mc_case(STATE_FMT " op=%d:%s", STATE_ARGS(k), oi, opname(o, on, sizeof on));
            mc_trans(1);
            struct key nk;
            const char *outcome;
            if (o->k == OP_REWIND && k.offset && k.used > k.offset)
                saw_wrap = true;
            if (transition(&k, size, o, &nk, &outcome))
                mc_set_add(&set, &nk, keylen(size), cur, oi, NULL);
            mc_end(o->k != OP_RESET || k.used != 0, outcome);
        }
        if (set.n > 2000000) {
            mc_cap("state cap 2000000 hit at size %zu", size);
            break;
        }
    }
    mc.states += (int64_t)set.n;
    if (!saw_wrap && size > 1 && mc.only < 0 && mc.violations == 0)
        mc_broken("vacuous: no rewind of a partly consumed buffer at size %zu", size);

    /* A': far operands in every reached state (after the fixpoint, so that a
     * sanitizer abort here cannot hide a finding of the search above) */
    static size_t far[MAXFAR];
    const int nfar = make_far(far, size);
    for (int64_t cur = 0; cur < (int64_t)set.n; ++cur) {
        struct key k;
        memset(&k, 0, sizeof k);
        memcpy(&k, mc_set_key(&set, cur), keylen(size));
        char path[200] = "";
        for (int kind = 0; kind < 3; ++kind)
            for (int fi = 0; fi < nfar; ++fi) {
                const struct op o = { kind == 0 ? OP_ADD : kind == 1 ? OP_CONSUME : OP_ATMOST, far[fi], 2 };
                char on[64];
                /* a destination of that length cannot exist: not a call the statement covers */
                if (kind != 0 && !farlen_backable(far[fi]))
                    continue;
                if (mc_would_run() && path[0] == 0)
                    mc_set_path(&set, cur, path, sizeof path);
                mc_case(STATE_FMT " far-op=%s", STATE_ARGS(k), opname(&o, on, sizeof on));
                mc_trans(1);
                struct key nk;
                const char *outcome;
                /* successors are not enqueued: where the model is met, a far
                 * add/consume leaves the state alone and at-most(far) is
                 * at-most(size+1) of the alphabet above */
                transition(&k, size, &o, &nk, &outcome);
                mc_end(true, outcome);
            }
    }
    mc_set_free(&set);
}

/* The descriptor after a refused set-up.  "Set-up refuses null memory, zero
 * size, used > size or offset > used": the statement does not say "without
 * change" here (it does for add and consume).  Admissible: the descriptor as
 * it was, or a consistent descriptor (offset <= used <= size) that describes
 * no memory (data == NULL or size == 0) or exactly the offered (data, size)
 * pair -- the caller vouched for that block, any marks in order inside it
 * keep every later operation inside memory the caller handed over.  A
 * descriptor whose marks are out of order, or that describes memory nobody
 * offered in this call, would let the next operation work outside it. */
static bool
refused_descriptor_ok(const ByteBuffer *b, const ByteBuffer *before, const void *odata, size_t osize)
{
    if (b->data == before->data && b->size == before->size && b->used == before->used && b->offset == before->offset)
        return true;
    if (!(b->offset <= b->used && b->used <= b->size))
        return false;
    /* describes no memory, or exactly the memory block the caller offered
     * (bad marks on good memory: the block is taken, the marks are not) */
    return b->data == NULL || b->size == 0 || (b->data == (const unsigned char *)odata && b->size == osize);
}

/* Set-up matrix on a descriptor holding arbitrary values */
static void
setup_matrix(size_t S)
{
    unsigned char *mem = mc_exact(S);
    memset(mem, 0x5a, S);
    unsigned char mem0[MAXSIZE];
    memset(mem0, 0x5a, S);
    const size_t sizes[3] = { 0, 1, S };
    const int nsizes = (S == 1) ? 2 : 3;
    for (int dnull = 0; dnull < 2; ++dnull)
        for (int si = 0; si < nsizes; ++si) {
            const size_t size = sizes[si];
            for (size_t used = 0; used <= S + 1; ++used)
                for (size_t off = 0; off <= S + 2; ++off) {
                    if (!mc_case("setup set(data=%s,size=%zu,used=%zu,offset=%zu)",
                                 dnull ? "NULL" : "mem", size, used, off))
                        continue;
                    ByteBuffer b = { (unsigned char *)0x10, 77, 55, 33 };
                    const ByteBuffer before = b;
                    int rc = byte_buffer_set(&b, dnull ? NULL : mem, size, used, off);
                    mc_trans(1);
                    const bool valid = !dnull && size > 0 && used <= size && off <= used;
                    mc_log("rc=%d", rc);
                    if (valid) {
                        if (rc < 0)
                            mc_fail("C18/setup-accepts-valid", "refused rc=%d", rc);
                        else if (b.data != mem || b.size != size || b.used != used || b.offset != off)
                            mc_fail("C18/setup-accepts-valid", "fields not set");
                    } else if (rc >= 0) {
                        mc_fail("C18/setup-refuses", "accepted rc=%d", rc);
                    } else if (!refused_descriptor_ok(&b, &before, dnull ? NULL : mem, size)) {
                        mc_fail("C18/refusal-unchanged",
                                "refused set-up left a changed descriptor with marks out of order or describing memory that was not offered: data %s, size=%zu used=%zu offset=%zu",
                                b.data == NULL ? "NULL" : "set", b.size, b.used, b.offset);
                    } else if (memcmp(mem, mem0, S) != 0) {
                        mc_fail("C18/refusal-unchanged", "refused set-up changed buffer memory");
                    }
                    mc_end(true, valid ? "set-ok" : "set-refused");
                }
        }
    for (int which = 0; which < 2; ++which)
        for (int dnull = 0; dnull < 2; ++dnull)
            for (size_t size = 0; size <= S; size += S) {
                if (!mc_case("setup %s(data=%s,size=%zu)", which ? "space" : "use",
                             dnull ? "NULL" : "mem", size))
                    continue;
                ByteBuffer b = { (unsigned char *)0x10, 77, 55, 33 };
                const ByteBuffer before = b;
                int rc = which ? byte_buffer_space(&b, dnull ? NULL : mem, size)
                               : byte_buffer_use(&b, dnull ? NULL : mem, size);
                mc_trans(1);
                const bool valid = !dnull && size > 0;
                if (valid) {
                    if (rc < 0 || b.data != mem || b.size != size || b.offset != 0
                        || b.used != (which ? 0 : size))
                        mc_fail("C18/setup-accepts-valid", "%s: rc=%d used=%zu offset=%zu",
                                which ? "space" : "use", rc, b.used, b.offset);
                } else if (rc >= 0) {
                    mc_fail("C18/setup-refuses", "%s accepted rc=%d", which ? "space" : "use", rc);
                } else if (!refused_descriptor_ok(&b, &before, dnull ? NULL : mem, size)) {
                    mc_fail("C18/refusal-unchanged",
                            "refused set-up left a changed descriptor with marks out of order or describing memory that was not offered: data %s, size=%zu used=%zu offset=%zu",
                            b.data == NULL ? "NULL" : "set", b.size, b.used, b.offset);
                } else if (memcmp(mem, mem0, S) != 0) {
                    mc_fail("C18/refusal-unchanged", "refused set-up changed buffer memory");
                }
                mc_end(true, valid ? "set-ok" : "set-refused");
            }
    free(mem);
}

/* ---- R: set-up on a descriptor with a history ------------------------------ */

/* values offered as used / offset for a target of t octets */
#define MAXVAL 48
static int
make_vals(size_t *v, size_t t)
{
    int n = 0;
    for (size_t x = 0; x <= t + 2; ++x)
        v[n++] = x;
    const size_t farv[] = {
        255, 256, 257, 65535, 65536, 65537,
        ((size_t)1 << 31) - 1, (size_t)1 << 31,
        ((size_t)1 << 32) - 1, (size_t)1 << 32, ((size_t)1 << 32) + 1,
        ((size_t)1 << 32) + t, ((size_t)1 << 32) + t + 1,
        (size_t)1 << 63, SIZE_MAX - 1, SIZE_MAX
    };
    for (size_t i = 0; i < sizeof farv / sizeof farv[0]; ++i) {
        bool dup = false;
        for (int j = 0; j < n; ++j)
            dup |= (v[j] == farv[i]);
        if (!dup)
            v[n++] = farv[i];
    }
    return n;
}

static const char *
valname(char *buf, size_t n, size_t v)
{
    snprintf(buf, n, v > 0xffff ? "%#zx" : "%zu", v);
    return buf;
}

/* One set-up call on a descriptor with history `pk` (0 zeroed, 1 0xff-filled,
 * 2 byte_buffer_null, 3 in use: (pu, po) over its own S octets).
 * which: 0 set, 1 use, 2 space.  dk: 0 NULL, 1 another block, 2 the block the
 * descriptor already describes. */
static void
reuse_case(size_t S, int pk, size_t pu, size_t po, int which, int dk, size_t t, size_t used, size_t off)
{
    unsigned char *pmem = mc_exact(S);
    for (size_t i = 0; i < S; ++i)
        pmem[i] = (unsigned char)(0x31 + i);
    const size_t tn = t ? t : 1;
    unsigned char *tmem = mc_exact(tn);
    for (size_t i = 0; i < tn; ++i)
        tmem[i] = (unsigned char)(0x71 + i);
    unsigned char p0[MAXSIZE + 2], t0[MAXSIZE + 2];

    ByteBuffer b;
    if (pk == 0) {
        memset(&b, 0, sizeof b);
    } else if (pk == 1) {
        memset(&b, 0xff, sizeof b);
    } else if (pk == 2) {
        memset(&b, 0xff, sizeof b);
        byte_buffer_null(&b);
    } else if (byte_buffer_set(&b, pmem, S, pu, po) < 0) {
        mc_fail("C18/setup-accepts-valid", "byte_buffer_set refused a valid state");
        free(pmem);
        free(tmem);
        mc_end(false, "setup-refused");
        return;
    }
    /* images as the descriptor's own set-up left them */
    memcpy(p0, pmem, S);
    memcpy(t0, tmem, tn);
    const ByteBuffer before = b;
    unsigned char *data = (dk == 0) ? NULL : (dk == 1) ? tmem : pmem;
    const size_t dn = (dk == 1) ? tn : S; /* octets behind data */
    if (which != 0) {
        used = (which == 1) ? t : 0;
        off = 0;
    }
    int rc = (which == 0)   ? byte_buffer_set(&b, data, t, used, off)
             : (which == 1) ? byte_buffer_use(&b, data, t)
                            : byte_buffer_space(&b, data, t);
    mc_trans(1);
    mc_log("rc=%d data=%s size=%zu used=%zu offset=%zu", rc,
           b.data == NULL ? "NULL" : b.data == pmem ? "prior-block" : b.data == tmem ? "other-block" : "?",
           b.size, b.used, b.offset);
    const bool valid = data != NULL && t > 0 && used <= t && off <= used;
    if (!valid) {
        if (rc >= 0)
            mc_fail("C18/setup-refuses", "accepted rc=%d", rc);
        else if (!refused_descriptor_ok(&b, &before, data, t))
            mc_fail("C18/refusal-unchanged",
                    "refused set-up left a changed descriptor with marks out of order or describing memory that was not offered: data %s, size %zu -> %zu, used %zu -> %zu, offset %zu -> %zu",
                    b.data == before.data ? "same" : b.data == NULL ? "NULL" : "changed", before.size, b.size,
                    before.used, b.used, before.offset, b.offset);
        else if (memcmp(pmem, p0, S) != 0 || memcmp(tmem, t0, tn) != 0)
            mc_fail("C18/refusal-unchanged", "refused set-up changed buffer memory");
        mc_end(true, pk == 3 ? "reuse-set-refused" : "dirty-set-refused");
    } else {
        if (rc < 0)
            mc_fail("C18/setup-accepts-valid", "refused rc=%d", rc);
        else if (b.data != data || b.size != t || b.used != used || b.offset != off)
            mc_fail("C18/setup-accepts-valid", "fields not set: size=%zu used=%zu offset=%zu", b.size, b.used, b.offset);
        else if (memcmp(data, dk == 1 ? t0 : p0, used) != 0)
            /* the octets declared as already filled are the buffer's content */
            mc_fail("C18/setup-accepts-valid", "set-up changed the octets it was told are filled");
        else {
            /* differential: the re-used descriptor must behave like a fresh
             * one describing the same state -- every operation once */
            static struct op rops[MAXOPS];
            const int nrops = make_ops(rops, t);
            const ByteBuffer after = b;
            unsigned char img0[MAXSIZE + 2];
            memcpy(img0, data, t);
            for (int oi = 0; oi < nrops && !mc.cur_failed; ++oi) {
                ByteBuffer c = after;
                /* the descriptor is to describe t octets: give it exactly t */
                unsigned char *cm = mc_exact_copy(img0, t);
                c.data = cm;
                unsigned char m_img[MAXSIZE + 2];
                memcpy(m_img, img0, t);
                struct model m = { t, used, off, m_img };
                const char *oc;
                char on[64];
                mc_log("continue with %s", opname(&rops[oi], on, sizeof on));
                mc_trans(1);
                run_op(&c, cm, &m, &rops[oi], &oc);
                free(cm);
            }
        }
        (void)dn;
        mc_end(true, pk == 3 ? "reuse-set-ok" : "dirty-set-ok");
    }
    free(pmem);
    free(tmem);
}

static void
reuse_pass(size_t S)
{
    static const char *PK[] = { "zeroed", "ff-filled", "nulled", "in-use" };
    static const char *WH[] = { "set", "use", "space" };
    static const char *DK[] = { "NULL", "other-block", "same-block" };
    size_t tsz[4] = { 0, 1, S, S + 1 };
    int nt = 0;
    size_t ts[4];
    for (int i = 0; i < 4; ++i) {
        bool dup = false;
        for (int j = 0; j < nt; ++j)
            dup |= ts[j] == tsz[i];
        if (!dup)
            ts[nt++] = tsz[i];
    }
    for (int pk = 0; pk < 4; ++pk)
        for (size_t pu = 0; pu <= (pk == 3 ? S : 0); ++pu)
            for (size_t po = 0; po <= (pk == 3 ? pu : 0); ++po)
                for (int ti = 0; ti < nt; ++ti)
                    for (int dk = 0; dk < 3; ++dk) {
                        const size_t t = ts[ti];
                        /* "same block" only for a descriptor that has one, and
                         * only for sizes that block really has */
                        if (dk == 2 && (pk != 3 || t > S))
                            continue;
                        size_t vals[MAXVAL];
                        const int nv = make_vals(vals, t);
                        char ub[24], ob[24];
                        for (int ui = 0; ui < nv; ++ui)
                            for (int oi = 0; oi < nv; ++oi) {
                                if (!mc_case("reuse S=%zu prior=%s(used=%zu,off=%zu) set(data=%s,size=%zu,used=%s,offset=%s)",
                                             S, PK[pk], pu, po, DK[dk], t, valname(ub, sizeof ub, vals[ui]),
                                             valname(ob, sizeof ob, vals[oi])))
                                    continue;
                                reuse_case(S, pk, pu, po, 0, dk, t, vals[ui], vals[oi]);
                            }
                        for (int which = 1; which < 3; ++which) {
                            if (!mc_case("reuse S=%zu prior=%s(used=%zu,off=%zu) %s(data=%s,size=%zu)",
                                         S, PK[pk], pu, po, WH[which], DK[dk], t))
                                continue;
                            reuse_case(S, pk, pu, po, which, dk, t, 0, 0);
                        }
                    }
}

/* ---- X: buffer argument given as an expression with a side effect ----------- */

static void
expr_family(size_t maxS)
{
    static struct op ops[MAXOPS];
    for (size_t S = 1; S <= maxS; ++S) {
        const int nops = make_ops(ops, S);
        for (size_t used = 0; used <= S; ++used)
            for (size_t off = 0; off <= used; ++off)
                for (int oi = 0; oi < nops; ++oi) {
                    char on[64];
                    if (!mc_case("expr size=%zu state=(used=%zu,off=%zu,img=31 32 ..) op=%s called as op(next(&cursor), ...) "
                                 "with two more buffers of the same geometry behind the cursor",
                                 S, used, off, opname(&ops[oi], on, sizeof on)))
                        continue;
                    mc_trans(1);
                    unsigned char *mem[3];
                    unsigned char img[3][MAXSIZE];
                    ByteBuffer bb[3];
                    bool setok = true;
                    for (int k = 0; k < 3; ++k) {
                        for (size_t i = 0; i < S; ++i)
                            img[k][i] = (unsigned char)(0x31 + i + 0x40 * k);
                        mem[k] = mc_exact_copy(img[k], S);
                        memset(&bb[k], 0, sizeof bb[k]);
                        if (byte_buffer_set(&bb[k], mem[k], S, used, off) < 0
                            || memcmp(mem[k], img[k], used) != 0) {
                            mc_fail("C18/setup-accepts-valid", "byte_buffer_set refused a valid state or changed filled octets");
                            setok = false;
                        }
                        memcpy(img[k], mem[k], S); /* free room as set-up left it */
                    }
                    const char *outcome = "setup-refused";
                    if (setok) {
                        const ByteBuffer d1 = bb[1], d2 = bb[2];
                        struct model m = { S, used, off, img[0] };
                        xcur.seq[0] = &bb[0];
                        xcur.seq[1] = &bb[1];
                        xcur.seq[2] = &bb[2];
                        xcur.i = 0;
                        expr_mode = true;
                        const bool ok = run_op(&bb[0], mem[0], &m, &ops[oi], &outcome);
                        expr_mode = false;
                        mc_log("the argument expression was evaluated %d time(s)", xcur.i);
                        if (ok) {
                            for (int k = 1; k < 3; ++k) {
                                const ByteBuffer *d = (k == 1) ? &d1 : &d2;
                                if (bb[k].data != d->data || bb[k].size != d->size || bb[k].used != d->used
                                    || bb[k].offset != d->offset || memcmp(mem[k], img[k], S) != 0) {
                                    mc_fail("C18/outside-untouched",
                                            "the operation changed buffer %d behind the cursor (used %zu -> %zu, offset %zu -> %zu%s): "
                                            "its argument expression is evaluated more than once",
                                            k, d->used, bb[k].used, d->offset, bb[k].offset,
                                            memcmp(mem[k], img[k], S) != 0 ? ", memory changed" : "");
                                    break;
                                }
                            }
                        }
                    }
                    for (int k = 0; k < 3; ++k)
                        free(mem[k]);
                    mc_end(true, "expr-argument");
                    (void)outcome;
                }
    }
}

/* ---- J: operands that touch the buffer's memory --------------------------------
 * The source of an add / the destination of a consume lies in the same object
 * as the buffer's memory, directly in front of it or directly behind it (gap
 * 0 or 1 octet), never inside it: nothing overlaps, so the operation has to
 * do what the statement says.  One exact-size block [front | memory | back]. */

static void
adjacent_case(size_t S, size_t used, size_t off, int kind, size_t len, bool behind, size_t gap)
{
    const size_t P = MAXSIZE + 3; /* octets in front of and behind the memory */
    const size_t total = P + S + P;
    unsigned char *blk = mc_exact(total), *img = mc_exact(total);
    for (size_t i = 0; i < total; ++i)
        blk[i] = (unsigned char)(0x11 + i * 7);
    unsigned char *mem = blk + P;
    /* the operand: len octets at mem - gap - len, or at mem + S + gap */
    const size_t opos = behind ? P + S + gap : P - gap - len;
    unsigned char *operand = blk + opos;
    ByteBuffer b;
    memset(&b, 0, sizeof b);
    memcpy(img, blk, total);
    if (byte_buffer_set(&b, mem, S, used, off) < 0 || memcmp(mem, img + P, used) != 0) {
        mc_fail("C18/setup-accepts-valid", "byte_buffer_set refused a valid state or changed filled octets");
        free(blk);
        free(img);
        mc_end(false, "setup-refused");
        return;
    }
    memcpy(img, blk, total); /* free room as set-up left it */
    const size_t rest = used - off;
    size_t m_used = used, m_off = off;
    const char *outcome;
    mc_trans(1);
    if (kind == 0) {
        outcome = "adjacent-add";
        const int rc = byte_buffer_add(&b, operand, len);
        mc_log("add rc=%d", rc);
        memcpy(img + P + used, img + opos, len);
        m_used += len;
        if (rc < 0)
            mc_fail("C18/add-appends", "add of %zu octets with %zu free refused rc=%d (the source does not overlap the buffer)",
                    len, S - used, rc);
    } else if (kind == 1) {
        outcome = "adjacent-consume";
        const int rc = byte_buffer_consume(&b, operand, len);
        mc_log("consume rc=%d", rc);
        memcpy(img + opos, img + P + off, len);
        m_off += len;
        if (rc < 0)
            mc_fail("C18/consume-oldest", "consume(%zu) with %zu unread refused rc=%d (the destination does not overlap the buffer)",
                    len, rest, rc);
        else if (memcmp(operand, img + opos, len) != 0)
            mc_fail("C18/consume-oldest", "consume(%zu) did not return the oldest unread octets", len);
    } else {
        outcome = "adjacent-atmost";
        const size_t n = len < rest ? len : rest;
        const ssize_t rc = byte_buffer_consume_at_most(&b, operand, len);
        mc_log("consume_at_most rc=%zd", rc);
        memcpy(img + opos, img + P + off, n);
        /* the destination's octets behind the n delivered ones (within the stated length) are open */
        memcpy(img + opos + n, operand + n, len - n);
        m_off += n;
        if (rc != (ssize_t)n)
            mc_fail("C18/atmost-count", "consume_at_most(%zu) with %zu unread returned %zd, expected %zu (the destination does not overlap the buffer)",
                    len, rest, rc, n);
        else if (memcmp(operand, img + opos, n) != 0)
            mc_fail("C18/atmost-oldest", "consume_at_most(%zu) did not return the oldest unread octets", len);
    }
    mc_log("after: size=%zu used=%zu offset=%zu", b.size, b.used, b.offset);
    if (!mc.cur_failed) {
        if (b.data != mem || b.size != S)
            mc_fail("C18/geometry-unchanged", "data/size changed: size=%zu", b.size);
        else if (!(b.offset <= b.used && b.used <= b.size))
            mc_fail("C18/invariant", "offset=%zu used=%zu size=%zu", b.offset, b.used, b.size);
        else if (b.used != m_used || b.offset != m_off)
            mc_fail(kind == 0 ? "C18/add-appends" : "C18/consume-advances", "fields used=%zu offset=%zu, model used=%zu offset=%zu",
                    b.used, b.offset, m_used, m_off);
        else if (memcmp(mem, img + P, m_used) != 0)
            mc_fail(kind == 0 ? "C18/add-appends" : "C18/consume-advances", "filled region differs from the model's content");
        else if (memcmp(blk, img, P) != 0 || memcmp(blk + P + S, img + P + S, P) != 0)
            mc_fail("C18/outside-untouched", "octets outside the buffer's %zu octets (and outside the destination) changed", S);
    }
    free(blk);
    free(img);
    mc_end(true, outcome);
}

static void
adjacent_family(size_t maxS)
{
    static const char *KN[] = { "add", "consume", "consume_at_most" };
    for (size_t S = 1; S <= maxS; ++S)
        for (size_t used = 0; used <= S; ++used)
            for (size_t off = 0; off <= used; ++off)
                for (int kind = 0; kind < 3; ++kind) {
                    const size_t avail = S - used, rest = used - off;
                    /* lengths the operation has to serve (at-most: one more than is there, too) */
                    const size_t maxlen = (kind == 0) ? avail : (kind == 1) ? rest : (rest ? rest + 1 : 0);
                    for (size_t len = 1; len <= maxlen; ++len)
                        for (int behind = 0; behind < 2; ++behind)
                            for (size_t gap = 0; gap < 2; ++gap) {
                                if (!mc_case("adjacent size=%zu state=(used=%zu,off=%zu) op=%s(%zu) %s = the %zu octets %s the buffer's memory (gap %zu) in one object",
                                             S, used, off, KN[kind], len, kind == 0 ? "source" : "destination", len,
                                             behind ? "directly behind" : "directly in front of", gap))
                                    continue;
                                adjacent_case(S, used, off, kind, len, behind != 0, gap);
                            }
                }
}

/* ---- B1: sizes straddling 2^8 / 2^16 on exact heap blocks ------------------- */

static int
uniq_push(size_t *v, int n, int max, size_t x)
{
    for (int i = 0; i < n; ++i)
        if (v[i] == x)
            return n;
    if (n < max)
        v[n++] = x;
    return n;
}

static unsigned char
pos_pattern(size_t i)
{
    return (unsigned char)(i * 131 + (i >> 8) * 17 + (i >> 16) * 29 + (i >> 31) * 101 + (i >> 32) * 57 + 5);
}

/* field values (used / offset) for a buffer of S octets whose size is next to
 * the boundary bd */
static int
geometry_vals(size_t *v, int max, size_t S, size_t bd)
{
    int n = 0;
    const size_t cand[] = { 0, 1, 2, bd / 2, bd - 2, bd - 1, bd, bd + 1, S - 2, S - 1, S };
    for (size_t i = 0; i < sizeof cand / sizeof cand[0]; ++i)
        if (cand[i] <= S)
            n = uniq_push(v, n, max, cand[i]);
    return n;
}

static void
medium_family(void)
{
    static const size_t bq[] = { 256, 65536 };
    static const size_t bt[] = { 128, 256, 32768, 65536 };
    const size_t *bds = mc_thorough() ? bt : bq;
    const int nb = mc_thorough() ? 4 : 2;
    bool said_unsupported = false;
    for (int bi = 0; bi < nb; ++bi)
        for (int ds = -1; ds <= 1; ++ds) {
            const size_t bd = bds[bi], S = bd + (size_t)ds;
            size_t gv[16];
            const int ng = geometry_vals(gv, 16, S, bd);
            for (int ui = 0; ui < ng; ++ui)
                for (int oi = 0; oi < ng; ++oi) {
                    const size_t u0 = gv[ui], o0 = gv[oi];
                    if (o0 > u0)
                        continue;
                    const size_t avail = S - u0, rest = u0 - o0;
                    struct op ops[96];
                    int no = 0;
                    size_t lens[32];
                    int nl = 0;
                    /* add: small, around the free room, around the boundary, far */
                    const size_t al[] = { 0, 1, 2, 3, avail - 1, avail, avail + 1, avail + 2, bd - 1, bd, bd + 1,
                                          S, S + 1, avail + bd, avail + 2 * bd,
                                          (size_t)1 << 32, ((size_t)1 << 32) + avail, (size_t)1 << 63,
                                          SIZE_MAX - u0, SIZE_MAX - u0 + 1, SIZE_MAX - u0 + 2, SIZE_MAX };
                    for (size_t i = 0; i < sizeof al / sizeof al[0]; ++i)
                        if (!(avail == 0 && al[i] == avail - 1))
                            nl = uniq_push(lens, nl, 32, al[i]);
                    for (int i = 0; i < nl; ++i)
                        ops[no++] = (struct op){ OP_ADD, lens[i], 3 };
                    nl = 0;
                    /* consume: the destination has the stated length, so only lengths
                     * that can be backed (the values from 2^63 on are dropped again below) */
                    const size_t cl[] = { 0, 1, 2, 3, rest - 1, rest, rest + 1, rest + 2, bd - 1, bd, bd + 1,
                                          S, S + 1, rest + bd, rest + 2 * bd,
                                          ((size_t)1 << 31) - 1, (size_t)1 << 31, ((size_t)1 << 31) + rest,
                                          ((size_t)1 << 32) - 1, (size_t)1 << 32, ((size_t)1 << 32) + rest, (size_t)1 << 63,
                                          SIZE_MAX - o0, SIZE_MAX - o0 + 1, SIZE_MAX - o0 + 2, SIZE_MAX };
                    for (size_t i = 0; i < sizeof cl / sizeof cl[0]; ++i)
                        if (!(rest == 0 && cl[i] == rest - 1) && farlen_backable(cl[i]))
                            nl = uniq_push(lens, nl, 32, cl[i]);
                    for (int i = 0; i < nl; ++i)
                        ops[no++] = (struct op){ OP_CONSUME, lens[i], 0 };
                    for (int i = 0; i < nl; ++i)
                        ops[no++] = (struct op){ OP_ATMOST, lens[i], 0 };
                    ops[no++] = (struct op){ OP_REWIND, 0, 0 };
                    ops[no++] = (struct op){ OP_RESET, 0, 0 };
                    ops[no++] = (struct op){ OP_CLEAR, 0, 0 };
                    ops[no++] = (struct op){ OP_REPEAT, 0, 0 };
                    for (int k = 0; k < no; ++k) {
                        char on[64];
                        if (!mc_case("medium size=%zu state=(used=%zu,off=%zu,img=positional) op=%s",
                                     S, u0, o0, opname(&ops[k], on, sizeof on)))
                            continue;
                        mc_trans(1);
                        unsigned char *mem = mc_exact(S);
                        unsigned char *img = malloc(S);
                        for (size_t i = 0; i < S; ++i)
                            mem[i] = img[i] = pos_pattern(i);
                        ByteBuffer b;
                        memset(&b, 0, sizeof b);
                        const char *outcome = "setup-refused";
                        const ByteBuffer zeroed = b;
                        if (byte_buffer_set(&b, mem, S, u0, o0) < 0) {
                            /* the statement promises no range of sizes (as in the large-scope
                             * family): an implementation whose size type or policy does not
                             * take buffers of this size refuses them here -- a cap of this
                             * family, not a violation.  What the refusal leaves behind is
                             * checked like any refused set-up.  (Refusals at the small-scope
                             * sizes stay violations: parts A, R, X, J.) */
                            if (!refused_descriptor_ok(&b, &zeroed, mem, S))
                                mc_fail("C18/refusal-unchanged",
                                        "refused set-up left a changed descriptor with marks out of order or describing memory that was not offered: size=%zu used=%zu offset=%zu",
                                        b.size, b.used, b.offset);
                            else if (memcmp(mem, img, S) != 0)
                                mc_fail("C18/refusal-unchanged", "refused set-up changed buffer memory");
                            if (!said_unsupported)
                                mc_cap("byte_buffer_set refuses valid states of medium-scope buffers (sizes 127..65537): cases of the refused sizes not decided");
                            said_unsupported = true;
                            free(mem);
                            free(img);
                            mc_end(false, "medium-unsupported");
                            continue;
                        } else if (memcmp(mem, img, u0) != 0) {
                            mc_fail("C18/setup-accepts-valid", "set-up changed the octets it was told are filled");
                        } else {
                            memcpy(img, mem, S); /* free room as set-up left it */
                            struct model m = { S, u0, o0, img };
                            run_op(&b, mem, &m, &ops[k], &outcome);
                        }
                        free(mem);
                        free(img);
                        /* class names of this family carry their own prefix */
                        const char *oc = "medium-other";
                        if (!strcmp(outcome, "add-ok")) oc = "medium-add-ok";
                        else if (!strcmp(outcome, "add-refused") || !strcmp(outcome, "far-add-refused")) oc = "medium-add-refused";
                        else if (!strcmp(outcome, "consume-ok")) oc = "medium-consume-ok";
                        else if (!strcmp(outcome, "consume-refused") || !strcmp(outcome, "far-consume-refused")) oc = "medium-consume-refused";
                        else if (!strncmp(outcome, "atmost", 6) || !strncmp(outcome, "far-atmost", 10)) oc = "medium-atmost";
                        else if (!strncmp(outcome, "rewind", 6)) oc = "medium-rewind";
                        mc_end(true, oc);
                    }
                }
        }
}

/* ---- B2: sizes straddling 2^31 / 2^32 on a lazily backed mapping ------------ */

static const size_t HOTW[] = { 0, (size_t)1 << 16, (size_t)1 << 31, (size_t)1 << 32 };
#define NHOT (sizeof HOTW / sizeof HOTW[0])
#define HOT_BEFORE 32
#define HOT_AFTER 64

static size_t hot_lo(size_t w) { return w >= HOT_BEFORE ? w - HOT_BEFORE : 0; }
static size_t hot_hi(size_t w) { return w + HOT_AFTER; }

static void
hot_write(void)
{
    for (size_t h = 0; h < NHOT; ++h)
        for (size_t p = hot_lo(HOTW[h]); p < hot_hi(HOTW[h]); ++p)
            bigmap[p] = pos_pattern(p);
}

static bool
big_get(void)
{
    if (bigmap != NULL)
        return true;
    void *p = mmap(NULL, BIGLEN, PROT_NONE, MAP_PRIVATE | MAP_ANONYMOUS | MAP_NORESERVE, -1, 0);
    if (p == MAP_FAILED)
        return false;
    const size_t pg = (size_t)sysconf(_SC_PAGESIZE);
    for (size_t h = 0; h < NHOT; ++h) {
        const size_t lo = hot_lo(HOTW[h]) / pg * pg, hi = (hot_hi(HOTW[h]) + pg - 1) / pg * pg;
        if (mprotect((unsigned char *)p + lo, hi - lo, PROT_READ | PROT_WRITE) != 0) {
            munmap(p, BIGLEN);
            return false;
        }
    }
    bigmap = p;
    guard_install();
    hot_write();
    return true;
}

/* the windows as they were when the operation under test started */
static unsigned char hot0[NHOT][HOT_BEFORE + HOT_AFTER];

static void
hot_snap(void)
{
    for (size_t h = 0; h < NHOT; ++h)
        for (size_t p = hot_lo(HOTW[h]); p < hot_hi(HOTW[h]); ++p)
            hot0[h][p - hot_lo(HOTW[h])] = bigmap[p];
}

static unsigned char
hot_was(size_t p)
{
    for (size_t h = 0; h < NHOT; ++h)
        if (p >= hot_lo(HOTW[h]) && p < hot_hi(HOTW[h]))
            return hot0[h][p - hot_lo(HOTW[h])];
    return 0; /* not reached: callers stay inside the windows */
}

/* set-up must keep the octets it is told are filled: [0, used) */
static bool
hot_filled_kept(size_t used, size_t *badpos)
{
    for (size_t h = 0; h < NHOT; ++h)
        for (size_t p = hot_lo(HOTW[h]); p < hot_hi(HOTW[h]) && p < used; ++p)
            if (bigmap[p] != pos_pattern(p)) {
                *badpos = p;
                return false;
            }
    return true;
}

enum bigexp { BX_SAME, BX_ADD, BX_REWIND };

/* Octets in the windows: inside [0, det) they are the buffer's content and
 * must be what the model says; inside [det, S) they are free room the
 * statement says nothing about (unless the call was refused: then the whole
 * image is unchanged); from S on they are not the buffer's. */
static bool
hot_check(size_t S, size_t det, bool refused, enum bigexp bx, size_t a, size_t n, const unsigned char *src,
          size_t *badpos)
{
    for (size_t h = 0; h < NHOT; ++h)
        for (size_t p = hot_lo(HOTW[h]); p < hot_hi(HOTW[h]); ++p) {
            unsigned char want = hot_was(p);
            if (p < S && p >= det && !refused)
                continue;
            if (p < det && !refused) {
                if (bx == BX_ADD && p >= a && p < a + n)
                    want = src[p - a];
                else if (bx == BX_REWIND)
                    want = hot_was(p + a);
            }
            if (bigmap[p] != want) {
                *badpos = p;
                return false;
            }
        }
    return true;
}

static void
big_family(void)
{
    const size_t B31 = (size_t)1 << 31, B32 = (size_t)1 << 32;
    const size_t sizes[] = { B31 - 1, B31, B31 + 1, B32 - 1, B32, B32 + 1, B32 + 7 };
    bool mapped = true, said_undecided = false, said_unsupported = false;
    for (size_t si = 0; si < sizeof sizes / sizeof sizes[0]; ++si) {
        const size_t S = sizes[si];
        size_t gv[32];
        int ng = 0;
        for (size_t h = 0; h < NHOT; ++h)
            for (int d = -2; d <= 2; ++d) {
                if (HOTW[h] == 0 && d < 0)
                    continue;
                const size_t v = HOTW[h] + (size_t)d;
                if (v <= S)
                    ng = uniq_push(gv, ng, 32, v);
            }
        ng = uniq_push(gv, ng, 32, S - 1);
        ng = uniq_push(gv, ng, 32, S);
        for (int ui = 0; ui < ng; ++ui)
            for (int oi = 0; oi < ng; ++oi) {
                const size_t u0 = gv[ui], o0 = gv[oi];
                if (o0 > u0)
                    continue;
                const size_t avail = S - u0, rest = u0 - o0;
                struct op ops[96];
                int no = 0;
                size_t lens[32];
                int nl = 0;
                const size_t al[] = { 0, 1, 3, 8, avail, avail + 1, avail + 2, avail + B32, B32, B32 + 1, B32 + avail,
                                      2 * B32, (size_t)1 << 63, SIZE_MAX - u0, SIZE_MAX - u0 + 1, SIZE_MAX - u0 + 2,
                                      SIZE_MAX };
                for (size_t i = 0; i < sizeof al / sizeof al[0]; ++i)
                    /* an add that fits is run only when it moves <= 8 octets */
                    if (al[i] > avail || al[i] <= 8)
                        nl = uniq_push(lens, nl, 32, al[i]);
                for (int i = 0; i < nl; ++i)
                    ops[no++] = (struct op){ OP_ADD, lens[i], 3 };
                nl = 0;
                const size_t cl[] = { 0, 1, 3, 8, rest, rest + 1, rest + 2, rest + B32, B32, B32 + 1, B32 + rest,
                                      2 * B32, (size_t)1 << 63, SIZE_MAX - o0, SIZE_MAX - o0 + 1, SIZE_MAX - o0 + 2,
                                      SIZE_MAX };
                for (size_t i = 0; i < sizeof cl / sizeof cl[0]; ++i)
                    /* the destination has the stated length: only lengths that can be backed */
                    if ((cl[i] > rest || cl[i] <= 8) && farlen_backable(cl[i]))
                        nl = uniq_push(lens, nl, 32, cl[i]);
                for (int i = 0; i < nl; ++i)
                    ops[no++] = (struct op){ OP_CONSUME, lens[i], 0 };
                for (int i = 0; i < nl; ++i)
                    /* at-most delivers min(len, rest): run when that is <= 8 */
                    if ((lens[i] < rest ? lens[i] : rest) <= 8)
                        ops[no++] = (struct op){ OP_ATMOST, lens[i], 0 };
                if (rest <= 8 && (o0 > 0 || u0 <= 8))
                    ops[no++] = (struct op){ OP_REWIND, 0, 0 };
                ops[no++] = (struct op){ OP_RESET, 0, 0 };
                ops[no++] = (struct op){ OP_REPEAT, 0, 0 };
                for (int k = 0; k < no; ++k) {
                    char on[64];
                    const struct op *o = &ops[k];
                    if (!mc_case("big size=%#zx state=(used=%#zx,off=%#zx,img=positional) op=%s",
                                 S, u0, o0, opname(o, on, sizeof on)))
                        continue;
                    if (!big_get()) {
                        if (mapped)
                            mc_cap("4 GiB mapping not available: large-scope family skipped");
                        mapped = false;
                        mc_end(false, "big-unmapped");
                        continue;
                    }
                    mc_trans(1);
                    ByteBuffer b;
                    memset(&b, 0, sizeof b);
                    bool undecided = false;
                    int src0 = 0;
                    const ByteBuffer zeroed = b;
                    BIG_GUARDED(src0 = byte_buffer_set(&b, bigmap, S, u0, o0), undecided);
                    if (!undecided && src0 < 0) {
                        /* the statement promises no range of sizes: an implementation
                         * that does not take buffers of 2^31 octets and more refuses
                         * them here -- a cap of this family, not a violation */
                        size_t badp = 0;
                        if (!refused_descriptor_ok(&b, &zeroed, bigmap, S))
                            mc_fail("C18/refusal-unchanged",
                                    "refused set-up left a changed descriptor with marks out of order or describing memory that was not offered: size=%#zx used=%#zx offset=%#zx",
                                    b.size, b.used, b.offset);
                        else if (!hot_filled_kept(S, &badp))
                            mc_fail("C18/refusal-unchanged", "refused set-up changed octet %#zx", badp);
                        if (!said_unsupported)
                            mc_cap("byte_buffer_set refuses buffers of 2^31 octets and more: large-scope cases not decided");
                        said_unsupported = true;
                        hot_write();
                        mc_end(false, "big-unsupported");
                        continue;
                    }
                    size_t kept = 0;
                    if (!undecided && !hot_filled_kept(u0, &kept)) {
                        mc_fail("C18/setup-accepts-valid", "set-up changed octet %#zx it was told is filled", kept);
                        hot_write();
                        mc_end(false, "setup-refused");
                        continue;
                    }
                    if (!undecided)
                        hot_snap();
                    size_t m_used = u0, m_off = o0;
                    bool refused = false;
                    enum bigexp bx = BX_SAME;
                    size_t xa = 0, xn = 0;
                    unsigned char src[8];
                    unsigned char *xsrc = NULL, *xdst = NULL;
                    bool xmapped = false;
                    const char *outcome = "?";
                    switch (undecided ? OP_CLEAR : o->k) {
                    case OP_ADD: {
                        const bool fits = o->len <= avail;
                        xsrc = mc_exact(8);
                        fill_src(xsrc, 8, 3);
                        memcpy(src, xsrc, 8);
                        int rc = 0;
                        BIG_GUARDED(rc = byte_buffer_add(&b, xsrc, o->len), undecided);
                        if (undecided)
                            break;
                        mc_log("add rc=%d", rc);
                        if (fits) {
                            outcome = "big-add-ok";
                            m_used += o->len;
                            bx = BX_ADD, xa = u0, xn = o->len;
                            if (rc < 0)
                                mc_fail("C18/add-appends", "add of %zu octets with %#zx free refused rc=%d", o->len, avail, rc);
                        } else {
                            outcome = "big-add-refused";
                            refused = true;
                            if (rc >= 0)
                                mc_fail("C18/add-refuses-overflow", "add of %#zx octets with %#zx free returned %d", o->len, avail, rc);
                        }
                        break;
                    }
                    case OP_CONSUME: {
                        xdst = dst_get(o->len, o->len <= rest ? o->len : 0, &xmapped);
                        if (xdst == NULL) {
                            undecided = true;
                            break;
                        }
                        int rc = 0;
                        BIG_GUARDED(rc = byte_buffer_consume(&b, xdst, o->len), undecided);
                        if (undecided)
                            break;
                        mc_log("consume rc=%d", rc);
                        if (o->len <= rest) {
                            outcome = "big-consume-ok";
                            m_off += o->len;
                            if (rc < 0)
                                mc_fail("C18/consume-oldest", "consume(%zu) with %#zx unread refused rc=%d", o->len, rest, rc);
                            else
                                for (size_t i = 0; i < o->len; ++i)
                                    if (xdst[i] != pos_pattern(o0 + i)) {
                                        mc_fail("C18/consume-oldest", "consume(%zu) did not return the oldest unread octets (octet %zu)", o->len, i);
                                        break;
                                    }
                        } else {
                            outcome = "big-consume-refused";
                            refused = true;
                            if (rc >= 0)
                                mc_fail("C18/consume-refuses-underrun", "consume(%#zx) with %#zx unread returned %d", o->len, rest, rc);
                        }
                        break;
                    }
                    case OP_ATMOST: {
                        const size_t n = o->len < rest ? o->len : rest;
                        xdst = dst_get(o->len, n, &xmapped);
                        if (xdst == NULL) {
                            undecided = true;
                            break;
                        }
                        ssize_t rc = 0;
                        BIG_GUARDED(rc = byte_buffer_consume_at_most(&b, xdst, o->len), undecided);
                        if (undecided)
                            break;
                        mc_log("consume_at_most rc=%zd", rc);
                        if (rest == 0) {
                            outcome = "big-atmost-empty";
                            refused = true;
                            if (o->len == 0 ? rc > 0 : rc >= 0)
                                mc_fail("C18/atmost-fails-only-on-empty", "consume_at_most(%#zx) on an empty buffer returned %zd", o->len, rc);
                        } else {
                            outcome = "big-atmost";
                            m_off += n;
                            if (rc != (ssize_t)n)
                                mc_fail("C18/atmost-count", "consume_at_most(%#zx) with %#zx unread returned %zd, expected %zu", o->len, rest, rc, n);
                            else
                                for (size_t i = 0; i < n; ++i)
                                    if (xdst[i] != pos_pattern(o0 + i)) {
                                        mc_fail("C18/atmost-oldest", "consume_at_most(%#zx) did not return the oldest unread octets (octet %zu)", o->len, i);
                                        break;
                                    }
                        }
                        break;
                    }
                    case OP_REWIND: {
                        int rc = 0;
                        BIG_GUARDED(rc = byte_buffer_rewind(&b), undecided);
                        if (undecided)
                            break;
                        mc_log("rewind rc=%d", rc);
                        outcome = "big-rewind";
                        m_used = rest;
                        m_off = 0;
                        if (o0 > 0)
                            bx = BX_REWIND, xa = o0;
                        if (rc < 0)
                            mc_fail("C18/rewind-keeps-unread", "rewind on a valid buffer returned %d", rc);
                        break;
                    }
                    case OP_RESET:
                        BIG_GUARDED(byte_buffer_reset(&b), undecided);
                        m_used = m_off = 0;
                        outcome = "big-reset";
                        break;
                    case OP_REPEAT:
                        BIG_GUARDED(byte_buffer_repeat(&b), undecided);
                        m_off = 0;
                        outcome = "big-repeat";
                        break;
                    default: break;
                    }
                    if (undecided) {
                        /* the implementation touched pages of the mapping outside the
                         * windows: nothing the statement forbids, but not decidable here */
                        mc_log("undecided: the call touched the mapping outside the compared windows");
                        if (!said_undecided)
                            mc_cap("large-scope cases abandoned: the implementation touches memory in proportion to the buffer size");
                        said_undecided = true;
                        free(xsrc);
                        if (xdst != NULL)
                            dst_put(xdst, xmapped);
                        hot_write();
                        mc_end(false, "big-undecided");
                        continue;
                    }
                    mc_log("after: size=%#zx used=%#zx offset=%#zx", b.size, b.used, b.offset);
                    size_t bad = 0;
                    const char *cl_ = refused                 ? "C18/refusal-unchanged"
                                      : (o->k == OP_REWIND)   ? "C18/rewind-keeps-unread"
                                      : (o->k == OP_ADD)      ? "C18/add-appends"
                                      : (o->k == OP_CONSUME || o->k == OP_ATMOST) ? "C18/consume-advances"
                                                              : "C18/reset-clear-repeat";
                    if (b.data != bigmap || b.size != S)
                        mc_fail("C18/geometry-unchanged", "data/size changed: size=%#zx", b.size);
                    else if (!(b.offset <= b.used && b.used <= b.size))
                        mc_fail("C18/invariant", "offset=%#zx used=%#zx size=%#zx", b.offset, b.used, b.size);
                    else if (b.used != m_used || b.offset != m_off)
                        mc_fail(cl_, "fields used=%#zx offset=%#zx, model used=%#zx offset=%#zx", b.used, b.offset, m_used, m_off);
                    else if (!hot_check(S, m_used, refused, bx, xa, xn, src, &bad)) {
                        if (bad >= S)
                            mc_fail("C18/outside-untouched", "octet %#zx behind the buffer's %#zx octets changed", bad, S);
                        else
                            mc_fail(cl_, "octet %#zx of the buffer differs from the model's content", bad);
                    }
                    /* byte_buffer_avail / byte_buffer_rest do not occur in the statement: observed, not demanded */
                    mc_log("avail=%#zx rest=%#zx (model: %#zx %#zx)", byte_buffer_avail(&b), byte_buffer_rest(&b),
                           S - m_used, m_used - m_off);
                    free(xsrc);
                    if (xdst != NULL)
                        dst_put(xdst, xmapped);
                    hot_write();
                    mc_end(true, outcome);
                }
            }
    }
    /* set-up matrix with sizes of that scale: the mapping really has them */
    size_t sv[40];
    int nsv = 0;
    const size_t cand[] = { 0, 1, 2, 255, 256, 65535, 65536, 65537, B31 - 1, B31, B31 + 1,
                            B32 - 1, B32, B32 + 1, B32 + 2, B32 + 7, B32 + 8, 2 * B32, (size_t)1 << 63,
                            SIZE_MAX - 1, SIZE_MAX };
    for (size_t i = 0; i < sizeof cand / sizeof cand[0]; ++i)
        nsv = uniq_push(sv, nsv, 40, cand[i]);
    for (int pk = 0; pk < 2; ++pk)
        for (int si = 0; si < nsv; ++si) {
            const size_t S = sv[si];
            if (S > B32 + 8)
                continue; /* not a size the mapping has */
            for (int dnull = 0; dnull < 2; ++dnull)
                for (int ui = 0; ui < nsv; ++ui)
                    for (int oi = 0; oi < nsv; ++oi) {
                        const size_t used = sv[ui], off = sv[oi];
                        if (!mc_case("big setup prior=%s set(data=%s,size=%#zx,used=%#zx,offset=%#zx)",
                                     pk ? "in-use" : "zeroed", dnull ? "NULL" : "map", S, used, off))
                            continue;
                        if (!big_get()) {
                            if (mapped)
                                mc_cap("4 GiB mapping not available: large-scope family skipped");
                            mapped = false;
                            mc_end(false, "big-unmapped");
                            continue;
                        }
                        mc_trans(1);
                        unsigned char *pmem = mc_exact(4);
                        memset(pmem, 0x42, 4);
                        ByteBuffer b;
                        memset(&b, 0, sizeof b);
                        if (pk && byte_buffer_set(&b, pmem, 4, 3, 1) < 0)
                            mc_fail("C18/setup-accepts-valid", "byte_buffer_set refused a valid state");
                        const ByteBuffer before = b;
                        unsigned char *data = dnull ? NULL : bigmap;
                        int rc = 0;
                        bool undecided = false;
                        hot_snap();
                        BIG_GUARDED(rc = byte_buffer_set(&b, data, S, used, off), undecided);
                        if (undecided) {
                            mc_log("undecided: the call touched the mapping outside the compared windows");
                            if (!said_undecided)
                                mc_cap("large-scope cases abandoned: the implementation touches memory in proportion to the buffer size");
                            said_undecided = true;
                            free(pmem);
                            hot_write();
                            mc_end(false, "big-undecided");
                            continue;
                        }
                        mc_log("rc=%d size=%#zx used=%#zx offset=%#zx", rc, b.size, b.used, b.offset);
                        const bool valid = !dnull && S > 0 && used <= S && off <= used;
                        size_t bad = 0;
                        bool unsupported = false;
                        if (valid && rc < 0 && S > MAXSIZE) {
                            /* no range of sizes is promised (only the small-scope sizes are
                             * the quantifier's): a cap, not a violation; what a refused
                             * set-up may leave behind is demanded all the same */
                            unsupported = true;
                            if (!refused_descriptor_ok(&b, &before, data, S))
                                mc_fail("C18/refusal-unchanged",
                                        "refused set-up left a changed descriptor with marks out of order or describing memory that was not offered: size=%#zx used=%#zx offset=%#zx",
                                        b.size, b.used, b.offset);
                            else if (!hot_check(S, 0, true, BX_SAME, 0, 0, NULL, &bad))
                                mc_fail("C18/refusal-unchanged", "refused set-up changed octet %#zx", bad);
                            if (!said_unsupported)
                                mc_cap(S >= B31 - 1 ? "byte_buffer_set refuses buffers of 2^31 octets and more: large-scope cases not decided"
                                                    : "byte_buffer_set refuses buffers of 255 octets and more: medium- and large-scope cases not decided");
                            said_unsupported = true;
                        } else if (valid) {
                            if (rc < 0)
                                mc_fail("C18/setup-accepts-valid", "refused rc=%d", rc);
                            else if (b.data != data || b.size != S || b.used != used || b.offset != off)
                                mc_fail("C18/setup-accepts-valid", "fields not set: size=%#zx used=%#zx offset=%#zx", b.size, b.used, b.offset);
                            else if (!hot_check(S, used, false, BX_SAME, 0, 0, NULL, &bad))
                                mc_fail("C18/setup-accepts-valid", "set-up changed octet %#zx", bad);
                        } else if (rc >= 0) {
                            mc_fail("C18/setup-refuses", "accepted rc=%d", rc);
                        } else if (!refused_descriptor_ok(&b, &before, data, S)) {
                            mc_fail("C18/refusal-unchanged",
                                    "refused set-up left a changed descriptor with marks out of order or describing memory that was not offered: data %s, size %#zx -> %#zx, used %#zx -> %#zx, offset %#zx -> %#zx",
                                    b.data == before.data ? "same" : b.data == NULL ? "NULL" : "changed", before.size,
                                    b.size, before.used, b.used, before.offset, b.offset);
                        } else if (!hot_check(S, 0, true, BX_SAME, 0, 0, NULL, &bad)) {
                            mc_fail("C18/refusal-unchanged", "refused set-up changed octet %#zx", bad);
                        }
                        free(pmem);
                        hot_write();
                        mc_end(!unsupported, unsupported ? "big-unsupported" : valid ? "big-set-ok" : "big-set-refused");
                    }
        }
}

/* ---- B3: operations that really move 2^32 octets and more ----------------------
 * A buffer of more than 4 GiB whose every octet is real memory: the address
 * range is tiled with shared mappings of one small memory file (TILE octets),
 * so that octet v of the range is octet v mod TILE of the file.  Three such
 * ranges over three files: the buffer's memory, a source, a destination.  The
 * file of each is also mapped once on its own (`phys`): that is where the
 * harness fills and compares.
 *
 * Because positions that are congruent mod TILE share their octet, only
 * operations whose result is the same whichever of the aliased positions is
 * written last are run:
 *   clear                   every octet of the file is zero afterwards;
 *   add(n), used == 0       file octet p of the buffer == source pattern at p
 *                           (source octet i is pattern(i mod TILE));
 *   consume(n) / at-most    destination file octet p == buffer file octet
 *                           (offset + p) mod TILE, offset a small value;
 * with n = size = 2^32 + r, r < TILE: an implementation that narrows the
 * count to 32 bits moves r octets and leaves the rest of the file as it was
 * pre-filled.  Rewind at this scale is not run (a memmove between aliased
 * positions has no order-independent result). */
#include <sys/syscall.h>
#include <time.h>

#define TILE ((size_t)1 << 22)
#define HUGE_SPAN (((size_t)1 << 32) + 2 * TILE)
struct tiled {
    unsigned char *virt; /* HUGE_SPAN octets of address space */
    unsigned char *phys; /* the TILE octets behind them */
};
static struct tiled huge_buf, huge_src, huge_dst;
static int huge_state; /* 0 untried, 1 ready, -1 not available */

static bool
tiled_make(struct tiled *t)
{
    int fd = -1;
#ifdef SYS_memfd_create
    fd = (int)syscall(SYS_memfd_create, "c18-tile", 0u);
#endif
    if (fd < 0) {
        char name[] = "/tmp/ufw-c18-tile-XXXXXX";
        fd = mkstemp(name);
        if (fd >= 0)
            unlink(name);
    }
    if (fd < 0 || ftruncate(fd, (off_t)TILE) != 0) {
        if (fd >= 0)
            close(fd);
        return false;
    }
    void *ph = mmap(NULL, TILE, PROT_READ | PROT_WRITE, MAP_SHARED, fd, 0);
    void *v = mmap(NULL, HUGE_SPAN, PROT_NONE, MAP_PRIVATE | MAP_ANONYMOUS | MAP_NORESERVE, -1, 0);
    bool ok = ph != MAP_FAILED && v != MAP_FAILED;
    for (size_t o = 0; ok && o < HUGE_SPAN; o += TILE)
        ok = mmap((unsigned char *)v + o, TILE, PROT_READ | PROT_WRITE, MAP_SHARED | MAP_FIXED, fd, 0) != MAP_FAILED;
    close(fd);
    if (!ok) {
        if (ph != MAP_FAILED)
            munmap(ph, TILE);
        if (v != MAP_FAILED)
            munmap(v, HUGE_SPAN);
        return false;
    }
    t->virt = v;
    t->phys = ph;
    return true;
}

static bool
huge_get(void)
{
    if (huge_state == 0)
        huge_state = (tiled_make(&huge_buf) && tiled_make(&huge_src) && tiled_make(&huge_dst)) ? 1 : -1;
    return huge_state > 0;
}

static unsigned char
tile_pattern(size_t i, unsigned salt)
{
    /* never 0x00 (clear) and never 0xee (pre-fill of what is to be written) */
    unsigned char c = (unsigned char)(i * 37 + (i >> 8) * 11 + (i >> 16) * 3 + salt);
    return (c == 0x00 || c == 0xee) ? (unsigned char)(0x55 + salt) : c;
}

/* How long would one operation over 2^32 octets take with this implementation,
 * now, on this machine?  add, clear and consume of 64 MiB on the tiled ranges,
 * the slowest of them extrapolated.  The statement sets no speed: a correct
 * implementation that moves octets one by one must not be reported as a hang,
 * so a family that does not fit its time budget is a cap.  The clock only
 * decides whether the family is run; it is never printed.  Not consulted in a
 * replay (the replayed case did run to its end in the run that recorded it). */
#define HUGE_PROBE ((size_t)64 << 20)
static double
huge_probe_seconds(void)
{
    static double est = -1.0;
    if (est >= 0.0)
        return est;
    est = 0.0;
    ByteBuffer b;
    memset(&b, 0, sizeof b);
    if (byte_buffer_set(&b, huge_buf.virt, HUGE_PROBE, 0, 0) < 0)
        return est;
    /* three rounds, the fastest of each operation counts (the first round also
     * pays for the page tables of the tiled ranges; other processes disturb) */
    double best[3] = { 1e9, 1e9, 1e9 };
    for (int round = 0; round < 3; ++round)
        for (int k = 0; k < 3; ++k) {
            struct timespec t0, t1;
            clock_gettime(CLOCK_MONOTONIC, &t0);
            if (k == 0)
                (void)byte_buffer_add(&b, huge_src.virt, HUGE_PROBE);
            else if (k == 1)
                (void)byte_buffer_consume(&b, huge_dst.virt, HUGE_PROBE);
            else
                byte_buffer_clear(&b);
            clock_gettime(CLOCK_MONOTONIC, &t1);
            const double dt = (double)(t1.tv_sec - t0.tv_sec) + 1e-9 * (double)(t1.tv_nsec - t0.tv_nsec);
            if (dt < best[k])
                best[k] = dt;
        }
    for (int k = 0; k < 3; ++k) {
        const double e = best[k] * (double)(((size_t)1 << 32) + 2 * TILE) / (double)HUGE_PROBE;
        if (e > est)
            est = e;
    }
    return est;
}

static void
huge_family(void)
{
    static const char *KN[] = { "clear", "add", "consume", "consume_at_most", "consume_at_most(+1)" };
    const size_t B32 = (size_t)1 << 32;
    const size_t rq[] = { 4097 }, rt[] = { 1, 4097, TILE - 1 };
    const size_t *rs = mc_thorough() ? rt : rq;
    const int nr = mc_thorough() ? 3 : 1;
    bool said = false, said_unsupported = false, said_slow = false;
    for (int ri = 0; ri < nr; ++ri)
        for (int kind = 0; kind < 5; ++kind) {
            const size_t S = B32 + rs[ri];
            /* state the operation starts from */
            const size_t u0 = (kind == 1) ? 0 : S;
            const size_t o0 = (kind == 0) ? S / 2 : (kind == 1) ? 0 : 3;
            const size_t rest = u0 - o0;
            const size_t n = (kind == 1) ? S : (kind == 4) ? rest + 1 : rest;
            if (!mc_case("huge size=%#zx (real memory: %zu-octet file tiled over the range) state=(used=%#zx,off=%#zx) op=%s(%#zx)",
                         S, (size_t)TILE, u0, o0, KN[kind], kind == 0 ? (size_t)0 : n))
                continue;
            if (!huge_get()) {
                if (!said)
                    mc_cap("three tiled 4 GiB ranges not available: operations moving >= 2^32 octets skipped");
                said = true;
                mc_end(false, "huge-unmapped");
                continue;
            }
            /* one call over 4 GiB: the case states its own budget; an implementation
             * too slow for it even so is not run at this scale (cap, never `hang`) */
            mc_budget(240);
            if (mc.only < 0 && huge_probe_seconds() > 30.0) {
                if (!said_slow)
                    mc_cap("huge-slow: at the measured throughput (64 MiB probe) one operation over 2^32 octets takes more than 30 s: operations moving >= 2^32 octets not run");
                said_slow = true;
                mc_end(false, "huge-slow");
                continue;
            }
            mc_trans(1);
            for (size_t i = 0; i < TILE; ++i) {
                huge_buf.phys[i] = (kind == 1) ? 0xee : tile_pattern(i, 1);
                huge_src.phys[i] = tile_pattern(i, 2);
                huge_dst.phys[i] = 0xee;
            }
            ByteBuffer b;
            memset(&b, 0, sizeof b);
            const ByteBuffer zeroed = b;
            if (byte_buffer_set(&b, huge_buf.virt, S, u0, o0) < 0) {
                /* no range of sizes is promised: cap, as in the large-scope family */
                bool same = true;
                for (size_t i = 0; i < TILE && same; ++i)
                    same = huge_buf.phys[i] == ((kind == 1) ? 0xee : tile_pattern(i, 1));
                if (!refused_descriptor_ok(&b, &zeroed, huge_buf.virt, S))
                    mc_fail("C18/refusal-unchanged",
                            "refused set-up left a changed descriptor with marks out of order or describing memory that was not offered: size=%#zx used=%#zx offset=%#zx",
                            b.size, b.used, b.offset);
                else if (!same)
                    mc_fail("C18/refusal-unchanged", "refused set-up changed buffer memory");
                if (!said_unsupported)
                    mc_cap("byte_buffer_set refuses buffers of more than 2^32 octets: operations moving >= 2^32 octets not decided");
                said_unsupported = true;
                mc_end(false, "huge-unsupported");
                continue;
            }
            {
                size_t bad = TILE;
                for (size_t i = 0; i < TILE && bad == TILE; ++i)
                    if (kind != 1 && huge_buf.phys[i] != tile_pattern(i, 1))
                        bad = i;
                if (bad != TILE) {
                    mc_fail("C18/setup-accepts-valid", "set-up changed octet %zu (mod %zu) it was told is filled", bad, (size_t)TILE);
                    mc_end(false, "setup-refused");
                    continue;
                }
            }
            size_t m_used = u0, m_off = o0, bad = TILE;
            const char *cl = "C18/reset-clear-repeat", *outcome = "huge-clear";
            if (kind == 0) {
                byte_buffer_clear(&b);
                m_used = m_off = 0;
                for (size_t i = 0; i < TILE && bad == TILE; ++i)
                    if (huge_buf.phys[i] != 0)
                        bad = i;
                if (bad != TILE)
                    mc_fail("C18/clear-zeroes", "after clear of %#zx octets the octets congruent %zu mod %zu are %02x", S, bad,
                            (size_t)TILE, huge_buf.phys[bad]);
            } else if (kind == 1) {
                cl = "C18/add-appends";
                outcome = "huge-add";
                const int rc = byte_buffer_add(&b, huge_src.virt, n);
                mc_log("add rc=%d", rc);
                m_used = n;
                if (rc < 0)
                    mc_fail(cl, "add of %#zx octets with %#zx free refused rc=%d", n, S, rc);
                for (size_t i = 0; i < TILE && bad == TILE && !mc.cur_failed; ++i)
                    if (huge_buf.phys[i] != tile_pattern(i, 2))
                        bad = i;
                if (bad != TILE)
                    mc_fail(cl, "after add of %#zx octets the buffer's octets congruent %zu mod %zu are %02x, source has %02x",
                            n, bad, (size_t)TILE, huge_buf.phys[bad], tile_pattern(bad, 2));
            } else {
                cl = "C18/consume-advances";
                outcome = kind == 2 ? "huge-consume" : "huge-atmost";
                ssize_t rc;
                if (kind == 2)
                    rc = byte_buffer_consume(&b, huge_dst.virt, n);
                else
                    rc = byte_buffer_consume_at_most(&b, huge_dst.virt, n);
                mc_log("rc=%zd", rc);
                m_off = u0;
                if (kind == 2 && rc < 0)
                    mc_fail("C18/consume-oldest", "consume(%#zx) with %#zx unread refused rc=%zd", n, rest, rc);
                else if (kind != 2 && rc != (ssize_t)rest)
                    mc_fail("C18/atmost-count", "consume_at_most(%#zx) with %#zx unread returned %zd", n, rest, rc);
                for (size_t i = 0; i < TILE && bad == TILE && !mc.cur_failed; ++i) {
                    /* the destination's octets behind the delivered ones, within the
                     * stated length, are open (padding): their residues are not compared */
                    bool open_ = false;
                    for (size_t j = rest; j < n; ++j)
                        open_ |= (j % TILE) == i;
                    if (!open_ && huge_dst.phys[i] != tile_pattern((o0 + i) % TILE, 1))
                        bad = i;
                }
                if (bad != TILE)
                    mc_fail(kind == 2 ? "C18/consume-oldest" : "C18/atmost-oldest",
                            "after consuming %#zx octets the destination's octets congruent %zu mod %zu are %02x, the buffer held %02x there",
                            rest, bad, (size_t)TILE, huge_dst.phys[bad], tile_pattern((o0 + bad) % TILE, 1));
                /* a consume does not write the buffer */
                for (size_t i = 0; i < TILE && bad == TILE && !mc.cur_failed; ++i)
                    if (huge_buf.phys[i] != tile_pattern(i, 1))
                        bad = i;
                if (bad != TILE && !mc.cur_failed)
                    mc_fail(cl, "consume changed the buffer's content (octets congruent %zu mod %zu)", bad, (size_t)TILE);
            }
            mc_log("after: size=%#zx used=%#zx offset=%#zx", b.size, b.used, b.offset);
            if (!mc.cur_failed) {
                if (b.data != huge_buf.virt || b.size != S)
                    mc_fail("C18/geometry-unchanged", "data/size changed: size=%#zx", b.size);
                else if (!(b.offset <= b.used && b.used <= b.size))
                    mc_fail("C18/invariant", "offset=%#zx used=%#zx size=%#zx", b.offset, b.used, b.size);
                else if (b.used != m_used || b.offset != m_off)
                    mc_fail(cl, "fields used=%#zx offset=%#zx, model used=%#zx offset=%#zx", b.used, b.offset, m_used, m_off);
            }
            mc_end(true, outcome);
        }
}

/* ---- L: buffers, sources and destinations at every alignment -------------------
 * "No operation touches memory outside the buffer's size octets": a buffer is a
 * window of octets wherever the caller puts it -- at an odd offset inside a
 * frame as well as on a word boundary.  The families above take their memory
 * from malloc (16-aligned).  Here the buffer's memory starts at every address
 * residue a = 0..7 (mod 8) and ends where its heap block ends (ASan red zone
 * directly behind it, a canary octets in front of it); the source of an add and
 * the destination of a consume / at-most are placed the same way at every
 * residue, so an implementation that moves or wipes word-wise has every
 * combination of leading and trailing partial words to get right.  Sizes reach
 * past two words on either side (1..24, thorough 1..40). */
static unsigned char *
al_get(size_t a, size_t n, unsigned char **blk)
{
    *blk = mc_exact(a + n);
    if (a + n > 0 && ((uintptr_t)*blk % 8u) != 0)
        mc_broken("malloc returned a block that is not 8-aligned");
    memset(*blk, 0xf5, a);
    return *blk + a;
}

static bool
al_front_kept(const unsigned char *blk, size_t a)
{
    for (size_t i = 0; i < a; ++i)
        if (blk[i] != 0xf5)
            return false;
    return true;
}

enum { AL_CLEAR, AL_REWIND, AL_RESET, AL_REPEAT, AL_ADD, AL_CONSUME, AL_ATMOST, AL_NKIND };
static const char *const AL_NAME[AL_NKIND] = { "clear", "rewind", "reset", "repeat", "add", "consume", "consume_at_most" };

static void
aligned_case(size_t S, size_t a, size_t used, size_t off, int kind, size_t oa)
{
    unsigned char *blk, *oblk = NULL, *operand = NULL;
    unsigned char *mem = al_get(a, S, &blk);
    unsigned char old[64];
    for (size_t i = 0; i < S; ++i)
        mem[i] = old[i] = (unsigned char)(0x41 + (i * 7) % 61);
    const size_t rest = used - off;
    const size_t len = kind == AL_ADD ? S - used : kind == AL_CONSUME ? rest : kind == AL_ATMOST ? rest + 1 : 0;
    unsigned char src0[64];
    if (kind >= AL_ADD) {
        operand = al_get(oa, len, &oblk);
        for (size_t i = 0; i < len; ++i)
            operand[i] = src0[i] = (unsigned char)(kind == AL_ADD ? 0x91 + (i * 5) % 53 : 0xee);
    }
    ByteBuffer b;
    memset(&b, 0, sizeof b);
    const char *outcome = "setup-refused";
    static bool said_unsupported;
    if (byte_buffer_set(&b, mem, S, used, off) < 0) {
        if (S <= MAXSIZE) {
            mc_fail("C18/setup-accepts-valid", "byte_buffer_set refused a valid state of %zu octets at an address = %zu (mod 8)", S, a);
        } else {
            /* no range of sizes is promised (as in the medium-scope family) */
            if (!said_unsupported)
                mc_cap("byte_buffer_set refuses valid states of buffers of 9..40 octets: aligned-family cases of the refused sizes not decided");
            said_unsupported = true;
            outcome = "aligned-unsupported";
        }
        goto out;
    }
    if (memcmp(mem, old, used) != 0) {
        mc_fail("C18/setup-accepts-valid", "set-up changed the octets it was told are filled");
        goto out;
    }
    memcpy(old, mem, S); /* free room as set-up left it */
    size_t m_used = used, m_off = off;
    const char *cl = "C18/reset-clear-repeat";
    mc_trans(1);
    switch (kind) {
    case AL_CLEAR:
        byte_buffer_clear(&b);
        m_used = m_off = 0;
        outcome = "aligned-clear";
        for (size_t i = 0; i < S; ++i)
            if (mem[i] != 0) {
                mc_fail("C18/clear-zeroes", "octet %zu is %02x after clear", i, mem[i]);
                break;
            }
        break;
    case AL_REWIND: {
        cl = "C18/rewind-keeps-unread";
        outcome = "aligned-rewind";
        const int rc = byte_buffer_rewind(&b);
        if (rc < 0)
            mc_fail(cl, "rewind on a valid buffer returned %d", rc);
        memmove(old, old + off, rest);
        m_used = rest;
        m_off = 0;
        break;
    }
    case AL_RESET:
        byte_buffer_reset(&b);
        m_used = m_off = 0;
        outcome = "aligned-reset-repeat";
        break;
    case AL_REPEAT:
        byte_buffer_repeat(&b);
        m_off = 0;
        outcome = "aligned-reset-repeat";
        break;
    case AL_ADD: {
        cl = "C18/add-appends";
        outcome = "aligned-add";
        const int rc = byte_buffer_add(&b, operand, len);
        mc_log("add rc=%d", rc);
        if (rc < 0)
            mc_fail(cl, "add of %zu octets with %zu free refused rc=%d", len, S - used, rc);
        else if (memcmp(operand, src0, len) != 0)
            mc_fail(cl, "add changed its source");
        memcpy(old + used, src0, len);
        m_used = used + len;
        break;
    }
    case AL_CONSUME: {
        cl = "C18/consume-advances";
        outcome = "aligned-consume";
        const int rc = byte_buffer_consume(&b, operand, len);
        mc_log("consume rc=%d", rc);
        mc_log_hex("out", operand, len);
        if (rc < 0)
            mc_fail("C18/consume-oldest", "consume(%zu) with %zu unread refused rc=%d", len, rest, rc);
        else if (memcmp(operand, old + off, len) != 0)
            mc_fail("C18/consume-oldest", "consume(%zu) did not return the oldest unread octets", len);
        m_off = off + len;
        break;
    }
    case AL_ATMOST: {
        cl = "C18/consume-advances";
        outcome = "aligned-atmost";
        const ssize_t rc = byte_buffer_consume_at_most(&b, operand, len);
        mc_log("consume_at_most rc=%zd", rc);
        mc_log_hex("out", operand, len);
        if (rc != (ssize_t)rest)
            mc_fail("C18/atmost-count", "consume_at_most(%zu) with %zu unread returned %zd", len, rest, rc);
        else if (memcmp(operand, old + off, rest) != 0)
            mc_fail("C18/atmost-oldest", "consume_at_most(%zu) did not return the oldest unread octets", len);
        m_off = used;
        break;
    }
    }
    mc_log("after: size=%zu used=%zu offset=%zu", b.size, b.used, b.offset);
    mc_log_hex("image", mem, S);
    if (mc.cur_failed) {
        /* first failing sentence is recorded */
    } else if (b.data != mem || b.size != S) {
        mc_fail("C18/geometry-unchanged", "data/size changed: size=%zu", b.size);
    } else if (!(b.offset <= b.used && b.used <= b.size)) {
        mc_fail("C18/invariant", "offset=%zu used=%zu size=%zu", b.offset, b.used, b.size);
    } else if (b.used != m_used || b.offset != m_off) {
        mc_fail(cl, "fields used=%zu offset=%zu, model used=%zu offset=%zu", b.used, b.offset, m_used, m_off);
    } else if (memcmp(mem, old, m_used) != 0) {
        mc_fail(cl, "filled region differs from the model's content");
    } else if (!al_front_kept(blk, a) || (oblk != NULL && !al_front_kept(oblk, oa))) {
        mc_fail("C18/memory-outside-untouched", "octets directly in front of the %s were changed",
                al_front_kept(blk, a) ? "operand" : "buffer's memory");
    }
out:
    free(blk);
    free(oblk);
    mc_end(kind != AL_RESET && kind != AL_REPEAT, outcome);
}

static void
aligned_family(void)
{
    const size_t maxS = mc_thorough() ? 40 : 24;
    for (size_t S = 1; S <= maxS; ++S)
        for (size_t a = 0; a < 8; ++a) {
            size_t uv[5], nu = 0;
            const size_t ucand[5] = { 0, 1, S / 2, S - 1, S };
            for (int i = 0; i < 5; ++i)
                nu = (size_t)uniq_push(uv, (int)nu, 5, ucand[i]);
            for (size_t ui = 0; ui < nu; ++ui) {
                const size_t used = uv[ui];
                size_t ov[5], no = 0;
                const size_t ocand[5] = { 0, 1, used / 2, used ? used - 1 : 0, used };
                for (int i = 0; i < 5; ++i)
                    if (ocand[i] <= used)
                        no = (size_t)uniq_push(ov, (int)no, 5, ocand[i]);
                for (size_t oi = 0; oi < no; ++oi)
                    for (int kind = 0; kind < AL_NKIND; ++kind)
                        for (size_t oa = 0; oa < (kind >= AL_ADD ? 8u : 1u); ++oa) {
                            const size_t off = ov[oi];
                            if (kind == AL_ATMOST && used == off)
                                continue; /* nothing unread: decided in the search */
                            char od[96];
                            od[0] = 0;
                            if (kind >= AL_ADD)
                                snprintf(od, sizeof od, "(%zu) operand at address = %zu (mod 8), ending at its block's end",
                                         kind == AL_ADD ? S - used : kind == AL_CONSUME ? used - off : used - off + 1, oa);
                            if (!mc_case("aligned size=%zu buffer at address = %zu (mod 8), ending at its block's end; state=(used=%zu,off=%zu) op=%s%s",
                                         S, a, used, off, AL_NAME[kind], od))
                                continue;
                            aligned_case(S, a, used, off, kind, oa);
                        }
            }
        }
}

int
main(int argc, char **argv)
{
    mc_init(argc, argv);
    const size_t maxsize = mc_thorough() ? 8 : 5;
    for (size_t size = 1; size <= maxsize; ++size) {
        /* one partition per buffer size: the searches are independent */
        if (!mc_partition((int)(maxsize - size), (int64_t)size))
            continue;
        explore(size);
        setup_matrix(size);
    }
    /* the families below are odometers: sharded case by case */
    mc_partition(-1, 100);
    for (size_t size = 1; size <= maxsize; ++size)
        reuse_pass(size);
    mc_partition(-1, 103);
    expr_family(mc_thorough() ? 5 : 3);
    mc_partition(-1, 104);
    adjacent_family(maxsize);
    mc_partition(-1, 101);
    medium_family();
    mc_partition(-1, 102);
    big_family();
    mc_partition(-1, 105);
    huge_family();
    mc_partition(-1, 106);
    aligned_family();
    char bound[2200];
    snprintf(bound, sizeof bound,
             "sizes 1..%zu, octets {00,a1,b2}, all operations, operand lengths 0..size+1, to fixpoint; "
             "far operands 2^{8,15,16,31,32,3*2^32,48,63,64}-/+(size+1) in every reached state (consume/at-most: up to 3*2^32, into a destination of that length); "
             "set-up matrix (small and far used/offset) on zeroed/ff/nulled/in-use(every used,offset) descriptors + every operation once after an accepted re-set-up; "
             "sizes 2^{%s}-1..+1 on exact heap blocks x boundary (used,offset) x boundary/far operands, all operations; "
             "sizes 2^31-1..2^31+1, 2^32-1..2^32+1, 2^32+7 on a lazily backed mapping x boundary (used,offset) x operations moving <= 8 octets or refusing (no clear), set-up matrix at that scale; "
             "sizes 2^32+{%s} of real memory (a 4 MiB file tiled over the range; source and destination likewise) x {clear, add(size) into the empty buffer, consume(rest), consume_at_most(rest), consume_at_most(rest+1) from the full buffer at offset 3}; "
             "every operation with a side-effect buffer argument in every (used,offset) of sizes 1..%d; operands touching the buffer's memory (front/behind, gap 0/1) for every state and length of sizes 1..%zu; "
             "sizes 1..%d at address residues 0..7 (mod 8) ending at the block end x boundary (used,offset) x {clear, rewind, reset, repeat, add(all that fits), consume(unread), consume_at_most(unread+1)} x operand residues 0..7",
             maxsize, mc_thorough() ? "7,8,15,16" : "8,16", mc_thorough() ? "1,4097,2^22-1" : "4097", mc_thorough() ? 5 : 3, maxsize,
             mc_thorough() ? 40 : 24);
    mc_finish(true, bound);
    return 0;
}
