/*
 * C08 -- every emitted frame is spec-conformant and round-trips through the
 * library's own receiver.
 *
 * Space: every emit entry point x transport x attached memory width x request
 * type being answered x address x sequence x size x payload content; plus
 * 65537 consecutive requests on one session.  Oracle: (1) sink octets equal
 * the reference encoder's output for the same semantic fields, (2) a second
 * RegP receiving those octets reports no error and the same fields, (3)
 * sequence numbers increase by one modulo 2^16.
 *
 * The session's sequence counter is never written or read by the harness (its
 * representation is the library's business): a request case runs on one
 * instance that has first emitted N requests (N from the sequence set, so
 * that the interesting numbers are reached from a new session), the number a
 * request carries is taken from the emitted frame, and every emission must
 * carry its predecessor's number plus one.  Of a meta message the document
 * says that only the meta field is used: its WORD-SIZE-16 bit, sequence and
 * address are taken from the emitted frame.
 */
#include "mc.h"
#include "regp_ref.h"

enum emitter {
    E_REQ_READ8, E_REQ_READ16, E_REQ_WRITE8, E_REQ_WRITE16, E_ACK_PAYLOAD, E_ACK_EMPTY,
    E_EWORDSIZE, E_EPAYLOADCRC, E_EPAYLOADSIZE, E_ERXOVERFLOW, E_ETXOVERFLOW, E_EBUSY,
    E_EUNMAPPED, E_EACCESS, E_ERANGE, E_EINVALID, E_EIO, E_META_ENC, E_META_CRC, E_COUNT
};
static const char *ENAME[E_COUNT] = {
    "req_read8", "req_read16", "req_write8", "req_write16", "resp_ack(payload)", "resp_ack(empty)",
    "resp_ewordsize", "resp_epayloadcrc", "resp_epayloadsize", "resp_erxoverflow", "resp_etxoverflow", "resp_ebusy",
    "resp_eunmapped", "resp_eaccess", "resp_erange", "resp_einvalid", "resp_eio", "resp_meta(EHEADERENC)", "resp_meta(EHEADERCRC)"
};
static const int ECODE[E_COUNT] = { 0, 0, 0, 0, 0, 0, 1, 2, 3, 4, 5, 6, 7, 8, 9, 10, 11, 1, 2 };

static const uint32_t ADDRS[] = { 0, 1, 0x64, 0xffff, 0x10000, 0xffffffffu, 0xc0dbdcddu };
static const uint16_t SEQS[] = { 0, 1, 0xc0db, 0xffff };

static struct drv A, B; /* emitter side, receiver side */

static void
fill(unsigned char *p, size_t n, int content)
{
    static const unsigned char alt[2] = { 0xdc, 0xdd };
    for (size_t i = 0; i < n; ++i)
        p[i] = content == 0 ? (unsigned char)(i + 1) : content == 1 ? 0xc0 : content == 2 ? 0xdb : alt[i & 1];
}

static bool
emits_with_size(int e)
{
    return e <= E_ACK_PAYLOAD;
}

/* request numbering on the emitting instance A */
static bool g_have_prev;
static uint16_t g_prev_seq;

/* sequence number carried by the one frame in A.out; -1 if it cannot be read */
static long
emitted_seq(bool tcp)
{
    static unsigned char scratch[DRV_WIRE];
    struct rr_frames fr;
    if (rr_unframe(tcp, A.out, A.outlen, scratch, &fr) != 1 || fr.len[0] < 12)
        return -1;
    return ((long)scratch[fr.off[0] + 2] << 8) | scratch[fr.off[0] + 3];
}

/* record a request's number and compare it with its predecessor's */
static bool
follows(long es, const char *who)
{
    if (es < 0)
        return true; /* reported elsewhere */
    if (g_have_prev && (uint16_t)es != (uint16_t)(g_prev_seq + 1)) {
        mc_fail("C08/sequence-increments", "%s carries sequence number %ld, the previous request of the session carried %u", who, es, g_prev_seq);
        return false;
    }
    g_have_prev = true;
    g_prev_seq = (uint16_t)es;
    return true;
}

/* a new emitting instance that has already sent `before` requests */
static bool
new_session(bool tcp, bool m16, unsigned before)
{
    drv_init(&A, tcp, m16, 4096, false);
    g_have_prev = false;
    for (unsigned i = 0; i < before; ++i) {
        A.outlen = 0;
        const int rc = (i & 1) ? regp_req_read8(&A.p, i, 1) : regp_req_read16(&A.p, i, 1);
        mc_trans(1);
        if (rc < 0) {
            mc_fail("C08/emit-succeeds", "request %u of the session returned %d", i, rc);
            return false;
        }
        if (!follows(emitted_seq(tcp), "a read request"))
            return false;
    }
    return true;
}

/* one emission; returns false after a recorded failure.  fresh: on a new
 * instance (responses, meta); otherwise on the session set up by new_session */
static bool
one(int e, bool tcp, bool m16, int anstype, uint32_t addr, uint16_t seq, size_t n, int content, uint32_t value, bool fresh)
{
    if (fresh)
        drv_init(&A, tcp, m16, 4096, false);
    A.outlen = 0;
    RPFrame req;
    memset(&req, 0, sizeof req);
    req.header.type = anstype ? RP_FRAME_WRITE_REQUEST : RP_FRAME_READ_REQUEST;
    req.header.sequence = seq;
    req.header.address = addr;
    req.header.blocksize = 3;
    req.header.options = m16 ? RP_OPT_WORD_SIZE_16 : 0;
    /* payload memory: exact-size heap block */
    const bool w16 = (e == E_REQ_WRITE16) || (e == E_ACK_PAYLOAD && m16);
    const size_t plen = (e == E_REQ_WRITE8 || e == E_REQ_WRITE16 || e == E_ACK_PAYLOAD) ? n * (w16 ? 2u : 1u) : 0;
    unsigned char *pl = mc_exact(plen);
    fill(pl, plen, content);
    int rc = 0;
    struct rframe want;
    memset(&want, 0, sizeof want);
    want.seq = seq;
    want.addr = addr;
    unsigned char p32[4] = { (unsigned char)(value >> 24), (unsigned char)(value >> 16), (unsigned char)(value >> 8), (unsigned char)value };
    switch (e) {
    case E_REQ_READ8: rc = regp_req_read8(&A.p, addr, n); want.type = RT_READ_REQ; want.bsize = (uint32_t)n; break;
    case E_REQ_READ16: rc = regp_req_read16(&A.p, addr, n); want.type = RT_READ_REQ; want.bsize = (uint32_t)n; want.options = RO_W16; break;
    case E_REQ_WRITE8: rc = regp_req_write8(&A.p, addr, n, pl); want.type = RT_WRITE_REQ; want.bsize = (uint32_t)n; want.payload = pl; want.plen = plen; break;
    case E_REQ_WRITE16: rc = regp_req_write16(&A.p, addr, n, (const uint16_t *)(const void *)pl); want.type = RT_WRITE_REQ; want.bsize = (uint32_t)n; want.options = RO_W16; want.payload = pl; want.plen = plen; break;
    case E_ACK_PAYLOAD: rc = regp_resp_ack(&A.p, &req, n ? pl : NULL, n); want.type = anstype ? RT_WRITE_RESP : RT_READ_RESP; want.bsize = (uint32_t)n; want.options = m16 ? RO_W16 : 0; want.payload = pl; want.plen = plen; break;
    case E_ACK_EMPTY: rc = regp_resp_ack(&A.p, &req, NULL, 0); want.type = anstype ? RT_WRITE_RESP : RT_READ_RESP; want.options = m16 ? RO_W16 : 0; break;
    case E_EWORDSIZE: rc = regp_resp_ewordsize(&A.p, &req); break;
    case E_EPAYLOADCRC: rc = regp_resp_epayloadcrc(&A.p, &req); break;
    case E_EPAYLOADSIZE: rc = regp_resp_epayloadsize(&A.p, &req); break;
    case E_ERXOVERFLOW: rc = regp_resp_erxoverflow(&A.p, &req, value); break;
    case E_ETXOVERFLOW: rc = regp_resp_etxoverflow(&A.p, &req, value); break;
    case E_EBUSY: rc = regp_resp_ebusy(&A.p, &req); break;
    case E_EUNMAPPED: rc = regp_resp_eunmapped(&A.p, &req, value); break;
    case E_EACCESS: rc = regp_resp_eaccess(&A.p, &req, value); break;
    case E_ERANGE: rc = regp_resp_erange(&A.p, &req, value); break;
    case E_EINVALID: rc = regp_resp_einvalid(&A.p, &req, value); break;
    case E_EIO: rc = regp_resp_eio(&A.p, &req); break;
    case E_META_ENC: rc = regp_resp_meta(&A.p, RP_META_EHEADERENC); break;
    case E_META_CRC: rc = regp_resp_meta(&A.p, RP_META_EHEADERCRC); break;
    }
    mc_trans(1);
    if (e >= E_EWORDSIZE && e <= E_EIO) {
        want.type = anstype ? RT_WRITE_RESP : RT_READ_RESP;
        want.meta = (unsigned)ECODE[e];
        if (e == E_ERXOVERFLOW || e == E_ETXOVERFLOW || (e >= E_EUNMAPPED && e <= E_EINVALID)) {
            want.bsize = 4;
            want.payload = p32;
            want.plen = 4;
        }
    } else if (e >= E_META_ENC) {
        want.type = RT_META;
        want.meta = (unsigned)ECODE[e];
        want.seq = 0;
        want.addr = 0;
    }
    if (!tcp) {
        want.options |= RO_HDCRC;
        if (want.plen)
            want.options |= RO_PLCRC;
    }
    bool ok = true;
    unsigned char raw[RR_MAXFRAME], wire[2 * RR_MAXFRAME + 16], scratch[DRV_WIRE];
    mc_log("%s rc=%d emitted %zu octets", ENAME[e], rc, A.outlen);
    mc_log_hex("wire", A.out, A.outlen);
    if (rc < 0) {
        mc_fail("C08/emit-succeeds", "%s returned %d", ENAME[e], rc);
        ok = false;
    }
    /* (1) wire octets vs reference.  The WORD-SIZE-16 bit of payload-less
     * error responses is not fixed by the document: take it from the frame. */
    if (ok) {
        struct rr_frames fr;
        if (rr_unframe(tcp, A.out, A.outlen, scratch, &fr) != 1) {
            mc_fail("C08/one-well-framed-frame", "%s: the emitted octets are not exactly one %s frame", ENAME[e], tcp ? "length-prefixed" : "SLIP");
            ok = false;
        } else {
            if (e >= E_EWORDSIZE && e <= E_EIO && want.plen == 0 && fr.len[0] >= 2)
                want.options = (want.options & ~(unsigned)RO_W16) | (scratch[fr.off[0]] & RO_W16);
            if (e >= E_META_ENC && fr.len[0] >= 8) {
                /* "In META messages, only the meta field is used" */
                const unsigned char *m = scratch + fr.off[0];
                want.options = (want.options & ~(unsigned)RO_W16) | (m[0] & RO_W16);
                want.seq = (uint16_t)((m[2] << 8) | m[3]);
                want.addr = ((uint32_t)m[4] << 24) | ((uint32_t)m[5] << 16) | ((uint32_t)m[6] << 8) | m[7];
            }
            if (e <= E_REQ_WRITE16 && fr.len[0] >= 4) {
                /* the number is the session's; that it is the right one is clause (3) */
                const unsigned char *m = scratch + fr.off[0];
                want.seq = (uint16_t)((m[2] << 8) | m[3]);
            }
            const size_t rn = rr_build(raw, &want, false, false);
            const size_t wn = tcp ? rr_lenprefix(wire, raw, rn) : rr_slip(wire, raw, rn);
            if (wn != A.outlen || memcmp(wire, A.out, wn) != 0) {
                mc_fail("C08/wire-octets", "%s: emitted octets differ from the protocol document's encoding (%zu vs %zu octets)", ENAME[e], A.outlen, wn);
                mc_log_hex("reference", wire, wn);
                ok = false;
            }
        }
    }
    /* (3) session sequence */
    if (ok && e <= E_REQ_WRITE16)
        ok = follows(emitted_seq(tcp), ENAME[e]);
    /* (2) own receiver */
    if (ok) {
        drv_init(&B, tcp, m16, 4096, false);
        drv_feed(&B, A.out, A.outlen);
        RPMaybeFrame mf;
        memset(&mf, 0, sizeof mf);
        const int rrc = regp_recv(&B.p, &mf);
        mc_trans(1);
        mc_log("receiver: rc=%d error.id=%d frame=%s", rrc, mf.error.id, mf.frame ? "yes" : "NULL");
        if (rrc < 0 || mf.error.id != 0 || mf.frame == NULL) {
            mc_fail("C08/own-receiver-accepts", "%s: receiver rc=%d error.id=%d", ENAME[e], rrc, mf.error.id);
            ok = false;
        } else {
            const RPFrame *f = mf.frame;
            if ((unsigned)f->header.type != want.type || f->header.options != want.options || f->header.meta.raw != want.meta
                || f->header.sequence != want.seq || f->header.address != want.addr || f->header.blocksize != want.bsize) {
                mc_fail("C08/roundtrip-fields", "%s: received type=%d opt=%x meta=%u seq=%u addr=%x bsize=%u; sent type=%u opt=%x meta=%u seq=%u addr=%x bsize=%u",
                        ENAME[e], f->header.type, f->header.options, f->header.meta.raw, f->header.sequence, f->header.address, f->header.blocksize,
                        want.type, want.options, want.meta, want.seq, want.addr, want.bsize);
                ok = false;
            } else if (f->payload.size != want.plen || (want.plen && memcmp(f->payload.data, want.payload, want.plen) != 0)) {
                mc_fail("C08/roundtrip-payload", "%s: received %zu payload octets, sent %zu (or content differs)", ENAME[e], f->payload.size, want.plen);
                ok = false;
            } else if (B.outlen != 0) {
                mc_fail("C08/own-receiver-accepts", "%s: receiver emitted %zu octets on reception of a valid frame", ENAME[e], B.outlen);
                ok = false;
            }
        }
        if (mf.frame)
            regp_free(&B.p, mf.frame);
        if (ok && !drv_balanced(&B)) {
            mc_fail("C08/receiver-ledger", "%s: allocator ledger unbalanced after receive+free", ENAME[e]);
            ok = false;
        }
        drv_release(&B);
    }
    if (fresh)
        drv_release(&A);
    free(pl);
    return ok;
}

int
main(int argc, char **argv)
{
    mc_init(argc, argv);
    /* anchors: the serial wire images of t-register-protocol.c */
    {
        unsigned char raw[64], wire[64];
        struct rframe f = { 0, RT_READ_REQ, RO_W16 | RO_HDCRC, 0, 0, 0x64, 1, 0, 0, 0, NULL, 0 };
        size_t n = rr_build(raw, &f, false, false);
        MC_ANCHOR(n == 14 && raw[0] == 0x03 && raw[1] == 0x00 && raw[12] == 0x0c && raw[13] == 0xb4, "serial read request image");
        static const unsigned char pl[2] = { 0x64, 0x00 };
        struct rframe g = { 0, RT_READ_RESP, RO_W16 | RO_HDCRC | RO_PLCRC, 0, 0, 0x64, 1, 0, 0, 0, pl, 2 };
        n = rr_build(raw, &g, false, false);
        MC_ANCHOR(n == 18 && raw[0] == 0x07 && raw[1] == 0x10 && raw[12] == 0x8e && raw[13] == 0x9d && raw[14] == 0xc0 && raw[15] == 0x2a, "serial read response image");
        n = rr_slip(wire, raw, n);
        MC_ANCHOR(n == 20 && wire[14] == 0xdb && wire[15] == 0xdc && wire[19] == 0xc0, "SLIP image");
        MC_ANCHOR(rr_crc(0, (const unsigned char *)"123456789", 9) == 0xbb3d, "CRC check value");
    }
    const bool th = mc_thorough();
    static size_t sizes[160];
    int nsz = 0;
    for (size_t s = 0; s <= (th ? 70u : 20u); ++s)
        sizes[nsz++] = s;
    const size_t extra[] = { 49, 50, 51, 52, 55, 56, 57, 58, 63, 64, 65, 100, 111, 112, 113, 114, 115, 116, 117, 118, 127, 128, 129, 200, 255, 256, 257, 1000 };
    for (unsigned i = 0; i < sizeof extra / sizeof *extra; ++i)
        if (extra[i] > (th ? 70u : 20u))
            sizes[nsz++] = extra[i];
    for (int e = 0; e < E_COUNT; ++e)
        for (int tcp = 0; tcp < 2; ++tcp)
            for (int m16 = 0; m16 < 2; ++m16)
                for (int anstype = 0; anstype < 2; ++anstype) {
                    if (e <= E_REQ_WRITE16 && anstype)
                        continue; /* requests answer nothing */
                    if (e >= E_META_ENC && anstype)
                        continue;
                    if (e == E_ACK_PAYLOAD && anstype)
                        continue; /* doc 3.1.1: write responses carry no payload when acknowledging */
                    for (unsigned ai = 0; ai < sizeof ADDRS / sizeof *ADDRS; ++ai)
                        for (unsigned si = 0; si < 4; ++si) {
                            const bool isreq = e <= E_REQ_WRITE16;
                            if (isreq && !th && SEQS[si] > 1 && ai != 2 && ai != 6)
                                continue; /* quick: long sessions (tens of thousands of earlier requests) for two addresses only */
                            if (!mc_case(isreq ? "%s %s mem%d answering=%s addr=%08x after %u earlier requests of the session x sizes x contents"
                                               : "%s %s mem%d answering=%s addr=%08x seq=%04x x sizes x contents",
                                         ENAME[e], tcp ? "tcp" : "serial", m16 ? 16 : 8, anstype ? "write" : "read", ADDRS[ai], SEQS[si]))
                                continue;
                            bool ok = true;
                            long n = 0;
                            if (isreq)
                                ok = new_session(tcp, m16, SEQS[si]);
                            if (emits_with_size(e)) {
                                for (int zi = 0; zi < nsz && ok; ++zi)
                                    for (int c = 0; c < 4 && ok; ++c) {
                                        if ((e == E_REQ_READ8 || e == E_REQ_READ16) && c)
                                            continue;
                                        if (sizes[zi] == 0 && c)
                                            continue;
                                        ok = one(e, tcp, m16, anstype, ADDRS[ai], SEQS[si], sizes[zi], c, 0, !isreq);
                                        n++;
                                    }
                            } else {
                                static const uint32_t VAL[] = { 0, 1, 0x40, 0xc0dbdcddu, 0xffffffffu, 0x00c000dbu };
                                for (unsigned vi = 0; vi < 6 && ok; ++vi) {
                                    ok = one(e, tcp, m16, anstype, ADDRS[ai], SEQS[si], 0, 0, VAL[vi], true);
                                    n++;
                                }
                            }
                            if (isreq)
                                drv_release(&A);
                            mc_end(true, !ok ? "failed" : e <= E_REQ_WRITE16 ? "request-roundtrip" : e <= E_ACK_EMPTY ? "ack-roundtrip"
                                   : e <= E_EIO ? "error-response-roundtrip" : "meta-roundtrip");
                        }
                }
    /* sequence numbering: 65537 consecutive requests on one session */
    for (int tcp = 0; tcp < 2; ++tcp) {
        if (!mc_case("sequence numbering over 65537 consecutive requests, %s", tcp ? "tcp" : "serial"))
            continue;
        drv_init(&A, tcp, true, 4096, false);
        bool ok = true;
        static const unsigned char pl[4] = { 1, 2, 3, 4 };
        unsigned char scratch[DRV_WIRE];
        long first = -1;
        RPFrame rq;
        memset(&rq, 0, sizeof rq);
        rq.header.type = RP_FRAME_WRITE_REQUEST;
        for (uint32_t i = 0; i <= 65536 && ok; ++i) {
            if (i % 5 == 3) {
                /* responses sent in between are not requests of the session */
                A.outlen = 0;
                (void)regp_resp_ack(&A.p, &rq, NULL, 0);
                (void)regp_resp_meta(&A.p, RP_META_EHEADERCRC);
                mc_trans(2);
            }
            A.outlen = 0;
            int rc;
            switch (i & 3) {
            case 0: rc = regp_req_read16(&A.p, i, 1); break;
            case 1: rc = regp_req_write8(&A.p, i, 4, pl); break;
            case 2: rc = regp_req_read8(&A.p, i, 2); break;
            default: rc = regp_req_write16(&A.p, i, 2, (const uint16_t *)(const void *)pl); break;
            }
            mc_trans(1);
            struct rr_frames fr;
            struct rframe f;
            if (rc < 0 || rr_unframe(tcp, A.out, A.outlen, scratch, &fr) != 1 || rr_verdict(scratch + fr.off[0], fr.len[0], &f) != RV_OK) {
                mc_fail("C08/wire-octets", "request %u is not a valid frame (rc=%d)", i, rc);
                ok = false;
            } else {
                if (first < 0)
                    first = f.seq; /* the statement does not fix the first number of a session */
                if (f.seq != (uint16_t)(first + i)) {
                    mc_fail("C08/sequence-increments", "request number %u carries sequence %u; the first request of the session carried %ld", i, f.seq, first);
                    ok = false;
                }
            }
        }
        drv_release(&A);
        mc_end(true, ok ? "sequence-wraps" : "failed");
    }
    mc_finish(true, th ? "19 emitters x 2 transports x 2 memory widths x answered type x 7 addresses x 4 sequence numbers x sizes {0..70, boundary sizes up to 1000} x 4 contents / 6 payload values; 65537 consecutive requests per transport"
                       : "19 emitters x 2 transports x 2 memory widths x answered type x 7 addresses x 4 sequence numbers x sizes {0..20, boundary sizes up to 1000} x 4 contents / 6 payload values; 65537 consecutive requests per transport");
    return 0;
}
