/*
 * C08 -- every emitted frame is spec-conformant and round-trips through the
 * library's own receiver.
 *
 * Space: every emit entry point x transport x attached memory width x request
 * type being answered x address x sequence x size x payload content; plus
 * 65537 consecutive requests on one session.  Oracle: (1) sink octets equal
 * the reference encoder's output for the same semantic fields, (2) a second
 * RegP receiving those octets reports no error and the same fields, (3)
 * sequence numbers increase by one modulo 2^16.
 *
 * The session's sequence counter is never written or read by the harness (its
 * representation is the library's business): a request case runs on one
 * instance that has first emitted N requests (N from the sequence set, so
 * that the interesting numbers are reached from a new session), the number a
 * request carries is taken from the emitted frame, and every emission must
 * carry its predecessor's number plus one.  Of a meta message the document
 * says that only the meta field is used: its WORD-SIZE-16 bit, sequence and
 * address are taken from the emitted frame.
 *
 * Further dimensions:
 *  - the request frame handed to a responder is the one the responding
 *    instance's own regp_recv returns for the request's wire image (the
 *    responders are documented for such frames); the request carries every
 *    combination of its three option bits, in particular a WORD-SIZE-16 bit
 *    that differs from the attached memory's width (regp_resp_ack used by hand
 *    between regp_recv and regp_process); option variants the receiver refuses
 *    are left out;
 *  - every emission is received three times: by a receiver with a large block,
 *    by one whose block has room for exactly the frame, and by one with one
 *    octet to spare; the receivers differ in attached memory width and in the
 *    way their source delivers (octet-wise, chunks, chunks through a scratch
 *    buffer of 64 octets).  How much of a block the receiver keeps for itself
 *    is not this harness's business: "room for exactly n octets" is a block
 *    size whose capacity the library itself shows to be n (it accepts a
 *    well-formed reference request of n octets and refuses the one of n+1,
 *    regp_ref.h: drv_learn_capacity);
 *  - an emitter may refuse a call (negative return) as long as it then puts
 *    nothing on the wire: no frame was emitted, the statement says nothing
 *    about it (outcome class "refused" when a whole case consists of them);
 *  - sink answers: every emitter x transport x octet/chunk sink, the sink
 *    answering EAGAIN / EINTR / a short write / a zero-length write / a hard
 *    error at every call position (and a second such answer behind it): an
 *    emitter that reports success must have put exactly the frame on the wire.
 */
#include "mc.h"
#include "regp_ref.h"

enum emitter {
    E_REQ_READ8, E_REQ_READ16, E_REQ_WRITE8, E_REQ_WRITE16, E_ACK_PAYLOAD, E_ACK_EMPTY,
    E_EWORDSIZE, E_EPAYLOADCRC, E_EPAYLOADSIZE, E_ERXOVERFLOW, E_ETXOVERFLOW, E_EBUSY,
    E_EUNMAPPED, E_EACCESS, E_ERANGE, E_EINVALID, E_EIO, E_META_ENC, E_META_CRC, E_COUNT
};
static const char *ENAME[E_COUNT] = {
    "req_read8", "req_read16", "req_write8", "req_write16", "resp_ack(payload)", "resp_ack(empty)",
    "resp_ewordsize", "resp_epayloadcrc", "resp_epayloadsize", "resp_erxoverflow", "resp_etxoverflow", "resp_ebusy",
    "resp_eunmapped", "resp_eaccess", "resp_erange", "resp_einvalid", "resp_eio", "resp_meta(EHEADERENC)", "resp_meta(EHEADERCRC)"
};
static const int ECODE[E_COUNT] = { 0, 0, 0, 0, 0, 0, 1, 2, 3, 4, 5, 6, 7, 8, 9, 10, 11, 1, 2 };

static const uint32_t ADDRS[] = { 0, 1, 0x64, 0xffff, 0x10000, 0xffffffffu, 0xc0dbdcddu };
static const uint16_t SEQS[] = { 0, 1, 0xc0db, 0xffff };

static struct drv A, B; /* emitter side, receiver side */

static void
fill(unsigned char *p, size_t n, int content)
{
    static const unsigned char alt[2] = { 0xdc, 0xdd };
    for (size_t i = 0; i < n; ++i)
        p[i] = content == 0 ? (unsigned char)(i + 1) : content == 1 ? 0xc0 : content == 2 ? 0xdb : alt[i & 1];
}

static bool
emits_with_size(int e)
{
    return e <= E_ACK_PAYLOAD;
}

/* request numbering on the emitting instance A */
static bool g_have_prev;
static uint16_t g_prev_seq;

/* sequence number carried by the one frame in A.out; -1 if it cannot be read */
static long
emitted_seq(bool tcp)
{
    static unsigned char scratch[DRV_WIRE];
    struct rr_frames fr;
    if (rr_unframe(tcp, A.out, A.outlen, scratch, &fr) != 1 || fr.len[0] < 12)
        return -1;
    return ((long)scratch[fr.off[0] + 2] << 8) | scratch[fr.off[0] + 3];
}

/* record a request's number and compare it with its predecessor's */
static bool
follows(long es, const char *who)
{
    if (es < 0)
        return true; /* reported elsewhere */
    if (g_have_prev && (uint16_t)es != (uint16_t)(g_prev_seq + 1)) {
        mc_fail("C08/sequence-increments", "%s carries sequence number %ld, the previous request of the session carried %u", who, es, g_prev_seq);
        return false;
    }
    g_have_prev = true;
    g_prev_seq = (uint16_t)es;
    return true;
}

/* a new emitting instance that has already sent `before` requests (a request
 * that is refused without emitting anything is not one of them) */
static bool
new_session(bool tcp, bool m16, unsigned before)
{
    drv_init(&A, tcp, m16, 4096, false);
    g_have_prev = false;
    for (unsigned i = 0; i < before; ++i) {
        A.outlen = 0;
        const int rc = (i & 1) ? regp_req_read8(&A.p, i, 1) : regp_req_read16(&A.p, i, 1);
        mc_trans(1);
        if (rc < 0 && A.outlen == 0)
            continue;
        if (rc < 0) {
            mc_fail("C08/emit-succeeds", "request %u of the session returned %d with %zu octets on the wire", i, rc, A.outlen);
            return false;
        }
        if (!follows(emitted_seq(tcp), "a read request"))
            return false;
    }
    return true;
}

/* ---- one emission --------------------------------------------------------------- */

/* reqvar: the option bits of the request frame handed to a responder.  Bit 0:
 * its WORD-SIZE-16 bit differs from the attached memory's width; bits 1 and 2:
 * its WITH-HEADER-CRC / WITH-PAYLOAD-CRC bit differs from what the transport
 * mandates for the request (a response's own checksum bits are the transport's
 * business, not the request's).  The request frame is not built by hand: its
 * wire image is received by the responding instance's own regp_recv, and a
 * variant that receiver refuses is left out. */
struct emission {
    int e;
    bool tcp, m16;
    int anstype;
    uint32_t addr;
    uint16_t seq;
    size_t n;
    int content;
    uint32_t value;
    unsigned reqvar;
    /* derived by em_prepare */
    unsigned char reqwire[96]; /* the answered request in wire form (responders) */
    size_t reqwn;
    uint32_t reqbsize;         /* its block size */
    const RPFrame *req;        /* the frame regp_recv returned for it (em_receive_request) */
    bool mismatch;     /* acknowledgement for a request of the other word size */
    unsigned char *pl; /* payload memory: exact-size heap block (behind one pad octet when the payload sits at an odd address) */
    unsigned char *plbase;
    size_t plbuf;      /* its size */
    size_t plen;       /* payload octets the frame has to carry (mismatch: fixed after the emission) */
};

/* payload placement: the payload starts g_ploff octets behind the start of
 * its (at least 8-aligned) heap block.  Octet payloads: 0 and 1; sixteen bit
 * payloads: 0 and 2 (an address that is 2 modulo 4), boundary sizes also 4, 6. */
static int g_ploff;

static bool
is_responder(int e)
{
    return e >= E_ACK_PAYLOAD && e <= E_EIO;
}

static bool
takes_octet_payload(const struct emission *m)
{
    return m->e == E_REQ_WRITE8 || (m->e == E_ACK_PAYLOAD && !m->m16);
}

static bool
takes_word_payload(const struct emission *m)
{
    return m->e == E_REQ_WRITE16 || (m->e == E_ACK_PAYLOAD && m->m16);
}

static const char *
ploff_text(void)
{
    static char buf[64];
    if (g_ploff == 0)
        return "";
    snprintf(buf, sizeof buf, " (payload %d octet(s) behind an aligned address)", g_ploff);
    return buf;
}

/* option bits of the request a responder answers */
static unsigned
em_request_options(const struct emission *m)
{
    const bool req16 = m->m16 != ((m->reqvar & 1u) != 0);
    /* the checksum bits the transport mandates for this request, each
     * inverted where reqvar says so */
    const unsigned mandated = m->tcp ? 0u : (RO_HDCRC | (m->anstype ? RO_PLCRC : 0u));
    return (req16 ? RO_W16 : 0u) | (mandated ^ (m->reqvar & (RO_HDCRC | RO_PLCRC)));
}

static void
em_prepare(struct emission *m)
{
    const int e = m->e;
    m->req = NULL;
    m->reqwn = 0;
    if (is_responder(e)) {
        /* The responders are documented for frames returned by regp_recv: the
         * request is built in wire form (a read request for three units, or a
         * write request carrying three units) and received by the responding
         * instance itself (em_receive_request). */
        static const unsigned char rpl[6] = { 0x11, 0x22, 0x33, 0x44, 0x55, 0x66 };
        unsigned char raw[40];
        struct rframe rq;
        memset(&rq, 0, sizeof rq);
        rq.type = m->anstype ? RT_WRITE_REQ : RT_READ_REQ;
        rq.options = em_request_options(m);
        rq.seq = m->seq;
        rq.addr = m->addr;
        rq.bsize = 3;
        m->reqbsize = rq.bsize;
        if (m->anstype) {
            rq.payload = rpl;
            rq.plen = (rq.options & RO_W16) ? 6 : 3;
        }
        const size_t rn = rr_build(raw, &rq, false, false);
        m->reqwn = m->tcp ? rr_lenprefix(m->reqwire, raw, rn) : rr_slip(m->reqwire, raw, rn);
    }
    m->mismatch = (m->reqvar & 1u) && (e == E_ACK_PAYLOAD || e == E_ACK_EMPTY);
    const bool w16 = (e == E_REQ_WRITE16) || (e == E_ACK_PAYLOAD && m->m16);
    m->plen = (e == E_REQ_WRITE8 || e == E_REQ_WRITE16 || e == E_ACK_PAYLOAD) ? m->n * (w16 ? 2u : 1u) : 0;
    /* An acknowledgement for a request of the other word size: n units are
     * handed over; whether they are units of the attached memory or of the
     * request is not fixed, so the block holds n units of the wider kind and
     * the frame says (WORD-SIZE-16) how many octets of it are the payload. */
    m->plbuf = (m->mismatch && e == E_ACK_PAYLOAD) ? m->n * 2u : m->plen;
    /* Octet payloads may sit anywhere.  (Sixteen bit payloads are handed over
     * as uint16_t pointers, resp. as a void pointer that the library converts
     * to one: an odd address is not admissible there - the unchanged library
     * itself loads misaligned words from it, as UBSan's alignment check shows;
     * every even address is: 2, 4 and 6 octets behind an aligned one.) */
    const size_t off = (g_ploff && (takes_octet_payload(m) || ((g_ploff & 1) == 0 && takes_word_payload(m)))) ? (size_t)g_ploff : 0;
    m->plbase = mc_exact(m->plbuf + off);
    m->pl = m->plbase + off;
    if (off)
        memset(m->plbase, 0xee, off);
    fill(m->pl, m->plbuf, m->content);
}

static void
em_release(struct emission *m)
{
    free(m->plbase);
    m->pl = m->plbase = NULL;
}

/* The responding instance d receives the request it is going to answer.
 * False: its receiver does not accept this request (a receiver may be strict
 * about option bits its transport does not mandate): there is nothing to
 * answer then, the variant is left out.  The frame stays allocated until
 * em_drop_request. */
static long g_req_refused;

static bool
em_receive_request(struct emission *m, struct drv *d)
{
    if (!is_responder(m->e))
        return true;
    RPMaybeFrame mf;
    memset(&mf, 0, sizeof mf);
    drv_feed(d, m->reqwire, m->reqwn);
    const int rrc = regp_recv(&d->p, &mf);
    mc_trans(1);
    d->outlen = 0; /* whatever it said about a request it refuses is not under test here */
    if (rrc < 0 || mf.error.id != 0 || mf.frame == NULL) {
        if (mf.frame != NULL)
            regp_free(&d->p, mf.frame);
        g_req_refused++;
        return false;
    }
    m->req = mf.frame;
    return true;
}

static void
em_drop_request(struct emission *m, struct drv *d)
{
    if (m->req != NULL)
        regp_free(&d->p, (RPFrame *)m->req);
    m->req = NULL;
}

static int
em_emit(RegP *p, const struct emission *m)
{
    const uint32_t addr = m->addr, value = m->value;
    const size_t n = m->n;
    const RPFrame *req = m->req;
    switch (m->e) {
    case E_REQ_READ8: return regp_req_read8(p, addr, n);
    case E_REQ_READ16: return regp_req_read16(p, addr, n);
    case E_REQ_WRITE8: return regp_req_write8(p, addr, n, m->pl);
    case E_REQ_WRITE16: return regp_req_write16(p, addr, n, (const uint16_t *)(const void *)m->pl);
    case E_ACK_PAYLOAD: return regp_resp_ack(p, req, n ? m->pl : NULL, n);
    case E_ACK_EMPTY: return regp_resp_ack(p, req, NULL, 0);
    case E_EWORDSIZE: return regp_resp_ewordsize(p, req);
    case E_EPAYLOADCRC: return regp_resp_epayloadcrc(p, req);
    case E_EPAYLOADSIZE: return regp_resp_epayloadsize(p, req);
    case E_ERXOVERFLOW: return regp_resp_erxoverflow(p, req, value);
    case E_ETXOVERFLOW: return regp_resp_etxoverflow(p, req, value);
    case E_EBUSY: return regp_resp_ebusy(p, req);
    case E_EUNMAPPED: return regp_resp_eunmapped(p, req, value);
    case E_EACCESS: return regp_resp_eaccess(p, req, value);
    case E_ERANGE: return regp_resp_erange(p, req, value);
    case E_EINVALID: return regp_resp_einvalid(p, req, value);
    case E_EIO: return regp_resp_eio(p, req);
    case E_META_ENC: return regp_resp_meta(p, RP_META_EHEADERENC);
    case E_META_CRC: return regp_resp_meta(p, RP_META_EHEADERCRC);
    }
    return -EINVAL;
}

/* the semantic fields the emission has to carry, as far as they are known
 * before it (see `one` for what is taken from the emitted frame) */
static void
em_want(const struct emission *m, struct rframe *want, unsigned char p32[4])
{
    const int e = m->e;
    memset(want, 0, sizeof *want);
    want->seq = m->seq;
    want->addr = m->addr;
    p32[0] = (unsigned char)(m->value >> 24);
    p32[1] = (unsigned char)(m->value >> 16);
    p32[2] = (unsigned char)(m->value >> 8);
    p32[3] = (unsigned char)m->value;
    switch (e) {
    case E_REQ_READ8: want->type = RT_READ_REQ; want->bsize = (uint32_t)m->n; break;
    case E_REQ_READ16: want->type = RT_READ_REQ; want->bsize = (uint32_t)m->n; want->options = RO_W16; break;
    case E_REQ_WRITE8: want->type = RT_WRITE_REQ; want->bsize = (uint32_t)m->n; want->payload = m->pl; want->plen = m->plen; break;
    case E_REQ_WRITE16: want->type = RT_WRITE_REQ; want->bsize = (uint32_t)m->n; want->options = RO_W16; want->payload = m->pl; want->plen = m->plen; break;
    case E_ACK_PAYLOAD: want->type = m->anstype ? RT_WRITE_RESP : RT_READ_RESP; want->bsize = (uint32_t)m->n; want->options = m->m16 ? RO_W16 : 0; want->payload = m->pl; want->plen = m->plen; break;
    case E_ACK_EMPTY: want->type = m->anstype ? RT_WRITE_RESP : RT_READ_RESP; want->options = m->m16 ? RO_W16 : 0; break;
    default: break;
    }
    if (e >= E_EWORDSIZE && e <= E_EIO) {
        want->type = m->anstype ? RT_WRITE_RESP : RT_READ_RESP;
        want->meta = (unsigned)ECODE[e];
        if (e == E_ERXOVERFLOW || e == E_ETXOVERFLOW || (e >= E_EUNMAPPED && e <= E_EINVALID)) {
            want->bsize = 4;
            want->payload = p32;
            want->plen = 4;
        }
    } else if (e >= E_META_ENC) {
        want->type = RT_META;
        want->meta = (unsigned)ECODE[e];
        want->seq = 0;
        want->addr = 0;
    }
    if (!m->tcp) {
        want->options |= RO_HDCRC;
        if (want->plen)
            want->options |= RO_PLCRC;
    }
}

/* (2) the octets in A.out through one of the library's own receivers */
static const char *SRCN[3] = { "chunk source", "octet source", "chunk source offering a 64-octet scratch buffer" };

static bool
receive(const struct rframe *want, const char *name, bool tcp, bool rm16, size_t blocksize, int srcmode, const char *room)
{
    bool ok = true;
    drv_init_ex(&B, tcp, rm16, blocksize, srcmode);
    drv_feed(&B, A.out, A.outlen);
    RPMaybeFrame mf;
    memset(&mf, 0, sizeof mf);
    const int rrc = regp_recv(&B.p, &mf);
    mc_trans(1);
    mc_log("receiver (%s, mem%d, %s): rc=%d error.id=%d frame=%s", room, rm16 ? 16 : 8, SRCN[srcmode], rrc, mf.error.id, mf.frame ? "yes" : "NULL");
    if (B.overrun) {
        mc_fail("C08/own-receiver-accepts", "%s: receiver (%s, %s) exceeded the driver call budget", name, room, SRCN[srcmode]);
        ok = false;
    } else if (rrc < 0 || mf.error.id != 0 || mf.frame == NULL) {
        mc_fail("C08/own-receiver-accepts", "%s: receiver (%s, mem%d, %s) rc=%d error.id=%d", name, room, rm16 ? 16 : 8, SRCN[srcmode], rrc, mf.error.id);
        ok = false;
    } else {
        const RPFrame *f = mf.frame;
        if ((unsigned)f->header.type != want->type || f->header.options != want->options || f->header.meta.raw != want->meta
            || f->header.sequence != want->seq || f->header.address != want->addr || f->header.blocksize != want->bsize) {
            mc_fail("C08/roundtrip-fields", "%s: received (%s) type=%d opt=%x meta=%u seq=%u addr=%x bsize=%u; sent type=%u opt=%x meta=%u seq=%u addr=%x bsize=%u",
                    name, room, f->header.type, f->header.options, f->header.meta.raw, f->header.sequence, f->header.address, f->header.blocksize,
                    want->type, want->options, want->meta, want->seq, want->addr, want->bsize);
            ok = false;
        } else if (f->payload.size != want->plen || (want->plen && memcmp(f->payload.data, want->payload, want->plen) != 0)) {
            mc_fail("C08/roundtrip-payload", "%s: received (%s) %zu payload octets, sent %zu (or content differs)", name, room, f->payload.size, want->plen);
            ok = false;
        } else if (B.outlen != 0) {
            mc_fail("C08/own-receiver-accepts", "%s: receiver (%s) emitted %zu octets on reception of a valid frame", name, room, B.outlen);
            ok = false;
        }
    }
    if (mf.frame)
        regp_free(&B.p, mf.frame);
    /* How many blocks the receiver holds and when it gives them back is C09's
     * sentence (a receiver may keep a spare block); only a release that is no
     * release of a live block (double or foreign) is reported here. */
    if (ok && (B.bad_frees % 100) != 0) {
        mc_fail("C08/receiver-double-release", "%s: the receiver released a block twice or one the allocator never handed out (%s)", name, room);
        ok = false;
    }
    drv_release(&B);
    return ok;
}

/* (2b) the receiver whose block has room for exactly `room` octets: the block
 * size is the one whose capacity the library shows to be `room`.  Without such
 * a block size (the library's answers define no capacity, or not this one) the
 * receiver is left out and the run is not exhaustive. */
static bool
receive_fitted(const struct rframe *want, const char *name, bool tcp, bool rm16, size_t room, int srcmode, const char *what)
{
    static bool capped;
    const size_t bsz = drv_block_for_capacity_wide(room, !tcp);
    if (bsz == 0) {
        if (!capped)
            mc_cap("no block size with a learned capacity of exactly the frame (+1): fitted receivers left out");
        capped = true;
        mc_log("receiver (%s): no block size shows a capacity of %zu octets, left out", what, room);
        return true;
    }
    mc_log("receiver (%s): block of %zu octets shows a capacity of %zu", what, bsz, room);
    return receive(want, name, tcp, rm16, bsz, srcmode, what);
}

/* the reference wire image of the last emission that passed clause (1) */
static unsigned char g_ref_wire[2 * RR_MAXFRAME + 16];
static size_t g_ref_wn;
static bool g_refused; /* the last emission was refused without emitting anything */

/* one emission; returns false after a recorded failure.  fresh: on a new
 * instance (responses, meta); otherwise on the session set up by new_session */
static bool
one(int e, bool tcp, bool m16, int anstype, uint32_t addr, uint16_t seq, size_t n, int content, uint32_t value, bool fresh, unsigned reqvar)
{
    struct emission m;
    memset(&m, 0, sizeof m);
    m.e = e; m.tcp = tcp; m.m16 = m16; m.anstype = anstype; m.addr = addr; m.seq = seq; m.n = n; m.content = content; m.value = value; m.reqvar = reqvar;
    em_prepare(&m);
    if (fresh)
        drv_init(&A, tcp, m16, 4096, false);
    g_ref_wn = 0;
    g_refused = false;
    if (!em_receive_request(&m, &A)) {
        /* the instance's own receiver does not take this request variant:
         * there is no frame to hand to the responder */
        mc_log("%s: the request variant (options %x) is refused by the receiver, left out", ENAME[e], em_request_options(&m));
        g_refused = true;
        if (fresh)
            drv_release(&A);
        em_release(&m);
        return true;
    }
    A.outlen = 0;
    const int rc = em_emit(&A.p, &m);
    mc_trans(1);
    struct rframe want;
    unsigned char p32[4];
    em_want(&m, &want, p32);
    bool ok = true;
    unsigned char raw[RR_MAXFRAME], scratch[DRV_WIRE];
    size_t rn = 0;
    mc_log("%s (request options %x)%s rc=%d emitted %zu octets", ENAME[e], em_request_options(&m), ploff_text(), rc, A.outlen);
    mc_log_hex("wire", A.out, A.outlen);
    if (rc < 0 && A.outlen == 0) {
        /* a refused call that puts nothing on the wire emits no frame (e.g.
         * refusing to acknowledge a request of the other word size) */
        g_refused = true;
        em_drop_request(&m, &A);
        if (fresh)
            drv_release(&A);
        em_release(&m);
        return true;
    }
    if (rc < 0) {
        mc_fail("C08/emit-succeeds", "%s%s returned %d with %zu octets on the wire", ENAME[e], ploff_text(), rc, A.outlen);
        ok = false;
    }
    /* (1) wire octets vs reference.  The WORD-SIZE-16 bit of payload-less
     * error responses is not fixed by the document: take it from the frame.
     * Nor is their block size: doc/regp.txt 3 lets a response mirror every
     * part of the request's header but type, checksum and meta, so the block
     * size of such a response is the request's or (nothing follows) zero -
     * whichever of the two the frame carries. */
    if (ok) {
        struct rr_frames fr;
        if (rr_unframe(tcp, A.out, A.outlen, scratch, &fr) != 1) {
            mc_fail("C08/one-well-framed-frame", "%s: the emitted octets are not exactly one %s frame", ENAME[e], tcp ? "length-prefixed" : "SLIP");
            ok = false;
        } else {
            if (e >= E_EWORDSIZE && e <= E_EIO && want.plen == 0 && fr.len[0] >= 2)
                want.options = (want.options & ~(unsigned)RO_W16) | (scratch[fr.off[0]] & RO_W16);
            if (e >= E_EWORDSIZE && e <= E_EIO && want.plen == 0 && fr.len[0] >= 12) {
                const unsigned char *mm = scratch + fr.off[0] + 8;
                const uint32_t b = ((uint32_t)mm[0] << 24) | ((uint32_t)mm[1] << 16) | ((uint32_t)mm[2] << 8) | mm[3];
                if (b == 0 || b == m.reqbsize)
                    want.bsize = b;
                mc_log("payload-less error response carries block size %u (request: %u)", b, m.reqbsize);
            }
            if (m.mismatch && fr.len[0] >= 2) {
                /* the frame says which of the two word sizes it speaks; its
                 * payload then is n units of that size */
                const unsigned w = scratch[fr.off[0]] & RO_W16;
                want.options = (want.options & ~(unsigned)RO_W16) | w;
                if (e == E_ACK_PAYLOAD)
                    want.plen = n * (w ? 2u : 1u);
            }
            if (e >= E_META_ENC && fr.len[0] >= 8) {
                /* "In META messages, only the meta field is used" */
                const unsigned char *mm = scratch + fr.off[0];
                want.options = (want.options & ~(unsigned)RO_W16) | (mm[0] & RO_W16);
                want.seq = (uint16_t)((mm[2] << 8) | mm[3]);
                want.addr = ((uint32_t)mm[4] << 24) | ((uint32_t)mm[5] << 16) | ((uint32_t)mm[6] << 8) | mm[7];
            }
            if (e <= E_REQ_WRITE16 && fr.len[0] >= 4) {
                /* the number is the session's; that it is the right one is clause (3) */
                const unsigned char *mm = scratch + fr.off[0];
                want.seq = (uint16_t)((mm[2] << 8) | mm[3]);
            }
            rn = rr_build(raw, &want, false, false);
            const size_t wn = tcp ? rr_lenprefix(g_ref_wire, raw, rn) : rr_slip(g_ref_wire, raw, rn);
            if (wn != A.outlen || memcmp(g_ref_wire, A.out, wn) != 0) {
                mc_fail("C08/wire-octets", "%s%s: emitted octets differ from the protocol document's encoding (%zu vs %zu octets)", ENAME[e], ploff_text(), A.outlen, wn);
                mc_log_hex("reference", g_ref_wire, wn);
                ok = false;
            } else
                g_ref_wn = wn;
        }
    }
    /* (3) session sequence */
    if (ok && e <= E_REQ_WRITE16)
        ok = follows(emitted_seq(tcp), ENAME[e]);
    /* (2) own receiver: a large block; a block with room for exactly this
     * frame (learned capacity == frame length); one octet to spare.  The
     * receiving instance's memory width is its own business, as is the way its
     * source delivers the octets. */
    if (ok)
        ok = receive(&want, ENAME[e], tcp, m16, 4096, DRV_SRC_CHUNK, "block of 4096 octets");
    if (ok)
        ok = receive_fitted(&want, ENAME[e], tcp, !m16, rn, tcp ? DRV_SRC_CHUNK_GETBUFFER : DRV_SRC_OCTET, "block with room for exactly the frame");
    if (ok)
        ok = receive_fitted(&want, ENAME[e], tcp, m16, rn + 1, DRV_SRC_OCTET, "block with one octet to spare");
    em_drop_request(&m, &A);
    if (fresh)
        drv_release(&A);
    em_release(&m);
    return ok;
}

/* ---- sink answers ------------------------------------------------------------------ */
/* A sink may take fewer octets than offered, none at all, or ask for a retry
 * (EAGAIN, EINTR); or fail for good.  Whatever the emitter does about it: when
 * it reports success the wire holds exactly the frame. */
enum { SA_EAGAIN, SA_EINTR, SA_SHORT1, SA_SHORTM1, SA_ZERO, SA_EIO, SA_COUNT };
static const char *SANAME[SA_COUNT] = { "EAGAIN", "EINTR", "a short write of one octet", "a short write of all but one octet", "a zero-length write", "EIO" };

static struct ssink {
    unsigned char out[DRV_WIRE];
    size_t outlen;
    long calls, budget;
    long at[2];
    int ans[2];
    int nhit;
    bool zero_to_one; /* a single-octet offer was answered with a zero-length write */
    bool overrun;
} S;

static ssize_t
ssink_take(struct ssink *s, const unsigned char *d, size_t n)
{
    if (s->outlen + n > DRV_WIRE) {
        s->overrun = true;
        return -EIO;
    }
    memcpy(s->out + s->outlen, d, n);
    s->outlen += n;
    return (ssize_t)n;
}

static ssize_t
ssink_chunk(void *drv, const void *data, size_t n)
{
    struct ssink *s = drv;
    const long k = s->calls++;
    if (k >= s->budget) {
        s->overrun = true;
        return -EIO;
    }
    for (int i = 0; i < 2; ++i)
        if (k == s->at[i]) {
            s->nhit++;
            switch (s->ans[i]) {
            case SA_EAGAIN: return -EAGAIN;
            case SA_EINTR: return -EINTR;
            case SA_ZERO:
                if (n == 1)
                    s->zero_to_one = true;
                return 0;
            case SA_EIO: return -EIO;
            case SA_SHORT1: return ssink_take(s, data, n > 1 ? 1 : n);
            case SA_SHORTM1: return ssink_take(s, data, n > 1 ? n - 1 : n);
            }
        }
    return ssink_take(s, data, n);
}

static int
ssink_octet(void *drv, unsigned char c)
{
    return (int)ssink_chunk(drv, &c, 1);
}

/* the emission again, on a new instance whose sink follows the script */
static int
emit_scripted(struct emission *m, bool octet_sink, long at1, int a1, long at2, int a2)
{
    drv_init(&A, m->tcp, m->m16, 4096, false);
    /* the request is received over the undisturbed channel first */
    if (!em_receive_request(m, &A)) {
        memset(&S, 0, sizeof S);
        drv_release(&A);
        return -ECANCELED;
    }
    memset(&S, 0, sizeof S);
    S.at[0] = at1; S.ans[0] = a1;
    S.at[1] = at2; S.ans[1] = a2;
    S.budget = 4 * (long)g_ref_wn + 64;
    Source src;
    Sink snk;
    chunk_source_init(&src, drv_src_chunk, &A);
    if (octet_sink)
        octet_sink_init(&snk, ssink_octet, &S);
    else
        chunk_sink_init(&snk, ssink_chunk, &S);
    regp_use_channel(&A.p, m->tcp ? RP_EP_TCP : RP_EP_SERIAL, src, snk);
    const int rc = em_emit(&A.p, m);
    mc_trans(1);
    em_drop_request(m, &A);
    drv_release(&A);
    return rc;
}

static long g_delivered, g_refusals;

/* judge one scripted emission; false after a recorded failure */
static bool
judge_scripted(const struct emission *m, int rc, const char *script)
{
    if (S.overrun) {
        mc_fail("C08/hang", "%s n=%zu content=%d addr=%08x, sink answers %s: the emitter keeps calling the sink (%ld calls for a frame of %zu octets)", ENAME[m->e], m->n,
                m->content, m->addr, script, S.calls, g_ref_wn);
        return false;
    }
    if (rc < 0) {
        g_refusals++; /* nothing is claimed about an emission that reports failure */
        return true;
    }
    if (S.outlen != g_ref_wn || memcmp(S.out, g_ref_wire, g_ref_wn) != 0) {
        /* (a clause of its own for scripts in which a single-octet offer was answered with "nothing
         * taken": sink_put_octet hands that answer to its caller) */
        mc_fail(S.zero_to_one ? "C08/wire-octets-after-zero-length-octet-write" : "C08/wire-octets-when-sink-hesitates", "%s n=%zu content=%d addr=%08x value=%08x, sink answers %s: the emitter returned %d but the wire holds %zu octets that are not the frame (%zu octets)",
                ENAME[m->e], m->n, m->content, m->addr, m->value, script, rc, S.outlen, g_ref_wn);
        mc_log_hex("wire", S.out, S.outlen);
        mc_log_hex("reference", g_ref_wire, g_ref_wn);
        return false;
    }
    g_delivered++;
    return true;
}

static bool
sink_answer_applies(bool octet_sink, int a)
{
    return !(octet_sink && (a == SA_SHORT1 || a == SA_SHORTM1)); /* an octet sink takes the octet or does not */
}

static void
family_sink_answers(bool th)
{
    static const uint32_t SADDR[2] = { 0x64, 0xc0dbdcddu };
    static const uint32_t SVAL[2] = { 0x40, 0xc0dbdcddu };
    static const size_t SSIZE[] = { 0, 1, 2, 3, 5, 8 }; /* the last one in the thorough tier only */
    char script[160];
    for (int e = 0; e < E_COUNT; ++e)
        for (int tcp = 0; tcp < 2; ++tcp)
            for (int m16 = 0; m16 < 2; ++m16)
                for (int anstype = 0; anstype < 2; ++anstype) {
                    if ((e <= E_REQ_WRITE16 || e >= E_META_ENC || e == E_ACK_PAYLOAD) && anstype)
                        continue;
                    for (int osink = 0; osink < 2; ++osink)
                        for (int a1 = 0; a1 < SA_COUNT; ++a1) {
                            if (!sink_answer_applies(osink, a1))
                                continue;
                            if (!mc_case("sink answers: %s %s mem%d answering=%s, %s sink answers %s at call k, alone and with a second deviation at %s x frames",
                                         ENAME[e], tcp ? "tcp" : "serial", m16 ? 16 : 8, anstype ? "write" : "read", osink ? "octet" : "chunk", SANAME[a1],
                                         th ? "every later call" : "call k+1"))
                                continue;
                            bool ok = true;
                            long reached = 0, nemitted = 0, nrefused = 0;
                            g_delivered = g_refusals = 0;
                            const int nsz = emits_with_size(e) ? (int)(sizeof SSIZE / sizeof *SSIZE) - (th ? 0 : 1) : 1;
                            for (int ai = 0; ai < (th ? 7 : 2) && ok; ++ai)
                                for (int zi = 0; zi < nsz && ok; ++zi)
                                    for (int c = 0; c < 3 && ok; ++c) {
                                        /* contents: ramp, all c0, all db (requests without payload and empty blocks: one) */
                                        const bool has_pl = (e == E_REQ_WRITE8 || e == E_REQ_WRITE16 || e == E_ACK_PAYLOAD) && SSIZE[zi] > 0;
                                        if (!emits_with_size(e) ? c > 1 : (!has_pl && c))
                                            continue;
                                        struct emission m;
                                        memset(&m, 0, sizeof m);
                                        m.e = e; m.tcp = tcp; m.m16 = m16; m.anstype = anstype; m.addr = th ? ADDRS[ai] : SADDR[ai]; m.seq = 0x1dc0;
                                        m.n = emits_with_size(e) ? SSIZE[zi] : 0;
                                        m.content = emits_with_size(e) ? c : 0;
                                        m.value = emits_with_size(e) ? 0 : SVAL[c];
                                        /* the undisturbed emission: validates it and yields the reference wire image */
                                        g_have_prev = false;
                                        ok = one(e, tcp, m16, anstype, m.addr, m.seq, m.n, m.content, m.value, true, 0);
                                        if (!ok)
                                            break;
                                        if (g_ref_wn == 0) {
                                            nrefused++; /* refused without emitting: there is no frame to disturb */
                                            continue;
                                        }
                                        nemitted++;
                                        em_prepare(&m);
                                        for (long at = 0; ok; ++at) {
                                            int rc = emit_scripted(&m, osink, at, a1, -1, 0);
                                            if (S.nhit == 0) {
                                                /* the emission needs fewer calls: this one went undisturbed through this kind of sink */
                                                if (rc < 0 && S.outlen == 0 && !S.overrun)
                                                    g_refusals++; /* refused, nothing emitted */
                                                else if (rc < 0) {
                                                    mc_fail("C08/emit-succeeds", "%s returned %d on an undisturbed %s sink with %zu octets on the wire", ENAME[e], rc, osink ? "octet" : "chunk", S.outlen);
                                                    ok = false;
                                                } else
                                                    ok = judge_scripted(&m, rc, "nothing unusual");
                                                break;
                                            }
                                            reached++;
                                            snprintf(script, sizeof script, "%s at call %ld", SANAME[a1], at);
                                            ok = judge_scripted(&m, rc, script);
                                            for (int a2 = 0; a2 < SA_COUNT && ok; ++a2) {
                                                if (!sink_answer_applies(osink, a2))
                                                    continue;
                                                for (long at2 = at + 1; ok && (th || at2 == at + 1); ++at2) {
                                                    rc = emit_scripted(&m, osink, at, a1, at2, a2);
                                                    if (S.nhit < 2)
                                                        break;
                                                    snprintf(script, sizeof script, "%s at call %ld and %s at call %ld", SANAME[a1], at, SANAME[a2], at2);
                                                    ok = judge_scripted(&m, rc, script);
                                                }
                                            }
                                        }
                                        em_release(&m);
                                    }
                            mc_log("%ld frames emitted undisturbed, %ld calls refused without emitting; %ld call positions reached; %ld emissions reported success with exactly the frame on the wire, %ld reported failure",
                                   nemitted, nrefused, reached, g_delivered, g_refusals);
                            /* outcome classes name the script, not the library's reaction to it (a case in
                             * which every call was refused without emitting has a class of its own) */
                            mc_end(reached > 0, !ok ? "failed" : nemitted == 0 ? "refused" : a1 == SA_EIO ? "sink-hard-error" : a1 == SA_ZERO ? "sink-zero-length-write"
                                   : (a1 == SA_SHORT1 || a1 == SA_SHORTM1) ? "sink-short-write" : "sink-retry-request");
                        }
                }
}

/* ---- acknowledgements emitted by regp_process ---------------------------------------- */
/* The acknowledgement of a served read is emitted by the library out of the
 * frame block the request was received into (the data sit behind the request's
 * header: 12 octets on tcp, 14 on serial - a sixteen bit payload then starts
 * at an address that is 2 modulo 4).  How much fits is the allocator's block
 * size: block sizes are a dimension here.  Only what the library acknowledges
 * is judged (whether a read is served is C06's and C09's business): the
 * acknowledgement is the reference encoding of the backend's data and goes
 * through the library's own receiver. */
static void
family_served_reads(bool th, const size_t *sizes, int nsz)
{
    static const size_t BLOCKS[] = { 128, 160, 256, 512, 1024, 2600 };
    static const uint32_t PADDR[2] = { 0x64, 0xc0dbdcddu };
    unsigned char raw[40], wire[96], scratch[DRV_WIRE];
    static unsigned char data[2100];
    char name[96];
    for (int tcp = 0; tcp < 2; ++tcp)
        for (int m16 = 0; m16 < 2; ++m16)
            for (unsigned bi = 0; bi < sizeof BLOCKS / sizeof *BLOCKS; ++bi) {
                if (!mc_case("served reads: regp_process %s mem%d, frame blocks of %zu octets x 2 addresses x read sizes", tcp ? "tcp" : "serial", m16 ? 16 : 8, BLOCKS[bi]))
                    continue;
                bool ok = true;
                long acked = 0, other = 0;
                for (int ai = 0; ai < 2 && ok; ++ai)
                    for (int zi = 0; zi < nsz && ok; ++zi) {
                        const size_t n = sizes[zi];
                        if (n * (m16 ? 2u : 1u) + 80 > BLOCKS[bi])
                            continue; /* cannot fit, whatever the receiver keeps for itself */
                        struct rframe rq;
                        memset(&rq, 0, sizeof rq);
                        rq.type = RT_READ_REQ;
                        rq.options = (m16 ? RO_W16 : 0u) | (tcp ? 0u : RO_HDCRC);
                        rq.seq = (uint16_t)(0xc0da + zi);
                        rq.addr = PADDR[ai];
                        rq.bsize = (uint32_t)n;
                        const size_t rn = rr_build(raw, &rq, false, false);
                        const size_t wn = tcp ? rr_lenprefix(wire, raw, rn) : rr_slip(wire, raw, rn);
                        drv_init(&A, tcp, m16, BLOCKS[bi], false);
                        drv_feed(&A, wire, wn);
                        RPMaybeFrame mf;
                        memset(&mf, 0, sizeof mf);
                        const int rrc = regp_recv(&A.p, &mf);
                        A.outlen = 0;
                        int prc = 0;
                        if (rrc >= 0 && mf.error.id == 0 && mf.frame != NULL)
                            prc = regp_process(&A.p, &mf);
                        mc_trans(2);
                        struct rr_frames fr;
                        struct rframe got;
                        const bool one_frame = A.outlen > 0 && rr_unframe(tcp, A.out, A.outlen, scratch, &fr) == 1 && fr.len[0] >= 12;
                        if (one_frame)
                            (void)rr_verdict(scratch + fr.off[0], fr.len[0], &got);
                        if (!one_frame || got.type != RT_READ_RESP || got.meta != 0 || prc < 0) {
                            other++; /* refused, answered otherwise or not at all: not an acknowledgement */
                        } else {
                            acked++;
                            struct rframe want;
                            memset(&want, 0, sizeof want);
                            want.type = RT_READ_RESP;
                            want.options = (m16 ? RO_W16 : 0u) | (tcp ? 0u : RO_HDCRC) | ((!tcp && n) ? RO_PLCRC : 0u);
                            want.seq = rq.seq;
                            want.addr = rq.addr;
                            want.bsize = (uint32_t)n;
                            want.plen = n * (m16 ? 2u : 1u);
                            for (size_t i = 0; i < want.plen; ++i)
                                data[i] = drv_read_octet(rq.addr, i);
                            want.payload = data;
                            static unsigned char rraw[RR_MAXFRAME];
                            const size_t rrn = rr_build(rraw, &want, false, false);
                            const size_t rwn = tcp ? rr_lenprefix(g_ref_wire, rraw, rrn) : rr_slip(g_ref_wire, rraw, rrn);
                            snprintf(name, sizeof name, "acknowledgement of a read of %zu units at %08x", n, rq.addr);
                            mc_log("%s: %zu octets on the wire", name, A.outlen);
                            if (rwn != A.outlen || memcmp(g_ref_wire, A.out, rwn) != 0) {
                                mc_fail("C08/wire-octets", "%s emitted by regp_process: octets differ from the protocol document's encoding of the backend's data (%zu vs %zu octets)", name, A.outlen, rwn);
                                mc_log_hex("wire", A.out, A.outlen);
                                mc_log_hex("reference", g_ref_wire, rwn);
                                ok = false;
                            } else
                                ok = receive(&want, name, tcp, !m16, 8192, (zi & 1) ? DRV_SRC_OCTET : DRV_SRC_CHUNK, "block of 8192 octets");
                        }
                        if (mf.frame != NULL)
                            regp_free(&A.p, mf.frame);
                        drv_release(&A);
                    }
                mc_log("%ld reads acknowledged, %ld answered otherwise", acked, other);
                mc_end(acked > 0, !ok ? "failed" : acked ? "served-read-roundtrip" : "refused");
            }
    (void)th;
}

/* ---- a session across regp_use_channel ------------------------------------------------ */
/* "Successive requests of a session carry sequence numbers increasing by one":
 * a session starts with regp_init / regp_reset_session; connecting another
 * source and sink - of the same or of the other transport - is neither.
 * Histories: a0 requests, then three times { regp_use_channel(serial | tcp);
 * one or two requests }.  Every emitted request is a valid frame of the
 * transport in use and carries its predecessor's number plus one. */
static void
family_channel_changes(void)
{
    unsigned char scratch[DRV_WIRE];
    static const unsigned char pl[4] = { 0xc0, 0xdb, 3, 4 };
    for (int t0 = 0; t0 < 2; ++t0)
        for (unsigned a0 = 0; a0 < 3; ++a0) {
            if (!mc_case("session across regp_use_channel: %s instance, %u requests, then 3 x { regp_use_channel(serial|tcp); 1 or 2 requests } (64 histories)", t0 ? "tcp" : "serial", a0))
                continue;
            bool ok = true;
            long emitted = 0, changes = 0;
            for (unsigned h = 0; h < 64 && ok; ++h) {
                drv_init(&A, t0, true, 4096, false);
                g_have_prev = false;
                bool tcp = t0;
                unsigned reqno = 0;
                for (int step = -1; step < 3 && ok; ++step) {
                    unsigned nreq = a0;
                    if (step >= 0) {
                        const bool nt = ((h >> (2 * step)) & 1u) != 0;
                        nreq = 1 + ((h >> (2 * step + 1)) & 1u);
                        Source src;
                        Sink snk;
                        chunk_source_init(&src, drv_src_chunk, &A);
                        chunk_sink_init(&snk, drv_sink_chunk, &A);
                        regp_use_channel(&A.p, nt ? RP_EP_TCP : RP_EP_SERIAL, src, snk);
                        mc_trans(1);
                        changes += nt != tcp;
                        tcp = nt;
                    }
                    for (unsigned i = 0; i < nreq && ok; ++i, ++reqno) {
                        A.outlen = 0;
                        const int rc = (reqno % 3 == 1) ? regp_req_write8(&A.p, 0x100 + reqno, 4, pl) : (reqno % 3 == 2) ? regp_req_read8(&A.p, reqno, 2) : regp_req_read16(&A.p, reqno, 1);
                        mc_trans(1);
                        if (rc < 0 && A.outlen == 0)
                            continue; /* refused, nothing emitted */
                        struct rr_frames fr;
                        struct rframe f;
                        if (rc < 0 || rr_unframe(tcp, A.out, A.outlen, scratch, &fr) != 1 || rr_verdict(scratch + fr.off[0], fr.len[0], &f) != RV_OK) {
                            mc_fail("C08/wire-octets", "history %u: request %u (on %s) is not a valid frame (rc=%d, %zu octets on the wire)", h, reqno, tcp ? "tcp" : "serial", rc, A.outlen);
                            ok = false;
                            break;
                        }
                        mc_log("history %u: request %u on %s carries sequence number %u", h, reqno, tcp ? "tcp" : "serial", f.seq);
                        emitted++;
                        char who[80];
                        snprintf(who, sizeof who, "history %u: request %u (on %s, after regp_use_channel)", h, reqno, tcp ? "tcp" : "serial");
                        ok = follows((long)f.seq, who);
                    }
                }
                drv_release(&A);
            }
            mc_log("%ld requests emitted, %ld changes of transport", emitted, changes);
            mc_end(emitted > 0 && changes > 0, !ok ? "failed" : emitted ? "session-across-channels" : "refused");
        }
}

int
main(int argc, char **argv)
{
    mc_init(argc, argv);
    /* anchors: the serial wire images of t-register-protocol.c */
    {
        unsigned char raw[64], wire[64];
        struct rframe f = { 0, RT_READ_REQ, RO_W16 | RO_HDCRC, 0, 0, 0x64, 1, 0, 0, 0, NULL, 0 };
        size_t n = rr_build(raw, &f, false, false);
        MC_ANCHOR(n == 14 && raw[0] == 0x03 && raw[1] == 0x00 && raw[12] == 0x0c && raw[13] == 0xb4, "serial read request image");
        static const unsigned char pl[2] = { 0x64, 0x00 };
        struct rframe g = { 0, RT_READ_RESP, RO_W16 | RO_HDCRC | RO_PLCRC, 0, 0, 0x64, 1, 0, 0, 0, pl, 2 };
        n = rr_build(raw, &g, false, false);
        MC_ANCHOR(n == 18 && raw[0] == 0x07 && raw[1] == 0x10 && raw[12] == 0x8e && raw[13] == 0x9d && raw[14] == 0xc0 && raw[15] == 0x2a, "serial read response image");
        n = rr_slip(wire, raw, n);
        MC_ANCHOR(n == 20 && wire[14] == 0xdb && wire[15] == 0xdc && wire[19] == 0xc0, "SLIP image");
        MC_ANCHOR(rr_crc(0, (const unsigned char *)"123456789", 9) == 0xbb3d, "CRC check value");
    }
    const bool th = mc_thorough();
    static size_t sizes[160];
    int nsz = 0;
    for (size_t s = 0; s <= (th ? 70u : 20u); ++s)
        sizes[nsz++] = s;
    /* boundary sizes: raw frame lengths (12/14/16 octets of header + payload) around 64 and 128
     * (the chunk size of the scratch-buffer source and twice it), the TCP frame at 127/128, ... */
    const size_t extra[] = { 23, 24, 25, 26, 27, 47, 48, 49, 50, 51, 52, 53, 55, 56, 57, 58, 59, 63, 64, 65, 100, 111, 112, 113, 114, 115, 116, 117, 118, 127, 128, 129, 200, 255, 256, 257, 1000 };
    for (unsigned i = 0; i < sizeof extra / sizeof *extra; ++i)
        if (extra[i] > (th ? 70u : 20u))
            sizes[nsz++] = extra[i];
    for (int e = 0; e < E_COUNT; ++e)
        for (int tcp = 0; tcp < 2; ++tcp)
            for (int m16 = 0; m16 < 2; ++m16)
                for (int anstype = 0; anstype < 2; ++anstype) {
                    if (e <= E_REQ_WRITE16 && anstype)
                        continue; /* requests answer nothing */
                    if (e >= E_META_ENC && anstype)
                        continue;
                    if (e == E_ACK_PAYLOAD && anstype)
                        continue; /* doc 3.1.1: write responses carry no payload when acknowledging */
                    for (unsigned ai = 0; ai < sizeof ADDRS / sizeof *ADDRS; ++ai)
                        for (unsigned si = 0; si < 4; ++si) {
                            const bool isreq = e <= E_REQ_WRITE16;
                            const bool isresp = e >= E_ACK_PAYLOAD && e <= E_EIO;
                            if (isreq && !th && SEQS[si] > 1 && ai != 2 && ai != 6)
                                continue; /* quick: long sessions (tens of thousands of earlier requests) for two addresses only */
                            if (!mc_case(isreq ? "%s %s mem%d answering=%s addr=%08x after %u earlier requests of the session x sizes x contents"
                                               : "%s %s mem%d answering=%s addr=%08x seq=%04x x sizes x contents x request option bits",
                                         ENAME[e], tcp ? "tcp" : "serial", m16 ? 16 : 8, anstype ? "write" : "read", ADDRS[ai], SEQS[si]))
                                continue;
                            bool ok = true;
                            long n = 0, refused = 0;
                            if (isreq)
                                ok = new_session(tcp, m16, SEQS[si]);
                            if (emits_with_size(e)) {
                                for (int zi = 0; zi < nsz && ok; ++zi)
                                    for (int c = 0; c < 4 && ok; ++c) {
                                        if ((e == E_REQ_READ8 || e == E_REQ_READ16) && c)
                                            continue;
                                        if (sizes[zi] == 0 && c)
                                            continue;
                                        /* responders: the request's WORD-SIZE-16 bit equal to / different from the attached
                                         * memory; for small blocks also every combination of its two checksum bits */
                                        for (unsigned rv = 0; rv < (isresp ? 8u : 1u) && ok; ++rv) {
                                            if ((rv & 6u) && sizes[zi] > 4)
                                                continue;
                                            ok = one(e, tcp, m16, anstype, ADDRS[ai], SEQS[si], sizes[zi], c, 0, !isreq, rv);
                                            refused += g_refused;
                                            n++;
                                            /* octet payloads: once more from an odd address; sixteen bit payloads:
                                             * once more from an address that is 2 modulo 4 (boundary sizes: also
                                             * 4 and 6 octets behind an aligned address) */
                                            const bool octpl = e == E_REQ_WRITE8 || (e == E_ACK_PAYLOAD && !m16);
                                            const bool wordpl = e == E_REQ_WRITE16 || (e == E_ACK_PAYLOAD && m16);
                                            for (int po = 1; po < 8 && ok && sizes[zi] > 0 && rv < 2; ++po) {
                                                if (!(octpl && po == 1) && !(wordpl && (po == 2 || (sizes[zi] > 20 && c == 0 && (po == 4 || po == 6)))))
                                                    continue;
                                                g_ploff = po;
                                                ok = one(e, tcp, m16, anstype, ADDRS[ai], SEQS[si], sizes[zi], c, 0, !isreq, rv);
                                                g_ploff = 0;
                                                refused += g_refused;
                                                n++;
                                            }
                                        }
                                    }
                            } else {
                                static const uint32_t VAL[] = { 0, 1, 0x40, 0xc0dbdcddu, 0xffffffffu, 0x00c000dbu };
                                for (unsigned vi = 0; vi < 6 && ok; ++vi)
                                    for (unsigned rv = 0; rv < (isresp ? 8u : 1u) && ok; ++rv) {
                                        ok = one(e, tcp, m16, anstype, ADDRS[ai], SEQS[si], 0, 0, VAL[vi], true, rv);
                                        refused += g_refused;
                                        n++;
                                    }
                            }
                            if (isreq)
                                drv_release(&A);
                            mc_log("%ld calls, %ld refused without emitting", n, refused);
                            /* a case in which no frame was emitted is trivial and has a class of its own */
                            mc_end(n > refused, !ok ? "failed" : n == refused ? "refused" : e <= E_REQ_WRITE16 ? "request-roundtrip" : e <= E_ACK_EMPTY ? "ack-roundtrip"
                                   : e <= E_EIO ? "error-response-roundtrip" : "meta-roundtrip");
                        }
                }
    /* sequence numbering: 65537 consecutive requests on one session */
    for (int tcp = 0; tcp < 2; ++tcp) {
        if (!mc_case("sequence numbering over 65537 consecutive requests, %s", tcp ? "tcp" : "serial"))
            continue;
        drv_init(&A, tcp, true, 4096, false);
        bool ok = true;
        static const unsigned char pl[4] = { 1, 2, 3, 4 };
        unsigned char scratch[DRV_WIRE];
        long first = -1;
        uint32_t emitted = 0; /* requests that were not refused */
        /* the request the interleaved responses answer: received by the instance itself */
        struct emission rqm;
        memset(&rqm, 0, sizeof rqm);
        rqm.e = E_ACK_EMPTY; rqm.tcp = tcp; rqm.m16 = true; rqm.anstype = 1; rqm.addr = 0x64; rqm.seq = 0x7777;
        em_prepare(&rqm);
        const bool have_rq = em_receive_request(&rqm, &A);
        for (uint32_t i = 0; i <= 65536 && ok; ++i) {
            if (i % 5 == 3) {
                /* responses sent in between are not requests of the session */
                A.outlen = 0;
                if (have_rq)
                    (void)regp_resp_ack(&A.p, rqm.req, NULL, 0);
                (void)regp_resp_meta(&A.p, RP_META_EHEADERCRC);
                mc_trans(2);
            }
            A.outlen = 0;
            int rc;
            switch (i & 3) {
            case 0: rc = regp_req_read16(&A.p, i, 1); break;
            case 1: rc = regp_req_write8(&A.p, i, 4, pl); break;
            case 2: rc = regp_req_read8(&A.p, i, 2); break;
            default: rc = regp_req_write16(&A.p, i, 2, (const uint16_t *)(const void *)pl); break;
            }
            mc_trans(1);
            struct rr_frames fr;
            struct rframe f;
            if (rc < 0 && A.outlen == 0)
                continue; /* refused, nothing emitted: not a request of the session */
            if (rc < 0 || rr_unframe(tcp, A.out, A.outlen, scratch, &fr) != 1 || rr_verdict(scratch + fr.off[0], fr.len[0], &f) != RV_OK) {
                mc_fail("C08/wire-octets", "request %u is not a valid frame (rc=%d, %zu octets on the wire)", i, rc, A.outlen);
                ok = false;
            } else {
                if (first < 0)
                    first = f.seq; /* the statement does not fix the first number of a session */
                if (f.seq != (uint16_t)(first + emitted)) {
                    mc_fail("C08/sequence-increments", "emitted request number %u (call %u) carries sequence %u; the first request of the session carried %ld", emitted, i, f.seq, first);
                    ok = false;
                }
                emitted++;
            }
        }
        em_drop_request(&rqm, &A);
        em_release(&rqm);
        drv_release(&A);
        mc_log("%u of 65537 calls emitted a request", emitted);
        /* fewer than 2^16 + 1 emitted requests do not show the wrap */
        mc_end(emitted > 65536, !ok ? "failed" : emitted > 65536 ? "sequence-wraps" : emitted ? "sequence-partly-refused" : "refused");
    }
    family_sink_answers(th);
    family_served_reads(th, sizes, nsz);
    family_channel_changes();
    mc_finish(true, th ? "19 emitters x 2 transports x 2 memory widths x answered type x 7 addresses x 4 sequence numbers x sizes {0..70, boundary sizes up to 1000} x 4 contents (octet payloads at an even and an odd address, sixteen bit payloads 0 and 2 octets behind an aligned address, boundary sizes also 4 and 6) / 6 payload values x request option bits (word size equal/different; all 8 combinations for blocks <= 4; request frames as returned by the responder's own regp_recv, refused variants left out) x 3 receivers (block of 4096; blocks whose capacity, learned from the receiver's own answers to reference requests, is exactly the frame length / one octet more); 65537 consecutive requests per transport; sink answers: 19 emitters x 2 transports x 2 memory widths x octet/chunk sink x {EAGAIN, EINTR, short write 1, short write n-1, zero-length write, EIO} at every call position x a second answer at every later call position, frames of 0..8 units x 3 contents x 7 addresses / 2 payload values; acknowledgements emitted by regp_process for served reads: 2 transports x 2 memory widths x frame blocks of {128, 160, 256, 512, 1024, 2600} octets x 2 addresses x every size of the list that can fit; sessions across regp_use_channel: 2 initial transports x 0..2 requests x 3 x {use_channel(serial|tcp); 1|2 requests}"
                       : "19 emitters x 2 transports x 2 memory widths x answered type x 7 addresses x 4 sequence numbers x sizes {0..20, boundary sizes up to 1000} x 4 contents (octet payloads at an even and an odd address, sixteen bit payloads 0 and 2 octets behind an aligned address, boundary sizes also 4 and 6) / 6 payload values x request option bits (word size equal/different; all 8 combinations for blocks <= 4; request frames as returned by the responder's own regp_recv, refused variants left out) x 3 receivers (block of 4096; blocks whose capacity, learned from the receiver's own answers to reference requests, is exactly the frame length / one octet more); 65537 consecutive requests per transport; sink answers: 19 emitters x 2 transports x 2 memory widths x octet/chunk sink x {EAGAIN, EINTR, short write 1, short write n-1, zero-length write, EIO} at every call position x a second answer at the following call, frames of 0..5 units x 3 contents x 2 addresses / 2 payload values; acknowledgements emitted by regp_process for served reads: 2 transports x 2 memory widths x frame blocks of {128, 160, 256, 512, 1024, 2600} octets x 2 addresses x every size of the list that can fit; sessions across regp_use_channel: 2 initial transports x 0..2 requests x 3 x {use_channel(serial|tcp); 1|2 requests}");
    return 0;
}
