/*
 * C17 (third harness) -- large-scope transfers: counts N and single driver
 * answers around 2^31, 2^32 and 2^33.
 *
 * The driver contract (endpoints/core.c) lets a chunk-style driver answer any
 * count from 0 to what it was asked for, and the statement quantifies over
 * "any mix of partial transfers, zero-length returns and EINTR/EAGAIN" for
 * every N up to SSIZE_MAX (here: up to 2^33+2^20).  A 64-bit count that passes through a narrower or
 * signed variable on its way through a retry loop changes meaning exactly at
 * these boundaries: 2^32-4 and 2^32-11 read as -EINTR / -EAGAIN in 32 bits,
 * 2^32-5 / -12 / -22 / -32 / -61 as hard error codes, 2^31 as a negative
 * number, 2^32 as "nothing moved".  So the alphabet of driver answers here is
 * a structured boundary family of exactly those counts (clamped to what was
 * asked, so every answer is admissible), next to {rest, asked-1 (but at least
 * one octet), 0, EINTR, EAGAIN, hard error}.
 *
 * Nothing of this needs the octets to exist.  The chunk drivers of this file
 * never touch the memory they are handed; they identify the octets of a call
 * by *where* the range lies:
 *   one driver  (source_get_chunk, sink_put_chunk, the two at-most forms):
 *       the call that follows `moved` octets has to name the caller's block at
 *       offset `moved` -- anything else puts stream octets in the wrong place
 *       (get) or hands the sink other octets than the next ones (put);
 *   two drivers (the four *_aux forms, and sts_n / sts_atmost / sts_some /
 *       sts_drain through a source that offers a scratch region): every range
 *       the source fills is recorded as (offset in the block, length, stream
 *       position); the octets a sink call accepts are looked up in that record
 *       and have to be the next octets of the stream.
 * The block itself is an 8 GiB anonymous mapping that is never touched (no
 * page of it is ever instantiated).  Every length the caller claims for a block
 * it passes (destination of a get, origin of a put, auxiliary buffer) lies
 * inside that mapping (audit 6: the caller's block is real memory; a library
 * that, say, wipes the delivered part of the destination when an exact read
 * fails may touch all of what it was given).  Multi-GiB counts inside the
 * mapping are enough for the 2^31 / 2^32 / 2^33 arithmetic; counts beyond
 * SSIZE_MAX ("refused as invalid") are c17_endpoints.c's.
 *
 * The oracle is the one of c17_endpoints.c, on 64-bit counters (one endpoint:
 * a hard driver error is returned unchanged; plumbing: a failing call returns
 * an error, whichever; at-most forms: a short positive count is right whenever
 * a hard answer followed progress).
 */
#include "mc.h"

#include <errno.h>
#include <limits.h>
#include <setjmp.h>
#include <time.h>

#include <ufw/compat/errno.h>
#include <ufw/compat/ssize-t.h>
#include <ufw/endpoints.h>

#define P31 (1ull << 31)
#define P32 (1ull << 32)
#define P33 (1ull << 33)
#define ARENA_SIZE (P33 + (1ull << 20))
#define SSZ ((uint64_t)SSIZE_MAX)

static unsigned char *ARENA;

/* ------------------------------------------------------------------------ */
/* answers                                                                  */

enum tok { T_REST, T_KM1, T_ZERO, T_EINTR, T_EAGAIN, T_EIO, T_VAL };
static const uint64_t VAL[] = {
    1, 65536,
    P31 - 1, P31, P31 + 1,                       /* sign bit of a 32-bit count */
    P32 - ENODATA, P32 - EPIPE, P32 - EINVAL,    /* low 32 bits = a hard error code */
    P32 - ENOMEM, P32 - EAGAIN, P32 - EAGAIN + 1,
    P32 - EIO, P32 - EINTR, P32 - EINTR + 1,
    P32 - 1, P32, P32 + 1,                       /* low 32 bits = -1, 0, 1 */
    3 * P31,                                     /* negative in 32 bits, beyond 2^32 */
    P33 - EAGAIN, P33 - EINTR,
};
#define NVAL ((int)(sizeof VAL / sizeof *VAL))
#define NTOK (T_VAL + NVAL)

static const char *
tokname(int t, char *buf, size_t n)
{
    static const char *const fixed[] = { "r", "k", "0", "EINTR", "EAGAIN", "EIO" };
    if (t < T_VAL)
        return fixed[t];
    snprintf(buf, n, "%llu", (unsigned long long)VAL[t - T_VAL]);
    return buf;
}

/* ------------------------------------------------------------------------ */
/* drivers                                                                  */

struct hd {
    bool is_sink;
    const uint8_t *script;
    int slen, pos;
    int calls, budget;
    uint64_t total; /* source: length of the stream */
    uint64_t moved; /* octets handed out (source) / accepted (sink) */
    bool ended;
};

#define MAXFILL 48
static struct {
    jmp_buf jb;
    struct hd src, snk;
    bool two_sided;
    /* the block under observation: one driver -> the caller's buffer; two
     * drivers -> the auxiliary buffer / the scratch block offered by the source */
    uintptr_t area;
    uint64_t area_size, reg_off, reg_used;
    bool strict;   /* ranges handed to drivers have to lie in the designated region */
    bool alt_free; /* ... or in the free octets [used, size), the other reading (aux forms) */
    struct { uint64_t a, len, s; } fill[MAXFILL];
    int nfill;
    /* observations */
    bool over, untracked;
    int idle;
    bool bad_order, bad_region;
    int bad_call;
    long long bad_off;
    uint64_t bad_len, bad_expected, bad_found;
    bool bad_unfilled;
    int first_hard, first_scripted_hard;
    bool seen_eintr, seen_eagain;
    int partials, zeros, intrs, hards, ends;
    int wides; /* scripted answers that offered >= 2^31 octets at once */
} E;

static void
note_hard(int code, bool scripted)
{
    if (E.first_hard == 0)
        E.first_hard = code;
    if (scripted && E.first_scripted_hard == 0)
        E.first_scripted_hard = code;
}

/* the sink accepted t octets at offset o of the block: which stream octets are they? */
static void
lookup_accepted(uint64_t o, uint64_t t, uint64_t expect, int call)
{
    uint64_t pos = o, left = t;
    while (left > 0) {
        int f = -1;
        for (int i = E.nfill - 1; i >= 0; --i)
            if (E.fill[i].a <= pos && pos - E.fill[i].a < E.fill[i].len) {
                f = i;
                break;
            }
        if (f < 0) {
            if (!E.bad_order) {
                E.bad_order = E.bad_unfilled = true;
                E.bad_call = call;
                E.bad_off = (long long)pos;
                E.bad_expected = expect;
            }
            return;
        }
        const uint64_t s = E.fill[f].s + (pos - E.fill[f].a);
        if (s != expect) {
            if (!E.bad_order) {
                E.bad_order = true;
                E.bad_call = call;
                E.bad_off = (long long)pos;
                E.bad_expected = expect;
                E.bad_found = s;
            }
            return;
        }
        uint64_t step = E.fill[f].a + E.fill[f].len - pos;
        for (int g = f + 1; g < E.nfill; ++g) /* a later fill took over behind pos */
            if (E.fill[g].a > pos && E.fill[g].a - pos < step)
                step = E.fill[g].a - pos;
        if (step > left)
            step = left;
        pos += step;
        left -= step;
        expect += step;
    }
}

/* returns false when the range must not be used (the driver then answers a hard error) */
static bool
observe(struct hd *d, uintptr_t p, uint64_t asked, uint64_t t)
{
    if (!E.two_sided) {
        if (p != E.area + d->moved && !E.bad_order) {
            E.bad_order = true;
            E.bad_call = d->calls;
            E.bad_off = (long long)(intptr_t)(p - E.area);
            E.bad_expected = d->moved;
        }
        return true;
    }
    if (asked == 0)
        return true;
    if (p + asked <= E.area || p >= E.area + E.area_size) {
        /* memory of the implementation's own: its content cannot be followed
         * at this scale (the drivers do not write), so nothing is judged */
        E.untracked = true;
        return true;
    }
    const uint64_t o = (uint64_t)(p - E.area);
    bool ok = p >= E.area && asked <= E.area_size && o <= E.area_size - asked;
    if (ok && E.strict)
        ok = (o >= E.reg_off && o <= E.reg_used && asked <= E.reg_used - o)
            || (E.alt_free && o >= E.reg_used && asked <= E.area_size - o);
    if (!ok) {
        if (!E.bad_region) {
            E.bad_region = true;
            E.bad_call = d->calls;
            E.bad_off = (long long)(intptr_t)(p - E.area);
            E.bad_len = asked;
        }
        return false;
    }
    if (E.untracked || t == 0)
        return true;
    if (d->is_sink) {
        lookup_accepted(o, t, d->moved, d->calls);
    } else if (E.nfill < MAXFILL) {
        E.fill[E.nfill].a = o;
        E.fill[E.nfill].len = t;
        E.fill[E.nfill].s = d->moved;
        E.nfill++;
    } else {
        E.untracked = true;
    }
    return true;
}

static ssize_t
answer(struct hd *d, const void *ptr, size_t asked)
{
    char tb[24];
    const char *who = d->is_sink ? "snk" : "src";
    d->calls++;
    if (d->calls > d->budget) {
        /* leave the library: whether this is a loop that does not end or an
         * implementation that asks for little at a time is decided by what
         * the calls so far looked like */
        E.over = true;
        longjmp(E.jb, 1);
    }
    int tk = T_REST;
    const bool scripted = d->pos < d->slen;
    if (scripted)
        tk = d->script[d->pos++];
    if (!scripted && (asked == 0 || (!d->is_sink && d->total == d->moved)))
        E.idle++; /* a call that cannot move anything, not provoked by the script */
    ssize_t ans = 0;
    switch (tk) {
    case T_ZERO:
        E.zeros++;
        break;
    case T_EINTR:
        ans = -EINTR;
        E.seen_eintr = true;
        E.intrs++;
        break;
    case T_EAGAIN:
        ans = -EAGAIN;
        E.seen_eagain = true;
        E.intrs++;
        break;
    case T_EIO:
        ans = -EIO;
        E.hards++;
        note_hard(-EIO, true);
        break;
    default: {
        const uint64_t want = tk == T_REST ? asked : tk == T_KM1 ? (asked > 1 ? asked - 1u : asked) : VAL[tk - T_VAL];
        uint64_t t = want < asked ? want : asked;
        if (t > SSZ)
            t = SSZ;
        uint64_t could = asked;
        if (!d->is_sink) {
            const uint64_t left = d->total - d->moved;
            if (left == 0) {
                ans = -ENODATA;
                d->ended = true;
                E.ends++;
                note_hard(-ENODATA, false);
                break;
            }
            if (could > left)
                could = left;
            if (t > left)
                t = left;
        }
        if (!observe(d, (uintptr_t)ptr, asked, t)) {
            ans = -EIO;
            break;
        }
        d->moved += t;
        if (asked > 0 && t == 0)
            E.zeros++;
        else if (t < could)
            E.partials++;
        /* driver-side class: the script offered a single answer of 2^31
         * octets or more (what reaches the library is that clamped to what it
         * asked for; how much it asks for in one call is its own business) */
        if (tk >= T_VAL && want >= P31)
            E.wides++;
        ans = (ssize_t)t;
    }
    }
    mc_log("%s call %d: offset %lld of the block, asked=%zu, script=%s -> %zd", who, d->calls,
           (long long)(intptr_t)((uintptr_t)ptr - E.area), asked, tokname(tk, tb, sizeof tb), ans);
    return ans;
}

static ssize_t cb_source(void *drv, void *data, size_t n) { return answer(drv, data, n); }
static ssize_t cb_sink(void *drv, const void *data, size_t n) { return answer(drv, data, n); }

static ByteBuffer
cb_getbuffer(Source *s)
{
    (void)s;
    ByteBuffer b;
    b.data = (unsigned char *)E.area;
    b.size = E.area_size;
    b.used = E.reg_used;
    b.offset = E.reg_off;
    return b;
}

/* ------------------------------------------------------------------------ */
/* one case                                                                 */

enum op {
    H_GET, H_PUT, H_GET_ATMOST, H_PUT_ATMOST,
    H_SOME_AUX, H_ATMOST_AUX, H_N_AUX, H_DRAIN_AUX,
    H_GB_SOME, H_GB_ATMOST, H_GB_N, H_GB_DRAIN, H__N
};
static const char *const OPNAME[] = {
    "source_get_chunk", "sink_put_chunk", "source_get_chunk_atmost", "sink_put_chunk_atmost",
    "sts_some_aux", "sts_atmost_aux", "sts_n_aux", "sts_drain_aux",
    "sts_some", "sts_atmost", "sts_n", "sts_drain"
};
static bool op_one(int op) { return op <= H_PUT_ATMOST; }
static bool op_get(int op) { return op == H_GET || op == H_GET_ATMOST; }
static bool op_aux(int op) { return op >= H_SOME_AUX && op <= H_DRAIN_AUX; }
static bool op_gb(int op) { return op >= H_GB_SOME; }
static bool op_counted(int op) { return op == H_N_AUX || op == H_GB_N; }
static bool op_drain(int op) { return op == H_DRAIN_AUX || op == H_GB_DRAIN; }

#define MAXSLOTS 4
struct casep {
    int op;
    uint64_t n, L;
    uint64_t off, used, size; /* aux buffer / scratch geometry */
    uint8_t s_src[MAXSLOTS], s_snk[MAXSLOTS];
    int slen_src, slen_snk;
};

static bool intr_code(ssize_t rc) { return rc == -EINTR || rc == -EAGAIN; }
static bool intr_seen(ssize_t rc) { return (rc == -EINTR && E.seen_eintr) || (rc == -EAGAIN && E.seen_eagain); }

static const char *
class_ok(void)
{
    if (E.wides && E.partials)
        return (E.zeros || E.intrs) ? "huge-ok-after-wide-partial-and-interruption" : "huge-ok-after-wide-partial";
    if (E.partials)
        return "huge-ok-after-partial";
    if (E.zeros || E.intrs)
        return "huge-ok-after-interruption";
    return "huge-ok-default-driver";
}

static volatile ssize_t run_rc;

static const char *
run_case(const struct casep *c, bool *nontrivial)
{
    const int op = c->op;
    memset(&E, 0, sizeof E);
    struct hd *S = &E.src, *K = &E.snk;
    S->script = c->s_src;
    S->slen = c->slen_src;
    K->is_sink = true;
    K->script = c->s_snk;
    K->slen = c->slen_snk;
    S->budget = K->budget = 4 * (c->slen_src + c->slen_snk) + 24;
    E.two_sided = !op_one(op);
    E.area = (uintptr_t)ARENA;
    if (op_one(op)) {
        S->total = UINT64_MAX;
        E.area_size = c->n;
    } else {
        S->total = c->L;
        E.area_size = c->size;
        E.reg_off = c->off;
        E.reg_used = c->used;
        E.strict = (op == H_SOME_AUX || op == H_ATMOST_AUX || op_gb(op));
        E.alt_free = op_aux(op);
    }
    Source source;
    Sink sink;
    chunk_source_init(&source, cb_source, S);
    chunk_sink_init(&sink, cb_sink, K);
    if (op_gb(op))
        source.ext.getbuffer = cb_getbuffer;
    ByteBuffer aux;
    aux.data = ARENA;
    aux.size = c->size;
    aux.used = c->used;
    aux.offset = c->off;

    run_rc = 0;
    if (setjmp(E.jb) == 0) {
        ssize_t rc = 0;
        switch (op) {
        case H_GET: rc = source_get_chunk(&source, ARENA, c->n); break;
        case H_PUT: rc = sink_put_chunk(&sink, ARENA, c->n); break;
        case H_GET_ATMOST: rc = source_get_chunk_atmost(&source, ARENA, c->n); break;
        case H_PUT_ATMOST: rc = sink_put_chunk_atmost(&sink, ARENA, c->n); break;
        case H_SOME_AUX: rc = sts_some_aux(&source, &sink, &aux); break;
        case H_ATMOST_AUX: rc = sts_atmost_aux(&source, &sink, &aux, c->n); break;
        case H_N_AUX: rc = sts_n_aux(&source, &sink, &aux, c->n); break;
        case H_DRAIN_AUX: rc = sts_drain_aux(&source, &sink, &aux); break;
        case H_GB_SOME: rc = sts_some(&source, &sink); break;
        case H_GB_ATMOST: rc = sts_atmost(&source, &sink, c->n); break;
        case H_GB_N: rc = sts_n(&source, &sink, c->n); break;
        case H_GB_DRAIN: rc = sts_drain(&source, &sink); break;
        }
        run_rc = rc;
    }
    const ssize_t rc = run_rc;
    mc_trans(1 + S->calls + K->calls);
    mc_log("returned %zd; source: %d calls, %llu octets handed out%s; sink: %d calls, %llu octets accepted", rc, S->calls,
           (unsigned long long)S->moved, S->ended ? ", end reached" : "", K->calls, (unsigned long long)K->moved);

    *nontrivial = (E.partials + E.zeros + E.intrs + E.hards + E.ends) > 0;

    if (E.over) {
        /* Every answer after the script is "everything asked".  Calls that
         * went on beyond the budget while each of them moved octets, in
         * place and within the count, come from an implementation that asks
         * its driver for less than it could (how much it asks for is not
         * judged); a count near SSIZE_MAX cannot be followed to its end
         * then.  Anything else is a loop that does not end. */
        const bool within = op_one(op) ? (op_get(op) ? S : K)->moved <= c->n
                                       : (K->moved <= S->moved && (!(op_counted(op) || op == H_ATMOST_AUX || op == H_GB_ATMOST) || S->moved <= c->n));
        if (E.idle == 0 && !E.bad_order && !E.bad_region && within) {
            *nontrivial = false;
            return "huge-slow-implementation";
        }
        mc_fail("C17/hang", "%s kept calling its drivers: source %d calls, sink %d calls (budget %d each), %llu octets taken from the source, %llu accepted by the sink",
                OPNAME[op], S->calls, K->calls, S->budget, (unsigned long long)S->moved, (unsigned long long)K->moved);
        *nontrivial = true;
        return "hang";
    }

    /* ---- one driver ---- */
    if (op_one(op)) {
        const bool get = op_get(op);
        const struct hd *d = get ? S : K;
        const uint64_t moved = d->moved;
        if (E.bad_order) {
            mc_fail("C17/in-order", "driver call %d was handed the memory at offset %lld of the caller's block, but %llu octets had been %s before it",
                    E.bad_call, E.bad_off, (unsigned long long)E.bad_expected, get ? "delivered" : "accepted");
            return "violation";
        }
        if (op == H_GET || op == H_PUT) {
            if (E.first_hard != 0) {
                if (rc != E.first_hard)
                    mc_fail("C17/hard-error-unchanged", "driver answered %d, %s returned %zd", E.first_hard, OPNAME[op], rc);
                return "huge-hard-error";
            }
            if (rc < 0 || (uint64_t)rc != c->n) {
                if (intr_code(rc))
                    mc_fail("C17/retry-interruptions", "%s(N=%llu) returned %zd instead of retrying", OPNAME[op],
                            (unsigned long long)c->n, rc);
                else
                    mc_fail("C17/exact-count", "%s(N=%llu) returned %zd (%llu octets moved)", OPNAME[op],
                            (unsigned long long)c->n, rc, (unsigned long long)moved);
                return "violation";
            }
            if (moved != c->n) {
                mc_fail(get ? "C17/source-advance" : "C17/in-order", "%s(N=%llu) returned %zd but %llu octets %s", OPNAME[op],
                        (unsigned long long)c->n, rc, (unsigned long long)moved,
                        get ? "were taken from the source" : "reached the sink");
                return "violation";
            }
            return class_ok();
        }
        /* at-most forms */
        if (moved > c->n || (rc > 0 && (uint64_t)rc > c->n)) {
            mc_fail("C17/atmost-bound", "%s asked for at most %llu: %llu moved, returned %zd", OPNAME[op],
                    (unsigned long long)c->n, (unsigned long long)moved, rc);
            return "violation";
        }
        if (rc >= 0) {
            /* a hard answer after some progress may be reported as the short
             * positive count (read(2)/write(2)); with nothing moved the error is owed */
            if (E.first_hard != 0 && moved == 0) {
                mc_fail("C17/hard-error-unchanged", "driver answered %d, %s moved nothing and returned %zd", E.first_hard, OPNAME[op], rc);
                return "violation";
            }
            if ((uint64_t)rc != moved) {
                mc_fail("C17/atmost-count", "%s(at most %llu) returned %zd but moved %llu octets", OPNAME[op],
                        (unsigned long long)c->n, rc, (unsigned long long)moved);
                return "violation";
            }
            return moved == c->n ? "huge-atmost-full" : (E.wides ? "huge-atmost-short-wide" : "huge-atmost-short");
        }
        if (E.first_hard != 0) {
            if (rc != E.first_hard)
                mc_fail("C17/hard-error-unchanged", "driver answered %d, %s returned %zd", E.first_hard, OPNAME[op], rc);
            return "huge-hard-error";
        }
        if (intr_code(rc) && intr_seen(rc)) {
            if (moved != 0)
                mc_fail("C17/atmost-count", "%s reported the interruption %zd after moving %llu octets", OPNAME[op], rc,
                        (unsigned long long)moved);
            return "huge-atmost-interrupted";
        }
        mc_fail("C17/atmost-count", "%s returned %zd, which no driver answered (%llu octets moved)", OPNAME[op], rc,
                (unsigned long long)moved);
        return "violation";
    }

    /* ---- two drivers ---- */
    if (E.bad_region) {
        mc_fail("C17/aux-region", "driver call %d was handed %llu octets at offset %lld of a block of %llu octets whose designated region is [%llu, %llu)",
                E.bad_call, (unsigned long long)E.bad_len, E.bad_off, (unsigned long long)c->size,
                (unsigned long long)c->off, (unsigned long long)c->used);
        return "aux-region";
    }
    if (E.untracked) {
        *nontrivial = false;
        return "huge-untracked";
    }
    if (E.bad_order || K->moved > S->moved) {
        if (E.bad_unfilled)
            mc_fail("C17/sink-prefix", "sink call %d accepted the octet at offset %lld of the block as stream octet %llu, but the source never filled it",
                    E.bad_call, E.bad_off, (unsigned long long)E.bad_expected);
        else if (E.bad_order)
            mc_fail("C17/sink-prefix", "sink call %d accepted stream octet %llu (offset %lld of the block) where octet %llu of the stream was due",
                    E.bad_call, (unsigned long long)E.bad_found, E.bad_off, (unsigned long long)E.bad_expected);
        else
            mc_fail("C17/sink-prefix", "source handed out %llu octets, sink accepted %llu", (unsigned long long)S->moved,
                    (unsigned long long)K->moved);
        return "violation";
    }
    if (op_drain(op)) {
        /* plumbing: "when it fails, an error is returned" (any negative code); a
         * drain that went on after a hard answer and moved the whole stream did
         * not fail */
        if (E.first_scripted_hard != 0 && !(K->moved == c->L && S->moved == c->L)) {
            if (rc >= 0)
                mc_fail("C17/failure-is-error", "driver answered %d, %s stopped after %llu of %llu octets and returned %zd",
                        E.first_scripted_hard, OPNAME[op], (unsigned long long)K->moved, (unsigned long long)c->L, rc);
            return "huge-drain-hard-error";
        }
        if (K->moved != c->L || S->moved != c->L) {
            if (intr_code(rc))
                mc_fail("C17/retry-interruptions", "%s stopped with %zd after %llu of %llu octets", OPNAME[op], rc,
                        (unsigned long long)K->moved, (unsigned long long)c->L);
            else
                mc_fail("C17/drain-complete", "%s returned %zd with %llu of %llu octets in the sink (%llu taken from the source)",
                        OPNAME[op], rc, (unsigned long long)K->moved, (unsigned long long)c->L, (unsigned long long)S->moved);
            return "violation";
        }
        return (E.wides && E.partials) ? "huge-drain-complete-after-wide-partial" : "huge-drain-complete";
    }
    if (op_counted(op)) {
        if (K->moved > c->n || S->moved > c->n) {
            mc_fail("C17/exact-count", "%s(n=%llu) took %llu octets from the source and put %llu into the sink", OPNAME[op],
                    (unsigned long long)c->n, (unsigned long long)S->moved, (unsigned long long)K->moved);
            return "violation";
        }
        /* after a hard answer: a negative return reports the failure (any code); a
         * non-negative one is only right if the call did not fail after all */
        if (E.first_hard != 0 && rc < 0)
            return E.first_hard == -ENODATA && E.first_scripted_hard == 0 ? "huge-source-end" : "huge-hard-error";
        if (E.first_hard != 0 && !((uint64_t)rc == c->n && K->moved == c->n && S->moved == c->n)) {
            mc_fail("C17/failure-is-error", "driver answered %d, %s(n=%llu) returned %zd with %llu octets in the sink (%llu taken from the source)",
                    E.first_hard, OPNAME[op], (unsigned long long)c->n, rc, (unsigned long long)K->moved, (unsigned long long)S->moved);
            return "violation";
        }
        if (rc < 0 || (uint64_t)rc != c->n) {
            if (intr_code(rc))
                mc_fail("C17/retry-interruptions", "%s(n=%llu) returned %zd instead of retrying (%llu octets in the sink)", OPNAME[op],
                        (unsigned long long)c->n, rc, (unsigned long long)K->moved);
            else
                mc_fail("C17/exact-count", "%s(n=%llu) returned %zd (%llu octets in the sink)", OPNAME[op],
                        (unsigned long long)c->n, rc, (unsigned long long)K->moved);
            return "violation";
        }
        if (K->moved != c->n) {
            mc_fail("C17/exact-count", "%s(n=%llu) returned %zd but %llu octets reached the sink", OPNAME[op],
                    (unsigned long long)c->n, rc, (unsigned long long)K->moved);
            return "violation";
        }
        if (S->moved != c->n) {
            mc_fail("C17/source-advance", "%s(n=%llu) took %llu octets from the source", OPNAME[op],
                    (unsigned long long)c->n, (unsigned long long)S->moved);
            return "violation";
        }
        return class_ok();
    }
    /* at-most style plumbing */
    {
        const bool bounded = (op == H_ATMOST_AUX || op == H_GB_ATMOST);
        if (bounded && (K->moved > c->n || S->moved > c->n)) {
            mc_fail("C17/atmost-bound", "%s asked for at most %llu: %llu taken from the source, %llu put into the sink", OPNAME[op],
                    (unsigned long long)c->n, (unsigned long long)S->moved, (unsigned long long)K->moved);
            return "violation";
        }
        if (rc >= 0) {
            if (E.first_hard != 0 && K->moved == 0) {
                mc_fail("C17/failure-is-error", "driver answered %d, nothing reached the sink, %s returned %zd", E.first_hard, OPNAME[op], rc);
                return "violation";
            }
            if ((uint64_t)rc != K->moved) {
                mc_fail("C17/atmost-count", "%s returned %zd but %llu octets reached the sink", OPNAME[op], rc,
                        (unsigned long long)K->moved);
                return "violation";
            }
            if (S->moved != K->moved) {
                mc_fail("C17/no-loss", "%s returned %zd: %llu octets taken from the source, %llu reached the sink", OPNAME[op], rc,
                        (unsigned long long)S->moved, (unsigned long long)K->moved);
                return "violation";
            }
            return rc == 0 ? "huge-plumb-moved-none" : class_ok();
        }
        if (E.first_hard != 0) /* "when it fails, an error is returned": any negative code */
            return E.first_hard == -ENODATA && E.first_scripted_hard == 0 ? "huge-source-end" : "huge-hard-error";
        if (intr_code(rc) && intr_seen(rc)) {
            if (S->moved != K->moved)
                mc_fail("C17/no-loss", "%s passed on the interruption %zd after taking %llu octets from the source (%llu reached the sink)",
                        OPNAME[op], rc, (unsigned long long)S->moved, (unsigned long long)K->moved);
            return "huge-plumb-interrupted";
        }
        /* a count beyond SSIZE_MAX may be served (it bounds nothing) or refused, as long as nothing is lost */
        if (bounded && c->n > SSZ && S->moved == K->moved)
            return "huge-atmost-wide-n-refused";
        mc_fail("C17/atmost-count", "%s returned %zd, which no driver answered", OPNAME[op], rc);
        return "violation";
    }
}

/* ------------------------------------------------------------------------ */
/* probe: does the operation leave a block it is given alone?                */

/* The large-scope cases rest on the block never being touched (8 GiB per
 * process otherwise).  The library only passes its addresses on, but an
 * implementation is free to do more with memory it was given (move the content
 * of an auxiliary buffer even when there is nothing to move, say).  So every
 * operation is first run once on a 64 MiB mapping with drivers that take
 * everything at once, and the pages of that mapping are counted afterwards: if
 * the operation instantiated more than a handful, its large-scope cases are
 * numbered but not run and the run is marked incomplete -- never a violation. */
#define PROBE_SIZE ((uint64_t)64 << 20)
static bool probe_ok[64];

static struct casep probe_case(int op, uint64_t size);

static size_t
resident_pages(unsigned char *m, uint64_t size, unsigned char *vec)
{
    const uint64_t pagesz = (uint64_t)sysconf(_SC_PAGESIZE);
    if (mincore(m, size, vec) != 0)
        mc_broken("mincore failed on the probe mapping");
    size_t resident = 0;
    for (uint64_t i = 0; i < size / pagesz; ++i)
        resident += vec[i] & 1u;
    return resident;
}

static void
probes(int nops)
{
    unsigned char *const arena = ARENA;
    const uint64_t pagesz = (uint64_t)sysconf(_SC_PAGESIZE);
    unsigned char *vec = malloc((size_t)(ARENA_SIZE / pagesz) + 1u);
    if (vec == NULL)
        mc_broken("cannot set up the probe");
    for (int op = 0; op < nops; ++op) {
        bool nt;
        /* stage 1: a block of 64 MiB */
        unsigned char *m = mmap(NULL, PROBE_SIZE, PROT_READ | PROT_WRITE, MAP_PRIVATE | MAP_ANONYMOUS | MAP_NORESERVE, -1, 0);
        if (m == MAP_FAILED)
            mc_broken("cannot set up the probe mapping");
        ARENA = m;
        struct casep c = probe_case(op, PROBE_SIZE);
        run_case(&c, &nt);
        size_t resident = resident_pages(m, PROBE_SIZE, vec);
        /* stage 1b: the same block through calls that fail or are disturbed
         * (a library may tidy up the memory it was given when a transfer
         * fails, e.g. wipe the part of the destination delivered so far):
         * partial answer then hard error, hard error at once, partial answer
         * then interruption, on either side.  Verdicts of these runs are not
         * looked at (mc_fail is a no-op outside a case). */
        static const uint8_t PS[][3] = { { T_KM1, T_EIO, T_REST }, { T_EIO, T_REST, T_REST }, { T_KM1, T_EINTR, T_EIO },
                                         { T_KM1, T_ZERO, T_EIO } };
        for (unsigned pi = 0; pi < sizeof PS / sizeof *PS && resident <= 8; ++pi)
            for (int side = 0; side < (op_one(op) ? 1 : 2) && resident <= 8; ++side) {
                c = probe_case(op, PROBE_SIZE);
                const bool on_src = op_one(op) ? op_get(op) : side == 0;
                memcpy(on_src ? c.s_src : c.s_snk, PS[pi], 3);
                if (on_src)
                    c.slen_src = 3;
                else
                    c.slen_snk = 3;
                run_case(&c, &nt);
                resident = resident_pages(m, PROBE_SIZE, vec);
            }
        munmap(m, PROBE_SIZE);
        ARENA = arena;
        long ms = 0;
        if (resident <= 8) {
            /* stage 2: the block of the cases themselves; also how long the
             * operation spends on it (a sanitizer's range check over 8 GiB is
             * enough to make hundreds of thousands of cases endless) */
            struct timespec t0, t1;
            c = probe_case(op, P33);
            clock_gettime(CLOCK_PROCESS_CPUTIME_ID, &t0);
            run_case(&c, &nt);
            clock_gettime(CLOCK_PROCESS_CPUTIME_ID, &t1);
            ms = (long)(t1.tv_sec - t0.tv_sec) * 1000 + (t1.tv_nsec - t0.tv_nsec) / 1000000;
            resident = resident_pages(arena, ARENA_SIZE, vec);
            if (resident > 0)
                madvise(arena, ARENA_SIZE, MADV_DONTNEED);
        }
        probe_ok[op] = resident <= 8 && ms < 20;
        if (!probe_ok[op])
            mc_cap("%s works on the block it is given beyond passing it to its drivers (large-scope cases of it not run)",
                   OPNAME[op]);
    }
    free(vec);
}

/* ------------------------------------------------------------------------ */
/* enumeration                                                              */

/* Should a case have instantiated pages of the block after all, give them back
 * (otherwise every shard ends up holding gigabytes).  Looked at only when the
 * case used a noticeable amount of CPU time; the clock decides nothing else and
 * is never printed. */
static struct timespec case_t0;
static void
release_touched(void)
{
    struct timespec t1;
    clock_gettime(CLOCK_PROCESS_CPUTIME_ID, &t1);
    const long ms = (long)(t1.tv_sec - case_t0.tv_sec) * 1000 + (t1.tv_nsec - case_t0.tv_nsec) / 1000000;
    if (ms >= 20)
        madvise(ARENA, ARENA_SIZE, MADV_DONTNEED);
}

static void
script_str(char *out, size_t n, const uint8_t *s, int len)
{
    size_t l = 0;
    char tb[24];
    out[0] = 0;
    for (int i = 0; i < len && l + 24 < n; ++i)
        l += (size_t)snprintf(out + l, n - l, "%s%s", i ? " " : "", tokname(s[i], tb, sizeof tb));
}

static void
emit(const struct casep *c, const char *layer)
{
    if (!mc_would_run()) {
        mc_skip_case();
        return;
    }
    char a[120], b[120];
    script_str(a, sizeof a, c->s_src, c->slen_src);
    script_str(b, sizeof b, c->s_snk, c->slen_snk);
    bool run;
    if (op_one(c->op))
        run = mc_case("huge %s op=%s driver=chunk N=%llu script=[%s]", layer, OPNAME[c->op], (unsigned long long)c->n,
                      op_get(c->op) ? a : b);
    else
        run = mc_case("huge %s op=%s%s n=%llu stream=%llu block=(offset=%llu,used=%llu,size=%llu) src=[%s] snk=[%s]", layer,
                      OPNAME[c->op], op_gb(c->op) ? " via-getbuffer" : "", (unsigned long long)c->n, (unsigned long long)c->L,
                      (unsigned long long)c->off, (unsigned long long)c->used, (unsigned long long)c->size, a, b);
    if (!run)
        return;
    if (!probe_ok[c->op]) {
        mc_end(false, "huge-not-run");
        return;
    }
    /* the blocks named here are gigabytes of real (if never instantiated)
     * memory: should an implementation work on one in a way the probes did not
     * foresee (one memset over 8 GiB), that is slow, not a hang; loops that do
     * not end are caught by the drivers' call budgets */
    mc_budget(mc_thorough() ? 300 : 100);
    clock_gettime(CLOCK_PROCESS_CPUTIME_ID, &case_t0);
    bool nontrivial = false;
    const char *outcome = run_case(c, &nontrivial);
    mc_end(nontrivial || mc.cur_failed, outcome);
    release_touched();
}

/* counts: each straddles a boundary at which some answer of VAL[] leaves a remainder */
/* all of them <= ARENA_SIZE: the block the caller names exists in full */
static const uint64_t NS[] = {
    P31 + 3, P32 - EAGAIN, P32 - EINTR, P32 - 1, P32, P32 + 5, P33 - EINTR, P33 + 1, ARENA_SIZE,
};
#define NNS ((int)(sizeof NS / sizeof *NS))

/* one driver: every script of `slots` answers over the whole alphabet */
static void
one_sided(int slots)
{
    struct casep c;
    int total = 1;
    for (int i = 0; i < slots; ++i)
        total *= NTOK;
    for (int op = H_GET; op <= H_PUT_ATMOST; ++op)
        for (int ni = 0; ni < NNS; ++ni)
            for (int x = 0; x < total; ++x) {
                memset(&c, 0, sizeof c);
                c.op = op;
                c.n = NS[ni];
                uint8_t *s = op_get(op) ? c.s_src : c.s_snk;
                int y = x;
                for (int i = 0; i < slots; ++i) {
                    s[i] = (uint8_t)(y % NTOK);
                    y /= NTOK;
                }
                if (op_get(op))
                    c.slen_src = slots;
                else
                    c.slen_snk = slots;
                emit(&c, "one-driver");
            }
}

/* two drivers: every placement of exactly d deviating answers over ns + nk slots */
struct en {
    struct casep *c;
    int ns, nk;
    bool progress_only; /* no 0 / EINTR / EAGAIN answers */
    const char *layer;
};

static void
en_rec(struct en *e, int start, int remaining)
{
    if (remaining == 0) {
        emit(e->c, e->layer);
        return;
    }
    const int nslots = e->ns + e->nk;
    for (int pos = start; pos + remaining <= nslots; ++pos) {
        uint8_t *slot = pos < e->ns ? &e->c->s_src[pos] : &e->c->s_snk[pos - e->ns];
        for (int tk = T_REST + 1; tk < NTOK; ++tk) {
            if (e->progress_only && (tk == T_ZERO || tk == T_EINTR || tk == T_EAGAIN))
                continue;
            *slot = (uint8_t)tk;
            en_rec(e, pos + 1, remaining - 1);
        }
        *slot = T_REST;
    }
}

struct geo { uint64_t off, used, size; };
/* rewinding forms (sts_n_aux, sts_drain_aux) only with offset 0: a rewind of a
 * region that starts further in moves its octets, i.e. touches the block */
static const struct geo GEO_REWIND[] = { { 0, P33, ARENA_SIZE }, { 0, P32 + 8, P32 + 4096 } };
/* non-rewinding forms: both [offset, used) and the free octets [used, size) --
 * the two readings of the designated region the oracle accepts -- are non-empty
 * (success is demanded, so neither reading may be left without room) */
static const struct geo GEO_PLAIN[] = { { 0, P33, ARENA_SIZE }, { 4096, P32 + 4096 + 8, P33 } };

static void
two_sided(int slots, int dmax)
{
    static const uint64_t counted[] = { P32 - EINTR + 3, P32 + 5, P33 - EINTR + 1 };
    static const uint64_t drains[] = { P32 - EAGAIN + 7, P32 + 5, P33 + 3 };
    /* ... and "no limit" spelled SIZE_MAX, SIZE_MAX - k with k below GEO_PLAIN[1]'s offset (offset + n wraps),
     * SSIZE_MAX + 1 */
    static const uint64_t atmosts[] = { P32 - EINTR, P32 + 5, P33, SSZ + 1, UINT64_MAX - 4095, UINT64_MAX };
    struct casep c;
    for (int d = 0; d <= dmax; ++d)
        for (int op = H_SOME_AUX; op < H__N; ++op) {
            const bool rewinds = (op == H_N_AUX || op == H_DRAIN_AUX);
            const struct geo *geo = rewinds ? GEO_REWIND : GEO_PLAIN;
            const uint64_t *ns = op_counted(op) ? counted : op_drain(op) ? drains : atmosts;
            const int nn = (op == H_SOME_AUX || op == H_GB_SOME) ? 1 : (op == H_ATMOST_AUX || op == H_GB_ATMOST) ? 6 : 3;
            for (int gi = 0; gi < 2; ++gi)
                for (int ni = 0; ni < nn; ++ni)
                    for (int shorter = 0; shorter < (op_counted(op) ? 2 : 1); ++shorter) {
                        memset(&c, 0, sizeof c);
                        c.op = op;
                        c.off = geo[gi].off;
                        c.used = geo[gi].used;
                        c.size = geo[gi].size;
                        c.slen_src = c.slen_snk = slots;
                        if (op_drain(op)) {
                            c.L = ns[ni];
                        } else if (op_counted(op)) {
                            c.n = ns[ni];
                            c.L = shorter ? c.n - 1 : c.n + 2;
                        } else {
                            c.n = (op == H_SOME_AUX || op == H_GB_SOME) ? 0 : ns[ni];
                            c.L = ARENA_SIZE + 5;
                        }
                        /* the scratch-region path is driven with progressing answers and
                         * hard errors only: its handling of 0 / EINTR / EAGAIN does not
                         * depend on the counts and is c17_getbuffer.c's subject */
                        struct en e = { &c, slots, slots, op_gb(op), d == 0 ? "dev=0" : d == 1 ? "dev=1" : d == 2 ? "dev=2" : "dev=3" };
                        en_rec(&e, 0, d);
                    }
        }
}

static struct casep
probe_case(int op, uint64_t size)
{
    struct casep c;
    memset(&c, 0, sizeof c);
    c.op = op;
    c.off = 0;
    c.size = size;
    /* a fill mark with room on both sides of it (see GEO_PLAIN) */
    c.used = size / 2;
    if (op_one(op)) {
        c.n = size;
    } else if (op_drain(op)) {
        c.L = size + 5;
    } else {
        c.n = (op == H_SOME_AUX || op == H_GB_SOME) ? 0 : size + 3;
        c.L = size + 5;
    }
    return c;
}

int
main(int argc, char **argv)
{
    mc_init(argc, argv);
    MC_ANCHOR(sizeof(size_t) == 8 && sizeof(ssize_t) == 8 && sizeof(int) == 4, "LP64 host assumed");
    MC_ANCHOR((int)(uint32_t)(P32 - EINTR) == -EINTR && (int)(uint32_t)(P32 - EAGAIN) == -EAGAIN, "alias counts");
    ARENA = mmap(NULL, ARENA_SIZE, PROT_READ | PROT_WRITE, MAP_PRIVATE | MAP_ANONYMOUS | MAP_NORESERVE, -1, 0);
    if (ARENA == MAP_FAILED)
        mc_broken("cannot reserve %llu octets of address space", (unsigned long long)ARENA_SIZE);
    const bool th = mc_thorough();
    probes(H__N);
    one_sided(th ? 3 : 2);
    two_sided(th ? 3 : 2, th ? 3 : 2);
    mc_finish(true, th ? "chunk drivers; answers over {rest, asked-1, 0, EINTR, EAGAIN, EIO} + 20 counts around 2^31/2^32/2^33 (low 32 bits = errno codes, -1, 0, 1; sign bit); one driver: 4 operations x 9 counts N (2^31+3 .. 2^33+2^20, all inside the 8 GiB mapping) x every script of 3 answers; two drivers: 4 aux forms + 4 forms through an offered scratch region x 2 geometries x 3 counts (at-most forms: 6, up to SIZE_MAX) x every placement of <= 3 deviating answers over 3+3 call slots"
                       : "chunk drivers; answers over {rest, asked-1, 0, EINTR, EAGAIN, EIO} + 20 counts around 2^31/2^32/2^33 (low 32 bits = errno codes, -1, 0, 1; sign bit); one driver: 4 operations x 9 counts N (2^31+3 .. 2^33+2^20, all inside the 8 GiB mapping) x every script of 2 answers; two drivers: 4 aux forms + 4 forms through an offered scratch region x 2 geometries x 3 counts (at-most forms: 6, up to SIZE_MAX) x every placement of <= 2 deviating answers over 2+2 call slots");
    return 0;
}
