/*
 * C16 -- CRC-16/ARC: bounded-exhaustive comparison of the real checksum
 * functions (src/crc-16-arc.c) with a bit-serial reference.
 *
 * Reference: the register is shifted right one bit per input bit, input bits
 * are taken least significant first, the reflected polynomial 0xA001 is
 * xor-ed in when the bit shifted out differs from the input bit; initial value
 * as given, no final xor.  It shares nothing with ufw's table-driven code.
 *
 * Enumerated families (numbering never depends on what ufw returns):
 *   step    all 2^24 (state, octet) pairs through ufw_crc16_arc(state,&o,1);
 *           one case = one high octet of the state (2^16 pairs)
 *   pair    all 2^16 two-octet buffers from one state, octet variant, fold
 *           identity and the 16-bit-word variant over the same memory image;
 *           one case = one state (quick: 6 states, thorough: all 2^16)
 *   split   structured buffers (ramp, constants, walking one, one octet then
 *           zeros) cut at every position 0..n: crc(a||b) = continue(crc(a),b)
 *   length  exact-size heap blocks of every length 0..64 and around 256/4096:
 *           the loop reads exactly n octets (ASan red zone behind the block)
 *   words   16-bit-word buffers of every length 0..64 cut at every position
 *   prefix  every buffer of length 0..5 (thorough 0..6) over eight octets incl. 00
 *           from six states incl. 0: one call, every cut, word variant
 *   sparse  zero buffers of every length 1..64 (thorough 160) with one non-zero
 *           octet at every position, then zeros or mix, at four start offsets
 *   long    structured boundary family of lengths: n = B + d for every power of
 *           two B = 2^16 .. 2^20 and d in {-1, 0, +1, +5} (octet variant: n octets,
 *           word variant: n words), non-periodic content in an exact-size heap
 *           block, two initial values; whole == bit-serial reference, and
 *           crc(a||b) = continue(crc(a), b) at cuts {1, n/3, B-1, n-1}
 *   chunked one buffer of 2^20+5 octets (and its image as 2^19+2 words) folded
 *           through the continuing functions in chunks of c octets/words for a
 *           fixed list of chunk sizes straddling 2^2, 2^8, 2^12, 2^16, 2^18
 *   huge    the same boundary family at B = 2^31, 2^32 (thorough: also 2^33,
 *           2^34 octets; 2^30, 2^31, 2^32 words): a MAP_NORESERVE anonymous
 *           mapping whose first and last octets are patterned and whose middle is
 *           the kernel's zero page, ending directly in front of a PROT_NONE page.
 *           Reference: bit-serial over head and tail, and the zero-octet step
 *           (GF(2)-linear in the register) raised to the gap's length by
 *           square-and-multiply on 16x16 bit matrices (anchored against the
 *           bit-serial reference).  Quick runs three of these (2^32+5 and 2^31+5
 *           octets, 2^31+5 words).
 */
#include "mc.h"

#include <time.h>

#include <ufw/crc/crc16-arc.h>

/* ---- reference ------------------------------------------------------------ */

static inline uint16_t
ref_octet(uint16_t reg, unsigned octet)
{
    for (int k = 0; k < 8; ++k) {
        const unsigned in = (octet >> k) & 1u; /* least significant bit first */
        const unsigned out = reg & 1u;
        reg >>= 1;
        if (out ^ in)
            reg ^= 0xA001u;
    }
    return reg;
}

static uint16_t
ref_buf(uint16_t reg, const unsigned char *p, size_t n)
{
    for (size_t i = 0; i < n; ++i)
        reg = ref_octet(reg, p[i]);
    return reg;
}

static void
anchors(void)
{
    /* catalogue check value of CRC-16/ARC */
    MC_ANCHOR(ref_buf(0, (const unsigned char *)"123456789", 9) == 0xBB3Du,
              "reference: check value for \"123456789\" from 0 must be 0xBB3D");
    /* test/t-register-protocol.c, serial conversation: header checksum 0c b4
     * over the 12 header octets of the read request */
    static const unsigned char h1[12] = { 0x03, 0x00, 0x00, 0x00, 0x00, 0x00,
                                          0x00, 0x64, 0x00, 0x00, 0x00, 0x01 };
    MC_ANCHOR(ref_buf(0, h1, 12) == 0x0cb4u, "reference: t-register-protocol.c header checksum 0cb4");
    /* same conversation: payload 64 00 has checksum c02a, and the response's
     * header checksum 8e9d covers the header followed by c0 2a */
    static const unsigned char pl[2] = { 0x64, 0x00 };
    MC_ANCHOR(ref_buf(0, pl, 2) == 0xc02au, "reference: t-register-protocol.c payload checksum c02a");
    static const unsigned char h2[14] = { 0x07, 0x10, 0x00, 0x00, 0x00, 0x00, 0x00,
                                          0x64, 0x00, 0x00, 0x00, 0x01, 0xc0, 0x2a };
    MC_ANCHOR(ref_buf(0, h2, 14) == 0x8e9du, "reference: t-register-protocol.c header checksum 8e9d");
    MC_ANCHOR(CRC16_ARC_INITIAL == 0, "doc/regp.txt: the initial value is zero");
}

/* ---- family: step ---------------------------------------------------------- */

static void
family_step(void)
{
    unsigned char *o = mc_exact(1);
    for (unsigned hi = 0; hi < 256; ++hi) {
        if (!mc_case("step states=%02x00..%02xff octets=00..ff: ufw_crc16_arc(state,&octet,1)", hi, hi))
            continue;
        bool bad = false;
        for (unsigned lo = 0; lo < 256 && !bad; ++lo) {
            const uint16_t st = (uint16_t)(hi << 8 | lo);
            for (unsigned x = 0; x < 256; ++x) {
                *o = (unsigned char)x;
                const uint16_t got = ufw_crc16_arc(st, o, 1);
                const uint16_t want = ref_octet(st, x);
                if (got != want) {
                    mc_fail("C16/step-is-crc16-arc",
                            "ufw_crc16_arc(0x%04x, {%02x}, 1) = 0x%04x, CRC-16/ARC gives 0x%04x",
                            st, x, got, want);
                    bad = true;
                    break;
                }
            }
        }
        mc_trans(65536);
        if (hi == 0) {
            /* the start-from-zero convenience function over the same octets */
            for (unsigned x = 0; x < 256; ++x) {
                *o = (unsigned char)x;
                const uint16_t got = ufw_buffer_crc16_arc(o, 1);
                if (got != ref_octet(0, x)) {
                    mc_fail("C16/buffer-starts-from-zero",
                            "ufw_buffer_crc16_arc({%02x}, 1) = 0x%04x, CRC-16/ARC from 0 gives 0x%04x",
                            x, got, ref_octet(0, x));
                    break;
                }
            }
            mc_trans(256);
        }
        mc_end(true, "step-agrees");
    }
    free(o);
}

/* ---- family: pair ---------------------------------------------------------- */

static void
pair_case(uint16_t st)
{
    if (!mc_case("pair state=%04x buffers=0000..ffff: octet variant, continuation, word variant", st))
        return;
    unsigned char *b = mc_exact(2);     /* 2 octets; malloc alignment suits uint16_t */
    for (unsigned x = 0; x < 256; ++x) {
        const uint16_t r1 = ref_octet(st, x);
        for (unsigned y = 0; y < 256; ++y) {
            b[0] = (unsigned char)x;
            b[1] = (unsigned char)y;
            const uint16_t want = ref_octet(r1, y);
            const uint16_t got = ufw_crc16_arc(st, b, 2);
            if (got != want) {
                mc_fail("C16/buffer-is-crc16-arc",
                        "ufw_crc16_arc(0x%04x, {%02x,%02x}, 2) = 0x%04x, CRC-16/ARC gives 0x%04x",
                        st, x, y, got, want);
                goto out;
            }
            const uint16_t cont = ufw_crc16_arc(ufw_crc16_arc(st, b, 1), b + 1, 1);
            if (cont != got) {
                mc_fail("C16/concatenation-continues",
                        "state 0x%04x octets %02x %02x: in one call 0x%04x, continued 0x%04x",
                        st, x, y, got, cont);
                goto out;
            }
            const uint16_t w = ufw_crc16_arc_u16(st, (const uint16_t *)(const void *)b, 1);
            if (w != want) {
                mc_fail("C16/word-variant-is-octet-image",
                        "ufw_crc16_arc_u16(0x%04x, word with memory image %02x %02x, 1) = 0x%04x, "
                        "octet checksum of the image is 0x%04x", st, x, y, w, want);
                goto out;
            }
        }
    }
out:
    mc_trans(4 * 65536);
    free(b);
    mc_end(true, "pair-agrees");
}

static void
family_pair(void)
{
    if (mc_thorough()) {
        for (unsigned st = 0; st < 65536; ++st)
            pair_case((uint16_t)st);
    } else {
        static const uint16_t sts[6] = { 0x0000, 0xffff, 0x8005, 0xa001, 0x0001, 0x8000 };
        for (int i = 0; i < 6; ++i)
            pair_case(sts[i]);
    }
}

/* ---- structured buffers ----------------------------------------------------- */

enum pat { P_RAMP, P_ZERO, P_ONES, P_A5, P_WALK, P_SINGLE };
static const char *const patname[] = { "ramp", "zeros", "ff", "a5", "walking-one", "single-then-zeros" };

static void
fill(unsigned char *p, size_t n, enum pat pat, unsigned x)
{
    for (size_t i = 0; i < n; ++i) {
        switch (pat) {
        case P_RAMP: p[i] = (unsigned char)(i + (i >> 8)); break;
        case P_ZERO: p[i] = 0x00; break;
        case P_ONES: p[i] = 0xff; break;
        case P_A5: p[i] = 0xa5; break;
        case P_WALK: p[i] = (unsigned char)(1u << (i % 8)); break;
        case P_SINGLE: p[i] = (i == 0) ? (unsigned char)x : 0x00; break;
        }
    }
}

static const uint16_t INITS[3] = { 0x0000, 0xffff, 0xa001 };
#define NMAX 4096
static uint16_t prefix[NMAX + 1];

static void
split_case(enum pat pat, unsigned x, size_t n, uint16_t init)
{
    if (!mc_case("split pattern=%s(%02x) n=%zu init=%04x cut=0..%zu", patname[pat], x, n, init, n))
        return;
    unsigned char *buf = mc_exact(n);
    fill(buf, n, pat, x);
    prefix[0] = init;
    for (size_t i = 0; i < n; ++i)
        prefix[i + 1] = ref_octet(prefix[i], buf[i]);
    const uint16_t whole = ufw_crc16_arc(init, buf, n);
    mc_trans(1);
    if (whole != prefix[n]) {
        mc_fail("C16/buffer-is-crc16-arc", "%zu octets from 0x%04x: 0x%04x, CRC-16/ARC gives 0x%04x",
                n, init, whole, prefix[n]);
    } else {
        for (size_t k = 0; k <= n; ++k) {
            const uint16_t a = ufw_crc16_arc(init, buf, k);
            const uint16_t ab = ufw_crc16_arc(a, buf + k, n - k);
            mc_trans(2);
            if (a != prefix[k]) {
                mc_fail("C16/buffer-is-crc16-arc",
                        "first %zu of %zu octets from 0x%04x: 0x%04x, CRC-16/ARC gives 0x%04x",
                        k, n, init, a, prefix[k]);
                break;
            }
            if (ab != whole) {
                mc_fail("C16/concatenation-continues",
                        "%zu octets cut at %zu: whole 0x%04x, continued 0x%04x", n, k, whole, ab);
                break;
            }
        }
    }
    if (init == 0) {
        const uint16_t z = ufw_buffer_crc16_arc(buf, n);
        mc_trans(1);
        if (z != prefix[n])
            mc_fail("C16/buffer-starts-from-zero", "ufw_buffer_crc16_arc over %zu octets: 0x%04x, expected 0x%04x",
                    n, z, prefix[n]);
    }
    free(buf);
    mc_end(true, "split-agrees");
}

static void
family_split(void)
{
    static const unsigned quick_singles[8] = { 0x01, 0x02, 0x10, 0x7f, 0x80, 0xa5, 0xc0, 0xff };
    for (int ii = 0; ii < 3; ++ii) {
        for (int p = P_RAMP; p <= P_WALK; ++p)
            split_case((enum pat)p, 0, NMAX, INITS[ii]);
        for (unsigned x = 1; x < 256; ++x) {
            bool big = mc_thorough();
            for (int q = 0; q < 8 && !big; ++q)
                big = quick_singles[q] == x;
            split_case(P_SINGLE, x, big ? NMAX : 256, INITS[ii]);
        }
    }
}

/* ---- family: length -------------------------------------------------------- */

static void
family_length(void)
{
    static const uint16_t inits[4] = { 0x0000, 0xffff, 0xa001, 0x8005 };
    static const enum pat pats[3] = { P_RAMP, P_ONES, P_WALK };
    size_t lens[80];
    int nl = 0;
    for (size_t n = 0; n <= 64; ++n)
        lens[nl++] = n;
    const size_t more[] = { 255, 256, 257, 4095, 4096, 4097 };
    for (size_t i = 0; i < sizeof more / sizeof more[0]; ++i)
        lens[nl++] = more[i];
    for (int pi = 0; pi < 3; ++pi)
        for (int ii = 0; ii < 4; ++ii)
            for (int li = 0; li < nl; ++li) {
                const size_t n = lens[li];
                if (!mc_case("length pattern=%s n=%zu init=%04x (exact-size block)", patname[pats[pi]], n, inits[ii]))
                    continue;
                unsigned char *buf = mc_exact(n);
                unsigned char *img = malloc(n + 1);
                fill(img, n, pats[pi], 0);
                if (n)
                    memcpy(buf, img, n);
                const uint16_t want = ref_buf(inits[ii], img, n);
                const uint16_t got = ufw_crc16_arc(inits[ii], buf, n);
                mc_trans(1);
                mc_log("got=%04x want=%04x", got, want);
                if (got != want)
                    mc_fail("C16/buffer-is-crc16-arc", "%zu octets from 0x%04x: 0x%04x, CRC-16/ARC gives 0x%04x",
                            n, inits[ii], got, want);
                free(img);
                free(buf);
                mc_end(n > 0, n ? "length-agrees" : "empty-returns-state");
            }
}

/* ---- family: words --------------------------------------------------------- */

enum wpat { W_RAMP, W_LOHI, W_HILO, W_WALK };
static const char *const wpatname[] = { "ramp(1234+0301*i)", "00ff", "ff00", "walking-one" };

static void
family_words(void)
{
    static const uint16_t inits[4] = { 0x0000, 0xffff, 0xa001, 0x8005 };
    for (int pi = 0; pi < 4; ++pi)
        for (int ii = 0; ii < 4; ++ii)
            for (size_t len = 0; len <= 64; ++len) {
                if (!mc_case("words pattern=%s len=%zu init=%04x cut=0..%zu", wpatname[pi], len, inits[ii], len))
                    continue;
                uint16_t *w = mc_exact(2 * len);
                for (size_t i = 0; i < len; ++i) {
                    switch (pi) {
                    case W_RAMP: w[i] = (uint16_t)(0x1234u + 0x0301u * i); break;
                    case W_LOHI: w[i] = 0x00ffu; break;
                    case W_HILO: w[i] = 0xff00u; break;
                    default: w[i] = (uint16_t)(1u << (i % 16)); break;
                    }
                }
                /* the words' in-memory octet image */
                unsigned char *img = malloc(2 * len + 1);
                if (len)
                    memcpy(img, w, 2 * len);
                const uint16_t want = ref_buf(inits[ii], img, 2 * len);
                const uint16_t got = ufw_crc16_arc_u16(inits[ii], w, len);
                const uint16_t oct = ufw_crc16_arc(inits[ii], w, 2 * len);
                mc_trans(2);
                mc_log("word=%04x octet=%04x reference=%04x", got, oct, want);
                if (got != want || got != oct) {
                    mc_fail("C16/word-variant-is-octet-image",
                            "%zu words from 0x%04x: word variant 0x%04x, octet variant over the image 0x%04x, "
                            "CRC-16/ARC of the image 0x%04x", len, inits[ii], got, oct, want);
                } else {
                    for (size_t k = 0; k <= len; ++k) {
                        const uint16_t a = ufw_crc16_arc_u16(inits[ii], w, k);
                        const uint16_t ab = ufw_crc16_arc_u16(a, w + k, len - k);
                        mc_trans(2);
                        if (a != ref_buf(inits[ii], img, 2 * k) || ab != got) {
                            mc_fail("C16/concatenation-continues",
                                    "%zu words cut at %zu: first part 0x%04x, continued 0x%04x, whole 0x%04x",
                                    len, k, a, ab, got);
                            break;
                        }
                    }
                }
                if (inits[ii] == 0) {
                    const uint16_t z = ufw_buffer_crc16_arc_u16(w, len);
                    mc_trans(1);
                    if (z != want)
                        mc_fail("C16/buffer-starts-from-zero",
                                "ufw_buffer_crc16_arc_u16 over %zu words: 0x%04x, expected 0x%04x", len, z, want);
                }
                free(img);
                free(w);
                mc_end(len > 0, len ? "words-agree" : "empty-returns-state");
            }
}

/* ---- reference for runs of zero octets -------------------------------------
 * Feeding a zero octet is a GF(2)-linear map of the register (every step of
 * ref_octet() is a shift and a conditional xor of a constant that depends on
 * one register bit only).  Its matrix is read off ref_octet() on the 16 unit
 * registers and raised to the run's length by square-and-multiply, so that a
 * gap of 2^32 zero octets costs 32 matrix products instead of 2^35 bit steps.
 * Nothing of ufw is involved; anchored below against the bit-serial loop. */

struct m16 {
    uint16_t col[16]; /* col[j]: image of the register with only bit j set */
};

static uint16_t
m16_apply(const struct m16 *m, uint16_t v)
{
    uint16_t r = 0;
    for (int j = 0; j < 16; ++j)
        if ((v >> j) & 1u)
            r ^= m->col[j];
    return r;
}

static void
m16_mul(struct m16 *out, const struct m16 *a, const struct m16 *b) /* out = a after b */
{
    struct m16 t;
    for (int j = 0; j < 16; ++j)
        t.col[j] = m16_apply(a, b->col[j]);
    *out = t;
}

static uint16_t
ref_zeros(uint16_t reg, uint64_t count)
{
    struct m16 sq, acc;
    for (int j = 0; j < 16; ++j) {
        sq.col[j] = ref_octet((uint16_t)(1u << j), 0);
        acc.col[j] = (uint16_t)(1u << j);
    }
    while (count) {
        if (count & 1u)
            m16_mul(&acc, &sq, &acc);
        m16_mul(&sq, &sq, &sq);
        count >>= 1;
    }
    return m16_apply(&acc, reg);
}

static void
anchors_zero_runs(void)
{
    /* linearity of the zero-octet step over the whole register space */
    struct m16 z;
    for (int j = 0; j < 16; ++j)
        z.col[j] = ref_octet((uint16_t)(1u << j), 0);
    for (unsigned a = 0; a < 65536; ++a)
        MC_ANCHOR(m16_apply(&z, (uint16_t)a) == ref_octet((uint16_t)a, 0),
                  "reference: the zero-octet step must be linear in the register");
    static const uint64_t runs[] = { 0, 1, 2, 3, 255, 256, 257, 32767, 65535, 65536, 65537, 300007 };
    static const uint16_t regs[] = { 0x0001, 0x8000, 0xffff, 0xbb3d, 0xa001 };
    for (size_t ri = 0; ri < sizeof regs / sizeof regs[0]; ++ri) {
        uint16_t reg = regs[ri];
        uint64_t done = 0;
        for (size_t i = 0; i < sizeof runs / sizeof runs[0]; ++i) {
            for (; done < runs[i]; ++done)
                reg = ref_octet(reg, 0);
            MC_ANCHOR(ref_zeros(regs[ri], runs[i]) == reg,
                      "reference: matrix power for a run of zero octets must equal the bit-serial loop");
        }
    }
    /* a run of zeros must matter: from a non-zero register 2^32 and 2^18 zero
     * octets do not return to the register they started from */
    MC_ANCHOR(ref_zeros(0xbb3d, (uint64_t)1 << 32) != 0xbb3d && ref_zeros(0xbb3d, (uint64_t)1 << 18) != 0xbb3d,
              "reference: zero runs of the boundary lengths must change a non-zero register");
}

/* non-periodic content for long buffers */
static inline unsigned char
mix8(uint64_t i)
{
    return (unsigned char)((i * 0x9E3779B97F4A7C15ull) >> 56);
}

static inline uint16_t
mix16(uint64_t i)
{
    return (uint16_t)((i * 0x9E3779B97F4A7C15ull) >> 48);
}

/* ---- family: prefix (complete for short buffers) ------------------------------
 * Every buffer of length 0..5 (thorough: 0..6) over an alphabet of eight octets
 * that contains 00, from every state of a small set that contains 0: whatever
 * an implementation does with the first few octets of a call (alignment
 * prologue, a shortcut for leading zeros, a look at a multi-octet group) is
 * exercised with every combination of zero and non-zero octets in every
 * position, from the register values for which "zero input, zero register"
 * holds and from some for which it does not.  One case = (state, length, first
 * octet).  Per buffer: the octet variant in one call, continued at every cut,
 * the from-zero function when the state is 0, the word variant when the length
 * is even. */
static const unsigned char PALPHA[8] = { 0x00, 0x01, 0x02, 0x7f, 0x80, 0xa5, 0xc0, 0xff };
static const uint16_t PSTATES[6] = { 0x0000, 0x0001, 0x8000, 0xa001, 0x8005, 0xffff };

static void
family_prefix(void)
{
    const size_t maxlen = mc_thorough() ? 6 : 5;
    for (int si = 0; si < 6; ++si)
        for (size_t n = 0; n <= maxlen; ++n)
            for (unsigned f = 0; f < (n ? 8u : 1u); ++f) {
                const uint16_t st = PSTATES[si];
                if (!mc_case("prefix state=%04x n=%zu first octet=%02x, the others every combination over "
                             "{00,01,02,7f,80,a5,c0,ff}: one call, every cut, word variant",
                             st, n, n ? PALPHA[f] : 0u))
                    continue;
                unsigned char *b = mc_exact(n); /* malloc alignment suits uint16_t */
                size_t total = 1;
                for (size_t i = 1; i < n; ++i)
                    total *= 8;
                bool bad = false;
                for (size_t c = 0; c < total && !bad; ++c) {
                    size_t r = c;
                    if (n)
                        b[0] = PALPHA[f];
                    for (size_t i = n; i-- > 1;) {
                        b[i] = PALPHA[r % 8];
                        r /= 8;
                    }
                    uint16_t pre[8];
                    pre[0] = st;
                    for (size_t i = 0; i < n; ++i)
                        pre[i + 1] = ref_octet(pre[i], b[i]);
                    char hex[3 * 8 + 1];
                    hex[0] = 0;
                    for (size_t i = 0; i < n; ++i)
                        snprintf(hex + 3 * i, 4, "%02x ", b[i]);
                    const uint16_t whole = ufw_crc16_arc(st, b, n);
                    mc_trans(1);
                    if (whole != pre[n]) {
                        mc_fail("C16/buffer-is-crc16-arc", "ufw_crc16_arc(0x%04x, {%s}, %zu) = 0x%04x, CRC-16/ARC gives 0x%04x", st,
                                hex, n, whole, pre[n]);
                        bad = true;
                        break;
                    }
                    for (size_t k = 0; k <= n; ++k) {
                        const uint16_t a = ufw_crc16_arc(st, b, k);
                        const uint16_t ab = ufw_crc16_arc(a, b + k, n - k);
                        mc_trans(2);
                        if (a != pre[k]) {
                            mc_fail("C16/buffer-is-crc16-arc",
                                    "first %zu octets of {%s} from 0x%04x: 0x%04x, CRC-16/ARC gives 0x%04x", k, hex, st, a, pre[k]);
                            bad = true;
                            break;
                        }
                        if (ab != whole) {
                            mc_fail("C16/concatenation-continues", "{%s} from 0x%04x cut at %zu: whole 0x%04x, continued 0x%04x",
                                    hex, st, k, whole, ab);
                            bad = true;
                            break;
                        }
                    }
                    if (bad)
                        break;
                    if (st == 0) {
                        const uint16_t z = ufw_buffer_crc16_arc(b, n);
                        mc_trans(1);
                        if (z != pre[n]) {
                            mc_fail("C16/buffer-starts-from-zero", "ufw_buffer_crc16_arc({%s}, %zu) = 0x%04x, CRC-16/ARC from 0 gives 0x%04x",
                                    hex, n, z, pre[n]);
                            bad = true;
                            break;
                        }
                    }
                    if (n % 2 == 0) {
                        const uint16_t w = ufw_crc16_arc_u16(st, (const uint16_t *)(const void *)b, n / 2);
                        mc_trans(1);
                        if (w != pre[n]) {
                            mc_fail("C16/word-variant-is-octet-image",
                                    "ufw_crc16_arc_u16(0x%04x, %zu words with memory image {%s}) = 0x%04x, octet checksum of the "
                                    "image is 0x%04x",
                                    st, n / 2, hex, w, pre[n]);
                            bad = true;
                            break;
                        }
                    }
                }
                free(b);
                mc_end(n > 0, n ? "prefix-agrees" : "empty-returns-state");
            }
}

/* ---- family: sparse (one non-zero octet at every position) ---------------------
 * A buffer of n octets (1..64, thorough 1..160) that is zero up to position p,
 * holds x at p, and goes on with zeros or with non-periodic content; every p,
 * x over eight values (thorough: all 255), from state 0 and from non-zero
 * states, starting at every offset 0..3 from an 8-aligned address (the octet
 * variant; word variant at offsets 0 and 2), in a heap block that ends with the
 * buffer.  One case = (variant, state, n, offset, what follows). */
static void
family_sparse(void)
{
    static const uint16_t sts[4] = { 0x0000, 0xffff, 0xa001, 0x0001 };
    static const unsigned xs[8] = { 0x01, 0x02, 0x10, 0x64, 0x7f, 0x80, 0xa5, 0xff };
    const size_t nmax = mc_thorough() ? 160 : 64;
    for (int words = 0; words < 2; ++words)
        for (int si = 0; si < 4; ++si)
            for (size_t n = 1; n <= nmax; ++n)
                for (size_t off = 0; off < 4; off += words ? 2 : 1)
                    for (int follow = 0; follow < 2; ++follow) {
                        if (words && n % 2)
                            continue;
                        const uint16_t st = sts[si];
                        if (!mc_case("sparse variant=%s state=%04x n=%zu octets at offset %zu of an aligned block: zeros, one octet x "
                                     "at every position, then %s; x over %s",
                                     words ? "words" : "octets", st, n, off, follow ? "mix" : "zeros",
                                     mc_thorough() ? "01..ff" : "{01,02,10,64,7f,80,a5,ff}"))
                            continue;
                        unsigned char *blk = mc_exact(off + n);
                        unsigned char *b = blk + off;
                        bool bad = false;
                        const unsigned nx = mc_thorough() ? 255 : 8;
                        for (size_t p = 0; p < n && !bad; ++p)
                            for (unsigned xi = 0; xi < nx && !bad; ++xi) {
                                const unsigned x = mc_thorough() ? xi + 1 : xs[xi];
                                memset(blk, 0, off + n);
                                b[p] = (unsigned char)x;
                                if (follow)
                                    for (size_t i = p + 1; i < n; ++i)
                                        b[i] = mix8(i + 7 * p);
                                const uint16_t want = ref_buf(st, b, n);
                                const uint16_t got = words ? ufw_crc16_arc_u16(st, (const uint16_t *)(const void *)b, n / 2)
                                                           : ufw_crc16_arc(st, b, n);
                                mc_trans(1);
                                if (got != want) {
                                    mc_fail(words ? "C16/word-variant-is-octet-image" : "C16/buffer-is-crc16-arc",
                                            "%s over %zu octets (%zu zeros, then %02x, then %s) from 0x%04x = 0x%04x, CRC-16/ARC gives "
                                            "0x%04x",
                                            words ? "ufw_crc16_arc_u16" : "ufw_crc16_arc", n, p, x, follow ? "mix" : "zeros", st, got,
                                            want);
                                    bad = true;
                                }
                                if (!bad && st == 0) {
                                    const uint16_t z = words ? ufw_buffer_crc16_arc_u16((const uint16_t *)(const void *)b, n / 2)
                                                             : ufw_buffer_crc16_arc(b, n);
                                    mc_trans(1);
                                    if (z != want) {
                                        mc_fail("C16/buffer-starts-from-zero",
                                                "%s over %zu octets (%zu zeros, then %02x, then %s) = 0x%04x, CRC-16/ARC from 0 gives 0x%04x",
                                                words ? "ufw_buffer_crc16_arc_u16" : "ufw_buffer_crc16_arc", n, p, x,
                                                follow ? "mix" : "zeros", z, want);
                                        bad = true;
                                    }
                                }
                            }
                        free(blk);
                        mc_end(true, words ? "sparse-words-agree" : "sparse-agrees");
                    }
}

/* ---- family: long (lengths straddling 2^16 .. 2^20) ----------------------- */

static void
long_case(bool words, int lg, int d, uint16_t init)
{
    const size_t B = (size_t)1 << lg;
    const size_t n = (size_t)((long long)B + d);   /* octets, or words */
    if (!mc_case("long variant=%s n=2^%d%+d=%zu init=%04x content=mix cuts={1,n/3,2^%d-1,n-1}",
                 words ? "words" : "octets", lg, d, n, init, lg))
        return;
    const size_t unit = words ? 2 : 1;
    const size_t no = n * unit;                    /* octets of the image */
    void *blk = mc_exact(no);
    if (words) {
        uint16_t *w = blk;
        for (size_t i = 0; i < n; ++i)
            w[i] = mix16(i);
    } else {
        unsigned char *b = blk;
        for (size_t i = 0; i < n; ++i)
            b[i] = mix8(i);
    }
    const unsigned char *img = blk;                /* the in-memory octet image */
    uint16_t *pre = malloc((no + 1) * sizeof *pre);
    if (pre == NULL)
        mc_broken("out of memory");
    pre[0] = init;
    for (size_t i = 0; i < no; ++i)
        pre[i + 1] = ref_octet(pre[i], img[i]);
    const uint16_t whole = words ? ufw_crc16_arc_u16(init, blk, n) : ufw_crc16_arc(init, blk, n);
    mc_trans(1);
    mc_log("whole=%04x reference=%04x", whole, pre[no]);
    if (whole != pre[no]) {
        if (words)
            mc_fail("C16/word-variant-is-octet-image",
                    "ufw_crc16_arc_u16(0x%04x, %zu words) = 0x%04x, CRC-16/ARC of the %zu-octet image is 0x%04x",
                    init, n, whole, no, pre[no]);
        else
            mc_fail("C16/buffer-is-crc16-arc", "ufw_crc16_arc(0x%04x, %zu octets) = 0x%04x, CRC-16/ARC gives 0x%04x",
                    init, n, whole, pre[no]);
    } else {
        const size_t cuts[4] = { 1, n / 3, B - 1, n - 1 };
        for (int ci = 0; ci < 4; ++ci) {
            const size_t k = cuts[ci];
            if (k > n)
                continue;
            uint16_t a, ab;
            if (words) {
                a = ufw_crc16_arc_u16(init, blk, k);
                ab = ufw_crc16_arc_u16(a, (const uint16_t *)blk + k, n - k);
            } else {
                a = ufw_crc16_arc(init, blk, k);
                ab = ufw_crc16_arc(a, (const unsigned char *)blk + k, n - k);
            }
            mc_trans(2);
            mc_log("cut=%zu first=%04x reference=%04x continued=%04x", k, a, pre[k * unit], ab);
            if (a != pre[k * unit]) {
                mc_fail(words ? "C16/word-variant-is-octet-image" : "C16/buffer-is-crc16-arc",
                        "first %zu of %zu %s from 0x%04x: 0x%04x, CRC-16/ARC gives 0x%04x", k, n,
                        words ? "words" : "octets", init, a, pre[k * unit]);
                break;
            }
            if (ab != whole) {
                mc_fail("C16/concatenation-continues", "%zu %s cut at %zu: whole 0x%04x, continued 0x%04x", n,
                        words ? "words" : "octets", k, whole, ab);
                break;
            }
        }
    }
    if (init == 0) {
        const uint16_t z = words ? ufw_buffer_crc16_arc_u16(blk, n) : ufw_buffer_crc16_arc(blk, n);
        mc_trans(1);
        if (z != pre[no])
            mc_fail("C16/buffer-starts-from-zero", "%s over %zu %s: 0x%04x, expected 0x%04x",
                    words ? "ufw_buffer_crc16_arc_u16" : "ufw_buffer_crc16_arc", n, words ? "words" : "octets", z,
                    pre[no]);
    }
    free(pre);
    free(blk);
    mc_end(true, words ? "long-words-agree" : "long-agrees");
}

static void
family_long(void)
{
    static const int ds[4] = { -1, 0, +1, +5 };
    static const uint16_t inits[2] = { 0x0000, 0xffff };
    for (int words = 0; words < 2; ++words)
        for (int lg = 16; lg <= 20; ++lg)
            for (int di = 0; di < 4; ++di)
                for (int ii = 0; ii < 2; ++ii)
                    long_case(words != 0, lg, ds[di], inits[ii]);
}

/* ---- family: chunked ------------------------------------------------------- */

#define CHUNKED_OCTETS (((size_t)1 << 20) + 5)
#define CHUNKED_WORDS (((size_t)1 << 19) + 2)

static void
family_chunked(void)
{
    static const size_t chunks[] = { 1, 2, 3, 4, 5, 7, 8, 9, 255, 256, 257, 4095, 4096, 4097, 65535, 65536,
                                     65537, 262143, 262144, 262145, 524288 };
    static const uint16_t inits[2] = { 0x0000, 0xffff };
    unsigned char *ob = NULL;
    uint16_t *wb = NULL;
    uint16_t oref[2] = { 0, 0 }, wref[2] = { 0, 0 };
    for (int words = 0; words < 2; ++words)
        for (size_t ci = 0; ci < sizeof chunks / sizeof chunks[0]; ++ci)
            for (int ii = 0; ii < 2; ++ii) {
                const size_t c = chunks[ci];
                const size_t n = words ? CHUNKED_WORDS : CHUNKED_OCTETS;
                if (!mc_case("chunked variant=%s n=%zu chunk=%zu init=%04x content=mix: continue over every chunk",
                             words ? "words" : "octets", n, c, inits[ii]))
                    continue;
                if (!words && ob == NULL) {
                    ob = mc_exact(n);
                    for (size_t i = 0; i < n; ++i)
                        ob[i] = mix8(i);
                    for (int k = 0; k < 2; ++k)
                        oref[k] = ref_buf(inits[k], ob, n);
                }
                if (words && wb == NULL) {
                    wb = mc_exact(2 * n);
                    for (size_t i = 0; i < n; ++i)
                        wb[i] = mix16(i ^ 0x5555u);
                    for (int k = 0; k < 2; ++k)
                        wref[k] = ref_buf(inits[k], (const unsigned char *)wb, 2 * n);
                }
                uint16_t reg = inits[ii];
                size_t calls = 0;
                for (size_t pos = 0; pos < n; pos += c) {
                    const size_t len = (n - pos < c) ? n - pos : c;
                    reg = words ? ufw_crc16_arc_u16(reg, wb + pos, len) : ufw_crc16_arc(reg, ob + pos, len);
                    ++calls;
                }
                mc_trans((int64_t)calls);
                const uint16_t want = words ? wref[ii] : oref[ii];
                mc_log("calls=%zu result=%04x reference=%04x", calls, reg, want);
                if (reg != want)
                    mc_fail("C16/concatenation-continues",
                            "%zu %s from 0x%04x continued in chunks of %zu: 0x%04x, CRC-16/ARC of the whole is 0x%04x", n,
                            words ? "words" : "octets", inits[ii], c, reg, want);
                mc_end(true, "chunked-agrees");
            }
    free(ob);
    free(wb);
}

/* ---- family: huge (lengths straddling 2^31 .. 2^35) ------------------------ */

/* One library call over several GiB takes longer than the runtime's 20 s
 * no-progress watchdog allows: give the case in flight a budget of its own. */
static void
case_budget(int seconds)
{
    mc_budget(seconds);
}

#define HUGE_HEAD 4098u
#define HUGE_TAIL 4102u
#define PROBE_OCTETS ((size_t)64 << 20)

/* seconds per octet of one call of the variant over PROBE_OCTETS octets of `buf` (readable, >= 2^31 octets);
 * the clock is only used to decide whether a case is run, it is never printed */
static double
huge_rate(bool words, const unsigned char *buf)
{
    static double rate[2];
    if (rate[words] > 0.0)
        return rate[words];
    struct timespec t0, t1;
    volatile uint16_t sink;
    clock_gettime(CLOCK_MONOTONIC, &t0);
    if (words)
        sink = ufw_crc16_arc_u16(0xffff, (const uint16_t *)(const void *)buf, PROBE_OCTETS / 2);
    else
        sink = ufw_crc16_arc(0xffff, buf, PROBE_OCTETS);
    clock_gettime(CLOCK_MONOTONIC, &t1);
    (void)sink;
    double dt = (double)(t1.tv_sec - t0.tv_sec) + 1e-9 * (double)(t1.tv_nsec - t0.tv_nsec);
    if (dt < 1e-6)
        dt = 1e-6;
    rate[words] = dt / (double)PROBE_OCTETS;
    return rate[words];
}

struct hugecase {
    bool words;
    bool from_zero; /* through the ufw_buffer_* function */
    int lg;         /* boundary 2^lg, in octets or words */
    int d;
};

static void
huge_case(const struct hugecase *h)
{
    const uint64_t n = (uint64_t)(((int64_t)1 << h->lg) + h->d); /* octets or words */
    const uint64_t no = h->words ? 2 * n : n;
    const uint16_t init = h->from_zero ? 0x0000 : 0xffff;
    const char *fn = h->words ? (h->from_zero ? "ufw_buffer_crc16_arc_u16" : "ufw_crc16_arc_u16")
                              : (h->from_zero ? "ufw_buffer_crc16_arc" : "ufw_crc16_arc");
    if (!mc_case("huge fn=%s n=2^%d%+d=%llu %s init=%04x content=mix[%u] zeros mix[%u] (one call)", fn, h->lg, h->d,
                 (unsigned long long)n, h->words ? "words" : "octets", init, HUGE_HEAD, HUGE_TAIL))
        return;
    if (sizeof(size_t) < 8 || no > SIZE_MAX - 65536u) {
        mc_cap("huge: size_t cannot express %llu octets", (unsigned long long)no);
        mc_end(false, "huge-unavailable");
        return;
    }
    const size_t page = (size_t)sysconf(_SC_PAGESIZE);
    const size_t body = ((size_t)no + page - 1) / page * page;
    unsigned char *map = mmap(NULL, body + page, PROT_READ, MAP_PRIVATE | MAP_ANONYMOUS | MAP_NORESERVE, -1, 0);
    if (map == MAP_FAILED) {
        mc_cap("huge: cannot map %llu octets of address space", (unsigned long long)no);
        mc_end(false, "huge-unavailable");
        return;
    }
    /* the buffer ends where an inaccessible page begins */
    unsigned char *buf = map + body - (size_t)no;
    const size_t head_pages = ((size_t)(buf - map) + HUGE_HEAD + page - 1) / page * page;
    const size_t tail_pages = (HUGE_TAIL + page - 1) / page * page;
    if (mprotect(map + body, page, PROT_NONE) != 0 || mprotect(map, head_pages, PROT_READ | PROT_WRITE) != 0
        || mprotect(map + body - tail_pages, tail_pages, PROT_READ | PROT_WRITE) != 0)
        mc_broken("huge: mprotect failed");
    unsigned char *tail = buf + no - HUGE_TAIL;
    for (size_t i = 0; i < HUGE_HEAD; ++i)
        buf[i] = mix8(i);
    for (size_t i = 0; i < HUGE_TAIL; ++i)
        tail[i] = mix8(0x100000u + i);
    const uint64_t gap = no - HUGE_HEAD - HUGE_TAIL;
    uint16_t want = ref_buf(init, buf, HUGE_HEAD);
    const uint16_t before_gap = want;
    want = ref_zeros(want, gap);
    const uint16_t after_gap = want;
    want = ref_buf(want, tail, HUGE_TAIL);
    /* the table-driven code does 3..4 s per GiB under ASan, a correct bit-serial one about 10: leave room for
     * slow-but-right code on a busy machine; a real hang in the quick tier is still reported inside its deadline */
    int budget = mc_thorough() ? 120 + 60 * (int)(no >> 30) : 150;
    if (budget > 1200)
        budget = 1200; /* stay inside the tier's global deadline */
    /* How fast is this implementation, now, on this machine?  One call of the same variant over 64 MiB of the
     * zero region (measured once per process and variant).  A case whose projected duration does not fit its
     * budget with a margin of one half is not run: a correct but slow checksum is a cap, never a `hang`. */
    case_budget(100);
    const double per_octet = huge_rate(h->words, buf);
    if (per_octet * (double)no * 1.5 > (double)budget) {
        static bool capped;
        if (!capped) {
            capped = true;
            mc_cap("huge: at the measured throughput a multi-GiB call does not fit its time budget: such cases not run");
        }
        mc_log("not run: the throughput probe (64 MiB) projects more than the case's budget");
        munmap(map, body + page);
        mc_end(false, "huge-skipped-slow");
        return;
    }
    case_budget(budget);
    uint16_t got;
    if (h->words)
        got = h->from_zero ? ufw_buffer_crc16_arc_u16((const uint16_t *)(const void *)buf, (size_t)n)
                           : ufw_crc16_arc_u16(init, (const uint16_t *)(const void *)buf, (size_t)n);
    else
        got = h->from_zero ? ufw_buffer_crc16_arc(buf, (size_t)n) : ufw_crc16_arc(init, buf, (size_t)n);
    mc_trans(1);
    mc_log("reference: after head %04x, after %llu zero octets %04x, after tail %04x; %s returned %04x", before_gap,
           (unsigned long long)gap, after_gap, want, fn, got);
    if (got != want)
        mc_fail(h->words ? "C16/word-variant-is-octet-image" : (h->from_zero ? "C16/buffer-starts-from-zero" : "C16/buffer-is-crc16-arc"),
                "%s over %llu %s from 0x%04x = 0x%04x, CRC-16/ARC of the %llu-octet image is 0x%04x", fn,
                (unsigned long long)n, h->words ? "words" : "octets", init, got, (unsigned long long)no, want);
    munmap(map, body + page);
    mc_end(true, "huge-agrees");
}

static void
family_huge(void)
{
    static const struct hugecase quick[] = {
        { false, false, 32, +5 },
        { true, false, 31, +5 },
        { false, false, 31, +5 },
    };
    static const struct hugecase thorough[] = {
        /* longest first, so that they land on different shards.  2^35: where a 32-bit count of 8-octet rounds
         * wraps (2^34 covers 4-octet rounds, 2^32 single octets); about 2 min under ASan for table-driven code */
        { false, false, 35, +5 }, { false, false, 35, 0 },
        { true, false, 32, +5 },  { true, false, 32, 0 },   { false, false, 34, +5 }, { false, false, 34, 0 },
        { false, false, 33, +5 }, { false, false, 33, 0 },  { true, false, 31, +5 },  { true, false, 31, 0 },
        { true, true, 31, +5 },   { false, false, 32, +5 }, { false, false, 32, +1 }, { false, false, 32, 0 },
        { false, false, 32, -1 }, { false, true, 32, +5 },  { true, false, 30, +5 },  { true, false, 30, 0 },
        { true, false, 30, -1 },  { false, false, 31, +5 }, { false, false, 31, +1 }, { false, false, 31, 0 },
        { false, false, 31, -1 },
    };
    if (mc_thorough())
        for (size_t i = 0; i < sizeof thorough / sizeof thorough[0]; ++i)
            huge_case(&thorough[i]);
    else
        for (size_t i = 0; i < sizeof quick / sizeof quick[0]; ++i)
            huge_case(&quick[i]);
}

int
main(int argc, char **argv)
{
    mc_init(argc, argv);
    anchors();
    anchors_zero_runs();
    family_huge();   /* first: the longest cases start at once on their shards */
    family_step();
    family_pair();
    family_split();
    family_length();
    family_words();
    family_prefix();
    family_sparse();
    family_long();
    family_chunked();
    mc_finish(true, mc_thorough()
        ? "all 2^24 (state,octet) steps; all 2^16 two-octet buffers and words from all 2^16 states; "
          "260 structured 4 KiB buffers x 3 initial values cut at every position; "
          "exact blocks of lengths 0..64,255..257,4095..4097; word buffers of lengths 0..64 cut at every position; "
          "every buffer of length 0..6 over {00,01,02,7f,80,a5,c0,ff} from 6 states (one call, every cut, word variant); "
          "zero buffers of every length 1..160 with one octet 01..ff at every position followed by zeros or mix, 4 states, "
          "4 start offsets (octets) / 2 (words); "
          "lengths 2^k+{-1,0,1,5} for k=16..20 (octets and words) with 4 cuts; 2^20+5 octets / 2^19+2 words continued in "
          "chunks of 21 sizes; single calls over 2^31,2^32+{-1,0,1,5} and 2^33,2^34,2^35+{0,5} octets and 2^30,2^31,2^32+{0,5} words"
        : "all 2^24 (state,octet) steps; all 2^16 two-octet buffers and words from 6 states; "
          "13 structured 4 KiB buffers and 247 single-octet-then-zeros buffers of 256 octets x 3 initial values cut at every position; "
          "exact blocks of lengths 0..64,255..257,4095..4097; word buffers of lengths 0..64 cut at every position; "
          "every buffer of length 0..5 over {00,01,02,7f,80,a5,c0,ff} from 6 states (one call, every cut, word variant); "
          "zero buffers of every length 1..64 with one octet of {01,02,10,64,7f,80,a5,ff} at every position followed by zeros "
          "or mix, 4 states, 4 start offsets (octets) / 2 (words); "
          "lengths 2^k+{-1,0,1,5} for k=16..20 (octets and words) with 4 cuts; 2^20+5 octets / 2^19+2 words continued in "
          "chunks of 21 sizes; single calls over 2^32+5 octets, 2^31+5 octets, 2^31+5 words");
    return 0;
}
