/*
 * C16 -- CRC-16/ARC: bounded-exhaustive comparison of the real checksum
 * functions (src/crc-16-arc.c) with a bit-serial reference.
 *
 * Reference: the register is shifted right one bit per input bit, input bits
 * are taken least significant first, the reflected polynomial 0xA001 is
 * xor-ed in when the bit shifted out differs from the input bit; initial value
 * as given, no final xor.  It shares nothing with ufw's table-driven code.
 *
 * Enumerated families (numbering never depends on what ufw returns):
 *   step    all 2^24 (state, octet) pairs through ufw_crc16_arc(state,&o,1);
 *           one case = one high octet of the state (2^16 pairs)
 *   pair    all 2^16 two-octet buffers from one state, octet variant, fold
 *           identity and the 16-bit-word variant over the same memory image;
 *           one case = one state (quick: 6 states, thorough: all 2^16)
 *   split   structured buffers (ramp, constants, walking one, one octet then
 *           zeros) cut at every position 0..n: crc(a||b) = continue(crc(a),b)
 *   length  exact-size heap blocks of every length 0..64 and around 256/4096:
 *           the loop reads exactly n octets (ASan red zone behind the block)
 *   words   16-bit-word buffers of every length 0..64 cut at every position
 */
#include "mc.h"

#include <ufw/crc/crc16-arc.h>

/* ---- reference ------------------------------------------------------------ */

static inline uint16_t
ref_octet(uint16_t reg, unsigned octet)
{
    for (int k = 0; k < 8; ++k) {
        const unsigned in = (octet >> k) & 1u; /* least significant bit first */
        const unsigned out = reg & 1u;
        reg >>= 1;
        if (out ^ in)
            reg ^= 0xA001u;
    }
    return reg;
}

static uint16_t
ref_buf(uint16_t reg, const unsigned char *p, size_t n)
{
    for (size_t i = 0; i < n; ++i)
        reg = ref_octet(reg, p[i]);
    return reg;
}

static void
anchors(void)
{
    /* catalogue check value of CRC-16/ARC */
    MC_ANCHOR(ref_buf(0, (const unsigned char *)"123456789", 9) == 0xBB3Du,
              "reference: check value for \"123456789\" from 0 must be 0xBB3D");
    /* test/t-register-protocol.c, serial conversation: header checksum 0c b4
     * over the 12 header octets of the read request */
    static const unsigned char h1[12] = { 0x03, 0x00, 0x00, 0x00, 0x00, 0x00,
                                          0x00, 0x64, 0x00, 0x00, 0x00, 0x01 };
    MC_ANCHOR(ref_buf(0, h1, 12) == 0x0cb4u, "reference: t-register-protocol.c header checksum 0cb4");
    /* same conversation: payload 64 00 has checksum c02a, and the response's
     * header checksum 8e9d covers the header followed by c0 2a */
    static const unsigned char pl[2] = { 0x64, 0x00 };
    MC_ANCHOR(ref_buf(0, pl, 2) == 0xc02au, "reference: t-register-protocol.c payload checksum c02a");
    static const unsigned char h2[14] = { 0x07, 0x10, 0x00, 0x00, 0x00, 0x00, 0x00,
                                          0x64, 0x00, 0x00, 0x00, 0x01, 0xc0, 0x2a };
    MC_ANCHOR(ref_buf(0, h2, 14) == 0x8e9du, "reference: t-register-protocol.c header checksum 8e9d");
    MC_ANCHOR(CRC16_ARC_INITIAL == 0, "doc/regp.txt: the initial value is zero");
}

/* ---- family: step ---------------------------------------------------------- */

static void
family_step(void)
{
    unsigned char *o = mc_exact(1);
    for (unsigned hi = 0; hi < 256; ++hi) {
        if (!mc_case("step states=%02x00..%02xff octets=00..ff: ufw_crc16_arc(state,&octet,1)", hi, hi))
            continue;
        bool bad = false;
        for (unsigned lo = 0; lo < 256 && !bad; ++lo) {
            const uint16_t st = (uint16_t)(hi << 8 | lo);
            for (unsigned x = 0; x < 256; ++x) {
                *o = (unsigned char)x;
                const uint16_t got = ufw_crc16_arc(st, o, 1);
                const uint16_t want = ref_octet(st, x);
                if (got != want) {
                    mc_fail("C16/step-is-crc16-arc",
                            "ufw_crc16_arc(0x%04x, {%02x}, 1) = 0x%04x, CRC-16/ARC gives 0x%04x",
                            st, x, got, want);
                    bad = true;
                    break;
                }
            }
        }
        mc_trans(65536);
        if (hi == 0) {
            /* the start-from-zero convenience function over the same octets */
            for (unsigned x = 0; x < 256; ++x) {
                *o = (unsigned char)x;
                const uint16_t got = ufw_buffer_crc16_arc(o, 1);
                if (got != ref_octet(0, x)) {
                    mc_fail("C16/buffer-starts-from-zero",
                            "ufw_buffer_crc16_arc({%02x}, 1) = 0x%04x, CRC-16/ARC from 0 gives 0x%04x",
                            x, got, ref_octet(0, x));
                    break;
                }
            }
            mc_trans(256);
        }
        mc_end(true, "step-agrees");
    }
    free(o);
}

/* ---- family: pair ---------------------------------------------------------- */

static void
pair_case(uint16_t st)
{
    if (!mc_case("pair state=%04x buffers=0000..ffff: octet variant, continuation, word variant", st))
        return;
    unsigned char *b = mc_exact(2);     /* 2 octets; malloc alignment suits uint16_t */
    for (unsigned x = 0; x < 256; ++x) {
        const uint16_t r1 = ref_octet(st, x);
        for (unsigned y = 0; y < 256; ++y) {
            b[0] = (unsigned char)x;
            b[1] = (unsigned char)y;
            const uint16_t want = ref_octet(r1, y);
            const uint16_t got = ufw_crc16_arc(st, b, 2);
            if (got != want) {
                mc_fail("C16/buffer-is-crc16-arc",
                        "ufw_crc16_arc(0x%04x, {%02x,%02x}, 2) = 0x%04x, CRC-16/ARC gives 0x%04x",
                        st, x, y, got, want);
                goto out;
            }
            const uint16_t cont = ufw_crc16_arc(ufw_crc16_arc(st, b, 1), b + 1, 1);
            if (cont != got) {
                mc_fail("C16/concatenation-continues",
                        "state 0x%04x octets %02x %02x: in one call 0x%04x, continued 0x%04x",
                        st, x, y, got, cont);
                goto out;
            }
            const uint16_t w = ufw_crc16_arc_u16(st, (const uint16_t *)(const void *)b, 1);
            if (w != want) {
                mc_fail("C16/word-variant-is-octet-image",
                        "ufw_crc16_arc_u16(0x%04x, word with memory image %02x %02x, 1) = 0x%04x, "
                        "octet checksum of the image is 0x%04x", st, x, y, w, want);
                goto out;
            }
        }
    }
out:
    mc_trans(4 * 65536);
    free(b);
    mc_end(true, "pair-agrees");
}

static void
family_pair(void)
{
    if (mc_thorough()) {
        for (unsigned st = 0; st < 65536; ++st)
            pair_case((uint16_t)st);
    } else {
        static const uint16_t sts[6] = { 0x0000, 0xffff, 0x8005, 0xa001, 0x0001, 0x8000 };
        for (int i = 0; i < 6; ++i)
            pair_case(sts[i]);
    }
}

/* ---- structured buffers ----------------------------------------------------- */

enum pat { P_RAMP, P_ZERO, P_ONES, P_A5, P_WALK, P_SINGLE };
static const char *const patname[] = { "ramp", "zeros", "ff", "a5", "walking-one", "single-then-zeros" };

static void
fill(unsigned char *p, size_t n, enum pat pat, unsigned x)
{
    for (size_t i = 0; i < n; ++i) {
        switch (pat) {
        case P_RAMP: p[i] = (unsigned char)(i + (i >> 8)); break;
        case P_ZERO: p[i] = 0x00; break;
        case P_ONES: p[i] = 0xff; break;
        case P_A5: p[i] = 0xa5; break;
        case P_WALK: p[i] = (unsigned char)(1u << (i % 8)); break;
        case P_SINGLE: p[i] = (i == 0) ? (unsigned char)x : 0x00; break;
        }
    }
}

static const uint16_t INITS[3] = { 0x0000, 0xffff, 0xa001 };
#define NMAX 4096
static uint16_t prefix[NMAX + 1];

static void
split_case(enum pat pat, unsigned x, size_t n, uint16_t init)
{
    if (!mc_case("split pattern=%s(%02x) n=%zu init=%04x cut=0..%zu", patname[pat], x, n, init, n))
        return;
    unsigned char *buf = mc_exact(n);
    fill(buf, n, pat, x);
    prefix[0] = init;
    for (size_t i = 0; i < n; ++i)
        prefix[i + 1] = ref_octet(prefix[i], buf[i]);
    const uint16_t whole = ufw_crc16_arc(init, buf, n);
    mc_trans(1);
    if (whole != prefix[n]) {
        mc_fail("C16/buffer-is-crc16-arc", "%zu octets from 0x%04x: 0x%04x, CRC-16/ARC gives 0x%04x",
                n, init, whole, prefix[n]);
    } else {
        for (size_t k = 0; k <= n; ++k) {
            const uint16_t a = ufw_crc16_arc(init, buf, k);
            const uint16_t ab = ufw_crc16_arc(a, buf + k, n - k);
            mc_trans(2);
            if (a != prefix[k]) {
                mc_fail("C16/buffer-is-crc16-arc",
                        "first %zu of %zu octets from 0x%04x: 0x%04x, CRC-16/ARC gives 0x%04x",
                        k, n, init, a, prefix[k]);
                break;
            }
            if (ab != whole) {
                mc_fail("C16/concatenation-continues",
                        "%zu octets cut at %zu: whole 0x%04x, continued 0x%04x", n, k, whole, ab);
                break;
            }
        }
    }
    if (init == 0) {
        const uint16_t z = ufw_buffer_crc16_arc(buf, n);
        mc_trans(1);
        if (z != prefix[n])
            mc_fail("C16/buffer-starts-from-zero", "ufw_buffer_crc16_arc over %zu octets: 0x%04x, expected 0x%04x",
                    n, z, prefix[n]);
    }
    free(buf);
    mc_end(true, "split-agrees");
}

static void
family_split(void)
{
    static const unsigned quick_singles[8] = { 0x01, 0x02, 0x10, 0x7f, 0x80, 0xa5, 0xc0, 0xff };
    for (int ii = 0; ii < 3; ++ii) {
        for (int p = P_RAMP; p <= P_WALK; ++p)
            split_case((enum pat)p, 0, NMAX, INITS[ii]);
        for (unsigned x = 1; x < 256; ++x) {
            bool big = mc_thorough();
            for (int q = 0; q < 8 && !big; ++q)
                big = quick_singles[q] == x;
            split_case(P_SINGLE, x, big ? NMAX : 256, INITS[ii]);
        }
    }
}

/* ---- family: length -------------------------------------------------------- */

static void
family_length(void)
{
    static const uint16_t inits[4] = { 0x0000, 0xffff, 0xa001, 0x8005 };
    static const enum pat pats[3] = { P_RAMP, P_ONES, P_WALK };
    size_t lens[80];
    int nl = 0;
    for (size_t n = 0; n <= 64; ++n)
        lens[nl++] = n;
    const size_t more[] = { 255, 256, 257, 4095, 4096, 4097 };
    for (size_t i = 0; i < sizeof more / sizeof more[0]; ++i)
        lens[nl++] = more[i];
    for (int pi = 0; pi < 3; ++pi)
        for (int ii = 0; ii < 4; ++ii)
            for (int li = 0; li < nl; ++li) {
                const size_t n = lens[li];
                if (!mc_case("length pattern=%s n=%zu init=%04x (exact-size block)", patname[pats[pi]], n, inits[ii]))
                    continue;
                unsigned char *buf = mc_exact(n);
                unsigned char *img = malloc(n + 1);
                fill(img, n, pats[pi], 0);
                if (n)
                    memcpy(buf, img, n);
                const uint16_t want = ref_buf(inits[ii], img, n);
                const uint16_t got = ufw_crc16_arc(inits[ii], buf, n);
                mc_trans(1);
                mc_log("got=%04x want=%04x", got, want);
                if (got != want)
                    mc_fail("C16/buffer-is-crc16-arc", "%zu octets from 0x%04x: 0x%04x, CRC-16/ARC gives 0x%04x",
                            n, inits[ii], got, want);
                free(img);
                free(buf);
                mc_end(n > 0, n ? "length-agrees" : "empty-returns-state");
            }
}

/* ---- family: words --------------------------------------------------------- */

enum wpat { W_RAMP, W_LOHI, W_HILO, W_WALK };
static const char *const wpatname[] = { "ramp(1234+0301*i)", "00ff", "ff00", "walking-one" };

static void
family_words(void)
{
    static const uint16_t inits[4] = { 0x0000, 0xffff, 0xa001, 0x8005 };
    for (int pi = 0; pi < 4; ++pi)
        for (int ii = 0; ii < 4; ++ii)
            for (size_t len = 0; len <= 64; ++len) {
                if (!mc_case("words pattern=%s len=%zu init=%04x cut=0..%zu", wpatname[pi], len, inits[ii], len))
                    continue;
                uint16_t *w = mc_exact(2 * len);
                for (size_t i = 0; i < len; ++i) {
                    switch (pi) {
                    case W_RAMP: w[i] = (uint16_t)(0x1234u + 0x0301u * i); break;
                    case W_LOHI: w[i] = 0x00ffu; break;
                    case W_HILO: w[i] = 0xff00u; break;
                    default: w[i] = (uint16_t)(1u << (i % 16)); break;
                    }
                }
                /* the words' in-memory octet image */
                unsigned char *img = malloc(2 * len + 1);
                if (len)
                    memcpy(img, w, 2 * len);
                const uint16_t want = ref_buf(inits[ii], img, 2 * len);
                const uint16_t got = ufw_crc16_arc_u16(inits[ii], w, len);
                const uint16_t oct = ufw_crc16_arc(inits[ii], w, 2 * len);
                mc_trans(2);
                mc_log("word=%04x octet=%04x reference=%04x", got, oct, want);
                if (got != want || got != oct) {
                    mc_fail("C16/word-variant-is-octet-image",
                            "%zu words from 0x%04x: word variant 0x%04x, octet variant over the image 0x%04x, "
                            "CRC-16/ARC of the image 0x%04x", len, inits[ii], got, oct, want);
                } else {
                    for (size_t k = 0; k <= len; ++k) {
                        const uint16_t a = ufw_crc16_arc_u16(inits[ii], w, k);
                        const uint16_t ab = ufw_crc16_arc_u16(a, w + k, len - k);
                        mc_trans(2);
                        if (a != ref_buf(inits[ii], img, 2 * k) || ab != got) {
                            mc_fail("C16/concatenation-continues",
                                    "%zu words cut at %zu: first part 0x%04x, continued 0x%04x, whole 0x%04x",
                                    len, k, a, ab, got);
                            break;
                        }
                    }
                }
                if (inits[ii] == 0) {
                    const uint16_t z = ufw_buffer_crc16_arc_u16(w, len);
                    mc_trans(1);
                    if (z != want)
                        mc_fail("C16/buffer-starts-from-zero",
                                "ufw_buffer_crc16_arc_u16 over %zu words: 0x%04x, expected 0x%04x", len, z, want);
                }
                free(img);
                free(w);
                mc_end(len > 0, len ? "words-agree" : "empty-returns-state");
            }
}

int
main(int argc, char **argv)
{
    mc_init(argc, argv);
    anchors();
    family_step();
    family_pair();
    family_split();
    family_length();
    family_words();
    mc_finish(true, mc_thorough()
        ? "all 2^24 (state,octet) steps; all 2^16 two-octet buffers and words from all 2^16 states; "
          "260 structured 4 KiB buffers x 3 initial values cut at every position; "
          "exact blocks of lengths 0..64,255..257,4095..4097; word buffers of lengths 0..64 cut at every position"
        : "all 2^24 (state,octet) steps; all 2^16 two-octet buffers and words from 6 states; "
          "13 structured 4 KiB buffers and 247 single-octet-then-zeros buffers of 256 octets x 3 initial values cut at every position; "
          "exact blocks of lengths 0..64,255..257,4095..4097; word buffers of lengths 0..64 cut at every position");
    return 0;
}
