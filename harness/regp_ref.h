/*
 * regp_ref.h -- independent reference for the register protocol (doc/regp.txt):
 * frame encoder, SLIP / varint framing, frame decoder with verdict *set*, and
 * the closed driver around a real RegP instance (ledger allocator, scripted
 * memory backend with call log, capturing sink, scripted source).
 * Used by the C06..C09 harnesses.  Nothing in here is copied from ufw.
 */
#ifndef VERIF_REGP_REF_H
#define VERIF_REGP_REF_H

#include <errno.h>

#include <ufw/allocator.h>
#include <ufw/endpoints.h>
#include <ufw/register-protocol.h>

/* ---- CRC-16/ARC, bit serial ---------------------------------------------------- */
static uint16_t
rr_crc(uint16_t crc, const unsigned char *p, size_t n)
{
    for (size_t i = 0; i < n; ++i) {
        crc ^= p[i];
        for (int b = 0; b < 8; ++b)
            crc = (crc & 1) ? (uint16_t)((crc >> 1) ^ 0xA001u) : (uint16_t)(crc >> 1);
    }
    return crc;
}

/* ---- frames ----------------------------------------------------------------------- */
enum { RT_READ_REQ = 0, RT_READ_RESP = 1, RT_WRITE_REQ = 2, RT_WRITE_RESP = 3, RT_META = 15 };
enum { RO_W16 = 1, RO_HDCRC = 2, RO_PLCRC = 4 };

#define RR_MAXFRAME 4096

struct rframe {
    unsigned version, type, options, meta;
    uint16_t seq;
    uint32_t addr, bsize;
    uint16_t hdcrc, plcrc;        /* as found / to be sent */
    size_t hdrlen;                /* octets of header incl. checksums */
    const unsigned char *payload; /* wire octets */
    size_t plen;
    /* filled by rr_verdict */
    unsigned faults;   /* fault classes that definitely apply */
    unsigned alts;     /* fault classes that apply under one admissible reading of the document */
    bool plcrc_empty;  /* declares a payload checksum but carries no payload ("shall be unset") */
};

/* raw frame octets for the given fields.  The checksums are computed unless
 * the corresponding break_* flag asks for a wrong one. */
static size_t
rr_build(unsigned char *out, const struct rframe *f, bool break_hdcrc, bool break_plcrc)
{
    size_t n = 0;
    const unsigned motv = (f->version & 15u) | ((f->type & 15u) << 4) | ((f->options & 15u) << 8) | ((f->meta & 15u) << 12);
    out[n++] = (unsigned char)(motv >> 8);
    out[n++] = (unsigned char)motv;
    out[n++] = (unsigned char)(f->seq >> 8);
    out[n++] = (unsigned char)f->seq;
    for (int s = 24; s >= 0; s -= 8)
        out[n++] = (unsigned char)(f->addr >> s);
    for (int s = 24; s >= 0; s -= 8)
        out[n++] = (unsigned char)(f->bsize >> s);
    uint16_t plcrc = rr_crc(0, f->payload, f->plen);
    if (break_plcrc)
        plcrc ^= 0x0100;
    if (f->options & RO_HDCRC) {
        unsigned char pc[2] = { (unsigned char)(plcrc >> 8), (unsigned char)plcrc };
        uint16_t c = rr_crc(0, out, 12);
        if (f->options & RO_PLCRC)
            c = rr_crc(c, pc, 2);
        if (break_hdcrc)
            c ^= 0x0001;
        out[n++] = (unsigned char)(c >> 8);
        out[n++] = (unsigned char)c;
    }
    if (f->options & RO_PLCRC) {
        out[n++] = (unsigned char)(plcrc >> 8);
        out[n++] = (unsigned char)plcrc;
    }
    if (f->plen)
        memcpy(out + n, f->payload, f->plen);
    return n + f->plen;
}

/* verdict classes */
enum { RV_OK = 1, RV_BADHDR = 2, RV_BADHDRCRC = 4, RV_BADSIZE = 8, RV_BADPLCRC = 16 };

/* Independent reading of doc/regp.txt: the set of admissible verdicts for an
 * arbitrary octet string taken as one frame.  Fields are filled as far as the
 * header could be read.
 *
 * The document names four ways in which a frame can be wrong but does not say
 * in which order a receiver has to look for them, so a frame that is wrong in
 * several ways may be classified by any of them: the result is the union of
 * every fault class that applies (each one evaluated as far as the octets
 * allow it), RV_OK only if none applies.  Where the document itself can be
 * read both ways (f->alts) the set holds both readings. */
static unsigned
rr_verdict(const unsigned char *raw, size_t n, struct rframe *f)
{
    memset(f, 0, sizeof *f);
    if (n < 12) {
        f->faults = RV_BADHDR;
        return RV_BADHDR;
    }
    const unsigned motv = ((unsigned)raw[0] << 8) | raw[1];
    f->version = motv & 15u;
    f->type = (motv >> 4) & 15u;
    f->options = (motv >> 8) & 15u;
    f->meta = (motv >> 12) & 15u;
    f->seq = (uint16_t)((raw[2] << 8) | raw[3]);
    f->addr = ((uint32_t)raw[4] << 24) | ((uint32_t)raw[5] << 16) | ((uint32_t)raw[6] << 8) | raw[7];
    f->bsize = ((uint32_t)raw[8] << 24) | ((uint32_t)raw[9] << 16) | ((uint32_t)raw[10] << 8) | raw[11];
    unsigned v = 0, alt = 0;
    bool type_known = true;
    if (f->version != 0)
        v |= RV_BADHDR;
    if (f->options & 8u)
        v |= RV_BADHDR;
    switch (f->type) {
    case RT_READ_REQ: case RT_WRITE_REQ:
        if (f->meta != 0) v |= RV_BADHDR;
        break;
    case RT_READ_RESP: case RT_WRITE_RESP:
        if (f->meta > 11) v |= RV_BADHDR;
        break;
    case RT_META:
        if (f->meta < 1 || f->meta > 2) v |= RV_BADHDR;
        break;
    default:
        v |= RV_BADHDR;
        type_known = false;
    }
    size_t h = 12;
    if (f->options & RO_HDCRC) h += 2;
    if (f->options & RO_PLCRC) h += 2;
    if (n < h) {
        /* the declared header is not there: nothing else can be evaluated */
        f->faults = RV_BADHDR;
        return RV_BADHDR;
    }
    f->hdrlen = h;
    size_t o = 12;
    if (f->options & RO_HDCRC) {
        f->hdcrc = (uint16_t)((raw[o] << 8) | raw[o + 1]);
        o += 2;
    }
    if (f->options & RO_PLCRC) {
        f->plcrc = (uint16_t)((raw[o] << 8) | raw[o + 1]);
        o += 2;
    }
    if (f->options & RO_HDCRC) {
        uint16_t c = rr_crc(0, raw, 12);
        if (f->options & RO_PLCRC)
            c = rr_crc(c, raw + h - 2, 2);
        if (c != f->hdcrc)
            v |= RV_BADHDRCRC;
    }
    f->payload = raw + h;
    f->plen = n - h;
    if (type_known) {
        uint64_t want;
        if (f->type == RT_READ_REQ || f->type == RT_META)
            want = 0;
        else
            want = (uint64_t)f->bsize * ((f->options & RO_W16) ? 2u : 1u);
        if (want != f->plen)
            v |= RV_BADSIZE;
        else if ((f->type == RT_READ_RESP || f->type == RT_WRITE_RESP) && f->meta <= 11) {
            /* doc 3.1.x fixes the payload of most response kinds.  Whether a
             * receiver has to hold a response to that is not said: both
             * readings are admitted. */
            const unsigned code = f->meta;
            const bool none = code == 1 || code == 2 || code == 3 || code == 6 || code == 11 || (code == 0 && f->type == RT_WRITE_RESP);
            const bool four = code == 4 || code == 5 || (code >= 7 && code <= 10);
            if (none && f->plen != 0)
                alt |= RV_BADSIZE;
            if (four && (f->plen != 4 || (f->options & RO_W16)))
                alt |= RV_BADSIZE | ((f->options & RO_W16) ? RV_BADHDR : 0);
        }
    }
    if ((f->options & RO_PLCRC) && f->plen == 0) {
        f->plcrc_empty = true;
        alt |= RV_BADHDR | RV_BADPLCRC; /* "shall be unset": the document does not decide */
    } else if (f->options & RO_PLCRC) {
        if (rr_crc(0, f->payload, f->plen) != f->plcrc)
            v |= RV_BADPLCRC;
    }
    f->faults = v;
    f->alts = alt;
    return (v ? v : RV_OK) | alt;
}

/* a frame the library itself sent: valid, and not relying on the undecided
 * "payload checksum declared without payload" */
static inline bool
rr_reply_ok(unsigned v, const struct rframe *f)
{
    return (v & RV_OK) && !f->plcrc_empty;
}

/* ---- framing ------------------------------------------------------------------------ */
static size_t
rr_slip(unsigned char *out, const unsigned char *raw, size_t n)
{
    size_t k = 0;
    for (size_t i = 0; i < n; ++i) {
        if (raw[i] == 0xc0) {
            out[k++] = 0xdb;
            out[k++] = 0xdc;
        } else if (raw[i] == 0xdb) {
            out[k++] = 0xdb;
            out[k++] = 0xdd;
        } else
            out[k++] = raw[i];
    }
    out[k++] = 0xc0;
    return k;
}

static size_t
rr_varint(unsigned char *out, uint64_t v)
{
    size_t k = 0;
    do {
        unsigned char b = v & 0x7f;
        v >>= 7;
        out[k++] = b | (v ? 0x80 : 0);
    } while (v);
    return k;
}

static size_t
rr_lenprefix(unsigned char *out, const unsigned char *raw, size_t n)
{
    size_t k = rr_varint(out, n);
    memcpy(out + k, raw, n);
    return k + n;
}

/* split a captured wire stream into raw frames; returns the number of frames,
 * -1 on a framing error.  frames[i] point into `scratch`. */
struct rr_frames {
    int n;
    size_t off[8], len[8];
};

static int
rr_unframe(bool tcp, const unsigned char *wire, size_t n, unsigned char *scratch, struct rr_frames *fr)
{
    fr->n = 0;
    size_t k = 0, i = 0;
    if (tcp) {
        while (i < n) {
            uint64_t len = 0;
            int shift = 0;
            for (;;) {
                if (i >= n || shift > 63)
                    return -1;
                const unsigned char b = wire[i++];
                len |= (uint64_t)(b & 0x7f) << shift;
                shift += 7;
                if (!(b & 0x80))
                    break;
            }
            if (len > n - i || fr->n >= 8)
                return -1;
            fr->off[fr->n] = k;
            fr->len[fr->n] = (size_t)len;
            memcpy(scratch + k, wire + i, (size_t)len);
            k += (size_t)len;
            i += (size_t)len;
            fr->n++;
        }
        return fr->n;
    }
    size_t start = k;
    while (i < n) {
        const unsigned char b = wire[i++];
        if (b == 0xc0) {
            if (fr->n >= 8)
                return -1;
            fr->off[fr->n] = start;
            fr->len[fr->n] = k - start;
            fr->n++;
            start = k;
        } else if (b == 0xdb) {
            if (i >= n)
                return -1;
            const unsigned char c = wire[i++];
            if (c == 0xdc)
                scratch[k++] = 0xc0;
            else if (c == 0xdd)
                scratch[k++] = 0xdb;
            else
                return -1;
        } else
            scratch[k++] = b;
    }
    if (k != start)
        return -1; /* trailing octets without delimiter */
    return fr->n;
}

/* ---- the closed driver ------------------------------------------------------------------ */

#define DRV_WIRE 8192
#define DRV_MAXCALLS 8

struct drv_call {
    bool write, m16;
    uint32_t addr;
    size_t bsize;
    unsigned char payload[600];
    size_t plen; /* octets copied (writes) */
};

struct drv {
    RegP p;
    BlockAllocator alloc;
    /* allocator ledger */
    size_t blocksize;
    void *live[8];
    int nlive, allocs, frees, bad_frees;
    unsigned fail_mask; /* bit k set: k-th allocation fails */
    /* backend */
    struct drv_call call[DRV_MAXCALLS];
    int ncalls;
    RPResponse verdict;
    uint32_t verdict_addr;
    bool m16;
    /* the buffer the backend was handed must hold the block it has to fill;
     * exact-size allocator blocks + ASan see an overflow when it fills it */
    /* source */
    const unsigned char *in;
    size_t inlen, inpos;
    long src_err_at;  /* octet index at which the source fails hard (-1 never) */
    int src_err;
    long src_calls, src_budget;
    /* sink */
    unsigned char out[DRV_WIRE];
    size_t outlen;
    long sink_err_at;
    int sink_err;
    bool sink_err_hit, src_err_hit;
    bool overrun; /* budget exceeded somewhere */
};

static struct drv *g_drv;

static int
drv_alloc(void *driver, void **m, size_t n)
{
    struct drv *d = driver;
    const int k = d->allocs++;
    if (d->fail_mask & (1u << (k > 31 ? 31 : k))) {
        *m = NULL;
        return -ENOMEM;
    }
    if (d->nlive >= 8) {
        d->bad_frees += 100; /* more live blocks than any sensible receiver needs: leak */
        *m = NULL;
        return -ENOMEM;
    }
    /* whatever size is asked for (the statement does not forbid further
     * allocations): exact size, so that ASan guards both ends */
    *m = malloc(n ? n : 1);
    memset(*m, 0xcd, n);
    d->live[d->nlive++] = *m;
    return 0;
}

static void
drv_free(void *driver, void *m)
{
    struct drv *d = driver;
    for (int i = 0; i < d->nlive; ++i)
        if (d->live[i] == m) {
            d->live[i] = d->live[--d->nlive];
            d->frees++;
            free(m);
            return;
        }
    d->bad_frees++; /* double or foreign free */
}

static int
drv_src_octet(void *driver, void *out)
{
    struct drv *d = driver;
    if (++d->src_calls > d->src_budget) {
        d->overrun = true;
        return -EIO;
    }
    if (d->src_err_at >= 0 && (long)d->inpos == d->src_err_at) {
        d->src_err_hit = true;
        return d->src_err;
    }
    if (d->inpos >= d->inlen)
        return -ENODATA;
    *(unsigned char *)out = d->in[d->inpos++];
    return 1;
}

static ssize_t
drv_src_chunk(void *driver, void *out, size_t n)
{
    struct drv *d = driver;
    if (++d->src_calls > d->src_budget) {
        d->overrun = true;
        return -EIO;
    }
    if (d->src_err_at >= 0 && (long)d->inpos <= d->src_err_at && d->src_err_at < (long)(d->inpos + n)) {
        /* deliver up to the failing octet first */
        const size_t k = (size_t)d->src_err_at - d->inpos;
        if (k == 0) {
            d->src_err_hit = true;
            return d->src_err;
        }
        memcpy(out, d->in + d->inpos, k);
        d->inpos += k;
        return (ssize_t)k;
    }
    if (d->inpos >= d->inlen)
        return -ENODATA;
    size_t k = d->inlen - d->inpos;
    if (k > n)
        k = n;
    memcpy(out, d->in + d->inpos, k);
    d->inpos += k;
    return (ssize_t)k;
}

static ssize_t
drv_sink_chunk(void *driver, const void *data, size_t n)
{
    struct drv *d = driver;
    if (d->sink_err_at >= 0 && d->outlen <= (size_t)d->sink_err_at && (size_t)d->sink_err_at < d->outlen + n) {
        const size_t k = (size_t)d->sink_err_at - d->outlen;
        if (k == 0) {
            d->sink_err_hit = true;
            return d->sink_err;
        }
        memcpy(d->out + d->outlen, data, k);
        d->outlen += k;
        return (ssize_t)k;
    }
    if (d->outlen + n > DRV_WIRE) {
        d->overrun = true;
        return -EIO;
    }
    memcpy(d->out + d->outlen, data, n);
    d->outlen += n;
    return (ssize_t)n;
}

/* scratch region a chunk source may offer through the getbuffer extension:
 * sts_n then moves the frame in chunks of up to 64 octets instead of octet by
 * octet (a global of its own, so that ASan guards both ends) */
static unsigned char drv_scratch[64];

static ByteBuffer
drv_src_getbuffer(Source *s)
{
    (void)s;
    ByteBuffer b;
    byte_buffer_use(&b, drv_scratch, sizeof drv_scratch); /* region [offset, used) = the whole block */
    return b;
}

static RPBlockAccess
drv_access(bool write, bool m16, uint32_t addr, size_t bsize, const void *rd, void *wr)
{
    struct drv *d = g_drv;
    RPBlockAccess a = { d->verdict, d->verdict_addr };
    if (d->ncalls < DRV_MAXCALLS) {
        struct drv_call *c = &d->call[d->ncalls];
        c->write = write;
        c->m16 = m16;
        c->addr = addr;
        c->bsize = bsize;
        const size_t octets = bsize * (m16 ? 2u : 1u);
        c->plen = 0;
        if (write) {
            /* read the whole announced payload: ASan sees a short one */
            const unsigned char *s = rd;
            unsigned acc = 0;
            for (size_t i = 0; i < octets; ++i) {
                acc += s[i];
                if (i < sizeof c->payload)
                    c->payload[i] = s[i];
            }
            c->plen = octets < sizeof c->payload ? octets : sizeof c->payload;
            (void)acc;
        } else {
            /* fill the whole announced block: ASan sees a buffer that is too small */
            unsigned char *t = wr;
            for (size_t i = 0; i < octets; ++i)
                t[i] = (unsigned char)(0x30 + 7 * i + (addr & 0xf));
        }
    }
    d->ncalls++;
    return a;
}

static RPBlockAccess drv_r16(uint32_t a, size_t n, uint16_t *b) { return drv_access(false, true, a, n, NULL, b); }
static RPBlockAccess drv_w16(uint32_t a, size_t n, const uint16_t *b) { return drv_access(true, true, a, n, b, NULL); }
static RPBlockAccess drv_r8(uint32_t a, size_t n, uint8_t *b) { return drv_access(false, false, a, n, NULL, b); }
static RPBlockAccess drv_w8(uint32_t a, size_t n, const uint8_t *b) { return drv_access(true, false, a, n, b, NULL); }

/* what the backend writes for a read of (addr, octet index i) */
static inline unsigned char
drv_read_octet(uint32_t addr, size_t i)
{
    return (unsigned char)(0x30 + 7 * i + (addr & 0xf));
}

enum { DRV_SRC_CHUNK = 0, DRV_SRC_OCTET = 1, DRV_SRC_CHUNK_GETBUFFER = 2 };

static void
drv_init_ex(struct drv *d, bool tcp, bool m16, size_t blocksize, int srcmode)
{
    const bool octet_source = srcmode == DRV_SRC_OCTET;
    memset(d, 0, sizeof *d);
    g_drv = d;
    regp_init(&d->p);
    d->blocksize = blocksize;
    d->alloc = (BlockAllocator)MAKE_GENERIC_BLOCKALLOC(d, drv_alloc, drv_free, blocksize);
    regp_use_allocator(&d->p, &d->alloc);
    d->m16 = m16;
    if (m16)
        regp_use_memory16(&d->p, drv_r16, drv_w16);
    else
        regp_use_memory8(&d->p, drv_r8, drv_w8);
    Source src;
    Sink snk;
    if (octet_source)
        octet_source_init(&src, drv_src_octet, d);
    else
        chunk_source_init(&src, drv_src_chunk, d);
    if (srcmode == DRV_SRC_CHUNK_GETBUFFER)
        src.ext.getbuffer = drv_src_getbuffer;
    chunk_sink_init(&snk, drv_sink_chunk, d);
    regp_use_channel(&d->p, tcp ? RP_EP_TCP : RP_EP_SERIAL, src, snk);
    d->verdict = RP_RESP_ACK;
    d->src_err_at = d->sink_err_at = -1;
    d->src_err = d->sink_err = -EIO;
    d->src_budget = 100000;
}

static void
drv_init(struct drv *d, bool tcp, bool m16, size_t blocksize, bool octet_source)
{
    drv_init_ex(d, tcp, m16, blocksize, octet_source ? DRV_SRC_OCTET : DRV_SRC_CHUNK);
}

static void
drv_feed(struct drv *d, const unsigned char *wire, size_t n)
{
    d->in = wire;
    d->inlen = n;
    d->inpos = 0;
}

/* ledger balanced: every block handed out was released exactly once */
static inline bool
drv_balanced(const struct drv *d)
{
    return d->nlive == 0 && d->bad_frees == 0;
}

static void
drv_release(struct drv *d)
{
    for (int i = 0; i < d->nlive; ++i)
        free(d->live[i]);
    d->nlive = 0;
}

/* ---- learned receive capacity (C08, C09) ---------------------------------------------- */
/* How many octets of a block the receiver keeps for its own bookkeeping is the
 * library's business.  The capacity of an allocator block size (the largest
 * message it receives into such a block) is therefore learned from the
 * library's own answers: well-formed write requests of every length exist on
 * the length-prefix transport, and the capacity is the length L for which the
 * receiver accepts the request of L octets and does not accept the one of L+1.
 * sizeof(RPFrame) only serves as the first guess.  Probes are not cases: they
 * count no transitions and report nothing; a probe that is needed inside a
 * case runs inside it (a crash is then the case's). */

/* a well-formed request of raw length L in wire form; returns the wire length,
 * 0 if the transport has no well-formed frame of that length.  tcp: octet
 * write request with L-12 payload octets; serial: the octet read request
 * (L == 14) or an octet write request with L-16 payload octets (L >= 17). */
static size_t
drv_probe_frame(unsigned char *wire, unsigned char *raw, unsigned char *pl, bool tcp, size_t L)
{
    struct rframe f;
    memset(&f, 0, sizeof f);
    f.seq = 0x7e57;
    f.addr = 0x10;
    if (tcp) {
        if (L < 12)
            return 0;
        f.type = RT_WRITE_REQ;
        f.plen = L - 12;
    } else if (L == 14) {
        f.type = RT_READ_REQ;
        f.options = RO_HDCRC;
        f.bsize = 1;
    } else if (L >= 17) {
        f.type = RT_WRITE_REQ;
        f.options = RO_HDCRC | RO_PLCRC;
        f.plen = L - 16;
    } else
        return 0;
    if (f.type == RT_WRITE_REQ) {
        for (size_t i = 0; i < f.plen; ++i)
            pl[i] = (unsigned char)(0x41 + i % 23);
        f.payload = pl;
        f.bsize = (uint32_t)f.plen;
    }
    const size_t n = rr_build(raw, &f, false, false);
    return tcp ? rr_lenprefix(wire, raw, n) : rr_slip(wire, raw, n);
}

static struct drv drv_probe_d;

/* does a receiver with blocks of bsz octets accept the well-formed request of
 * raw length L?  (-1: there is no such request on this transport) */
static int
drv_probe_accepts(bool tcp, size_t bsz, size_t L)
{
    unsigned char *raw = malloc(L + 32), *pl = malloc(L + 32), *wire = malloc(2 * L + 64);
    const size_t wn = drv_probe_frame(wire, raw, pl, tcp, L);
    int res = -1;
    if (wn) {
        struct drv *const saved = g_drv;
        struct drv *d = &drv_probe_d;
        drv_init_ex(d, tcp, false, bsz, tcp ? DRV_SRC_CHUNK : DRV_SRC_OCTET);
        d->src_budget = (long)(4 * wn + 1000);
        drv_feed(d, wire, wn);
        RPMaybeFrame mf;
        memset(&mf, 0, sizeof mf);
        const int rrc = regp_recv(&d->p, &mf);
        res = rrc >= 0 && mf.error.id == 0 && mf.frame != NULL;
        if (mf.frame != NULL)
            regp_free(&d->p, mf.frame);
        drv_release(d);
        g_drv = saved;
    }
    free(raw);
    free(pl);
    free(wire);
    return res;
}

#define DRV_CAP_UNKNOWN ((size_t)-1)
#define DRV_CAPCACHE 4096
static struct drv_capent {
    size_t bsz, cap;
    signed char have, serial; /* serial: 0 not asked yet, 1 agrees, -1 does not */
} drv_capcache[DRV_CAPCACHE], drv_capbig[8];
static int drv_ncapbig;

static struct drv_capent *
drv_capent_for(size_t bsz)
{
    if (bsz < DRV_CAPCACHE)
        return &drv_capcache[bsz];
    for (int i = 0; i < drv_ncapbig; ++i)
        if (drv_capbig[i].bsz == bsz)
            return &drv_capbig[i];
    struct drv_capent *e = &drv_capbig[drv_ncapbig < 8 ? drv_ncapbig++ : 7];
    memset(e, 0, sizeof *e);
    return e;
}

/* the capacity of blocks of bsz octets as the library shows it: the length of
 * the longest well-formed request it receives into one.  0: it receives none
 * (the capacity is below the 12 octets of the shortest frame);
 * DRV_CAP_UNKNOWN: its answers do not define one. */
static size_t
drv_learn_capacity(size_t bsz)
{
    struct drv_capent *e = drv_capent_for(bsz);
    if (e->have && e->bsz == bsz)
        return e->cap;
    e->bsz = bsz;
    e->have = 1;
    e->serial = 0;
    /* the first guess settles most blocks with two probes */
    if (bsz > sizeof(RPFrame) + 12) {
        const size_t g = bsz - sizeof(RPFrame);
        if (drv_probe_accepts(true, bsz, g) == 1 && drv_probe_accepts(true, bsz, g + 1) == 0)
            return e->cap = g;
    }
    /* a request longer than the whole block cannot have been received into it */
    if (drv_probe_accepts(true, bsz, bsz + 1) != 0)
        return e->cap = DRV_CAP_UNKNOWN;
    size_t lo = 11, hi = bsz + 1; /* lo: accepted (or the sentinel 11), hi: not accepted */
    while (hi - lo > 1) {
        const size_t mid = lo + (hi - lo) / 2;
        if (drv_probe_accepts(true, bsz, mid) == 1)
            lo = mid;
        else
            hi = mid;
    }
    return e->cap = lo == 11 ? 0 : lo;
}

/* do serial frames meet the same capacity?  (the longest well-formed serial
 * request of at most cap octets is accepted, the shortest longer one is not) */
static bool
drv_capacity_serial_agrees(size_t bsz)
{
    const size_t cap = drv_learn_capacity(bsz);
    struct drv_capent *e = drv_capent_for(bsz);
    if (cap == DRV_CAP_UNKNOWN)
        return false;
    if (e->serial == 0) {
        const size_t below = cap >= 17 ? cap : cap >= 14 ? 14 : 0;
        const size_t above = cap + 1 >= 17 ? cap + 1 : cap + 1 <= 14 ? 14 : 17;
        const bool ok = (below == 0 || drv_probe_accepts(false, bsz, below) == 1) && drv_probe_accepts(false, bsz, above) == 0;
        e->serial = ok ? 1 : -1;
    }
    return e->serial > 0;
}

/* a block size whose learned capacity is exactly `target` octets (on both
 * transports if `serial`); 0 if none of the 33 sizes from the first guess
 * upwards has it */
static size_t
drv_block_for_capacity(size_t target, bool serial)
{
    for (size_t d = 0; d <= 32; ++d) {
        const size_t bsz = sizeof(RPFrame) + target + d;
        if (drv_learn_capacity(bsz) == target && (!serial || drv_capacity_serial_agrees(bsz)))
            return bsz;
    }
    return 0;
}

/* drv_learn_capacity with a first guess of the caller's: two probes when it is right */
static size_t
drv_learn_capacity_hinted(size_t bsz, size_t hint)
{
    struct drv_capent *e = drv_capent_for(bsz);
    if (e->have && e->bsz == bsz)
        return e->cap;
    if (hint >= 12 && drv_probe_accepts(true, bsz, hint) == 1 && drv_probe_accepts(true, bsz, hint + 1) == 0) {
        e->bsz = bsz;
        e->have = 1;
        e->serial = 0;
        return e->cap = hint;
    }
    return drv_learn_capacity(bsz);
}

/* The same without the assumption that the receiver keeps about sizeof(RPFrame)
 * octets of a block for itself.  What it keeps is first read off a block of
 * 512 octets (cheap probes) and tried; then the 33 sizes above; then the
 * smallest block size whose learned capacity reaches `target` is searched by
 * bisection (capacities are taken to grow with the block size).  The result is
 * always verified against the learned capacity, never assumed.
 * 0: no block size up to target + sizeof(RPFrame) + 1024 shows that capacity. */
static size_t
drv_block_for_capacity_wide(size_t target, bool serial)
{
    const size_t c512 = drv_learn_capacity(512);
    size_t kept = 0;
    /* A receiver that does not take the request of c512 + 1 octets into a much
     * larger block either refuses it for another reason than its length: what
     * its answers show is no capacity, and no block is searched for. */
    static signed char sane; /* 0 not asked, 1 yes, -1 no */
    if (sane == 0)
        sane = (c512 != DRV_CAP_UNKNOWN && drv_probe_accepts(true, 2048, c512 ? c512 + 1 : 12) == 1) ? 1 : -1;
    if (sane < 0)
        return 0;
    if (c512 != 0 && c512 < 512) {
        kept = 512 - c512;
        if (drv_learn_capacity_hinted(target + kept, target) == target && (!serial || drv_capacity_serial_agrees(target + kept)))
            return target + kept;
    }
    const size_t bsz = drv_block_for_capacity(target, serial);
    if (bsz != 0)
        return bsz;
    size_t lo = target ? target - 1 : 0; /* a block cannot receive a frame longer than itself */
    size_t hi = target + sizeof(RPFrame) + 1024;
    const size_t chi = drv_learn_capacity_hinted(hi, kept && hi > kept ? hi - kept : 0);
    if (chi == DRV_CAP_UNKNOWN || chi < target)
        return 0;
    while (hi - lo > 1) {
        const size_t mid = lo + (hi - lo) / 2;
        const size_t c = drv_learn_capacity_hinted(mid, kept && mid > kept ? mid - kept : 0);
        if (c == DRV_CAP_UNKNOWN)
            return 0;
        if (c >= target)
            hi = mid;
        else
            lo = mid;
    }
    if (drv_learn_capacity(hi) != target || (serial && !drv_capacity_serial_agrees(hi)))
        return 0;
    return hi;
}

#endif /* VERIF_REGP_REF_H */
