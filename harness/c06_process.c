/*
 * C06 -- a valid request is executed exactly once and answered faithfully.
 *
 * Requests are produced by the reference encoder (regp_ref.h), fed through
 * regp_recv + regp_process + regp_free of a real RegP whose memory backend
 * records every call and answers with a scripted verdict; the reply octets
 * are decoded by the reference decoder.
 *   family A: every request kind x semantics x attached memory x address x
 *             block size 0..capacity x payload content x sequence x transport,
 *             backend acknowledging;
 *   family B: every backend verdict (12 codes) x reported address;
 *   family C: responses and meta messages as input (no call, no reply);
 *   family D: sessions -- every ordered pair of a reduced frame alphabet on
 *             one instance; the second exchange must equal the exchange on a
 *             fresh instance (memory accesses and reply octets).
 *   family E: reads that cannot fit under any reading (block sizes just above
 *             the block, and sizes whose octet count wraps in 32 bits): a
 *             transmit-overflow response and no memory access.
 * Reads whose data fits the block behind the request's own header but not
 * together with a full 16-octet response header ("the band") may be served or
 * answered with a transmit-overflow response without access: statement C09
 * prescribes the latter for "a read whose answer cannot fit" and the answer is
 * a message with a header of its own.
 */
#include "mc.h"
#include "regp_ref.h"

#define BLOCKSIZE 160

static struct drv D, F;

static const uint32_t ADDRS[] = { 0, 1, 0x64, 0xffff, 0x10000, 0xffffffffu };
static const uint16_t SEQS[] = { 0, 1, 0xc0db, 0xffff };

static void
fill(unsigned char *p, size_t n, int content)
{
    static const unsigned char alt[2] = { 0xdc, 0xdd };
    for (size_t i = 0; i < n; ++i)
        p[i] = content == 0 ? (unsigned char)(i + 1) : content == 1 ? 0xc0 : content == 2 ? 0xdb : alt[i & 1];
}

struct req {
    bool tcp, write, sem16, mem16;
    uint32_t addr;
    uint32_t bsize;
    int content;
    uint16_t seq;
    RPResponse verdict;
    uint32_t vaddr;
    /* non-request input (family C): type/meta override */
    int rawtype; /* -1: request */
    unsigned rawmeta;
};

static size_t
build_wire(const struct req *q, unsigned char *wire, unsigned char *payload, size_t *plen_out)
{
    unsigned char raw[RR_MAXFRAME];
    struct rframe f;
    memset(&f, 0, sizeof f);
    const size_t ws = q->sem16 ? 2 : 1;
    size_t plen = 0;
    if (q->rawtype < 0) {
        f.type = q->write ? RT_WRITE_REQ : RT_READ_REQ;
        plen = q->write ? q->bsize * ws : 0;
    } else {
        f.type = (unsigned)q->rawtype;
        f.meta = q->rawmeta;
        plen = (f.type == RT_READ_RESP || f.type == RT_WRITE_RESP) ? q->bsize * ws : 0;
    }
    fill(payload, plen, q->content);
    f.options = (q->sem16 ? RO_W16 : 0) | (q->tcp ? 0 : RO_HDCRC) | ((!q->tcp && plen) ? RO_PLCRC : 0);
    f.seq = q->seq;
    f.addr = q->addr;
    f.bsize = q->bsize;
    f.payload = payload;
    f.plen = plen;
    *plen_out = plen;
    const size_t rn = rr_build(raw, &f, false, false);
    return q->tcp ? rr_lenprefix(wire, raw, rn) : rr_slip(wire, raw, rn);
}

/* one receive/process/free cycle on driver d; returns reply length */
static void
cycle(struct drv *d, const unsigned char *wire, size_t wn, int *rrc, int *prc, int *errid, bool *hadframe)
{
    drv_feed(d, wire, wn);
    d->outlen = 0;
    d->ncalls = 0;
    RPMaybeFrame mf;
    memset(&mf, 0, sizeof mf);
    *rrc = regp_recv(&d->p, &mf);
    *errid = mf.error.id;
    *hadframe = mf.frame != NULL;
    *prc = 0;
    if (*rrc >= 0)
        *prc = regp_process(&d->p, &mf);
    if (mf.frame != NULL)
        regp_free(&d->p, mf.frame);
    mc_trans(3);
}

static bool
same_call(const struct drv_call *a, const struct drv_call *b)
{
    return a->write == b->write && a->m16 == b->m16 && a->addr == b->addr && a->bsize == b->bsize && a->plen == b->plen
        && memcmp(a->payload, b->payload, a->plen) == 0;
}

static const char *RESPNAME[12] = { "ACK", "EWORDSIZE", "EPAYLOADCRC", "EPAYLOADSIZE", "ERXOVERFLOW", "ETXOVERFLOW", "EBUSY", "EUNMAPPED", "EACCESS", "ERANGE", "EINVALID", "EIO" };

static bool
carries_address(unsigned code)
{
    return code >= 7 && code <= 10;
}

static bool
carries_bufsize(unsigned code)
{
    return code == 4 || code == 5;
}

/* octets of the request's own header in the receive block */
static size_t
req_hdr(const struct req *q)
{
    return q->tcp ? 12 : (q->write && q->bsize ? 16 : 14);
}

/* value admitted as "the buffer size" in overflow responses: the block, the
 * block minus the frame descriptor, or that minus the request's header */
static bool
bufsize_ok(const struct req *q, uint32_t val)
{
    const size_t cap = BLOCKSIZE - sizeof(RPFrame);
    return val == BLOCKSIZE || val == cap || val == cap - req_hdr(q);
}

/* the full oracle for one request on a fresh driver */
static const char *
check_request(const struct req *q)
{
    unsigned char wire[2 * RR_MAXFRAME + 16], payload[1200], scratch[DRV_WIRE];
    size_t plen;
    drv_init(&D, q->tcp, q->mem16, BLOCKSIZE, !q->tcp);
    D.verdict = q->verdict;
    D.verdict_addr = q->vaddr;
    const size_t wn = build_wire(q, wire, payload, &plen);
    RegP before;
    memcpy(&before, &D.p, sizeof before);
    int rrc, prc, errid;
    bool hadframe;
    cycle(&D, wire, wn, &rrc, &prc, &errid, &hadframe);
    mc_log("recv rc=%d error.id=%d process rc=%d backend calls=%d reply octets=%zu", rrc, errid, prc, D.ncalls, D.outlen);
    mc_log_hex("request-wire", wire, wn);
    mc_log_hex("reply-wire", D.out, D.outlen);
    const char *outcome = "?";
    const bool mismatch = q->rawtype < 0 && (q->sem16 != q->mem16);
    if (rrc < 0 || errid != 0 || !hadframe) {
        mc_fail("C06/valid-frame-received", "reception of a valid frame: rc=%d error.id=%d frame=%d", rrc, errid, hadframe);
        goto out;
    }
    /* the return value of regp_process is not fixed by the statement; only an
     * acknowledged request must not be reported as a failure (below) */
    (void)before; /* an instance that keeps statistics is not forbidden by the statement: not compared */
    if (!drv_balanced(&D) || D.allocs < 1 || D.frees != D.allocs) {
        mc_fail("C06/frame-block-released", "allocs=%d frees=%d live=%d bad=%d", D.allocs, D.frees, D.nlive, D.bad_frees);
        goto out;
    }
    struct rr_frames fr;
    const int nfr = rr_unframe(q->tcp, D.out, D.outlen, scratch, &fr);
    if (q->rawtype >= 0) {
        outcome = "non-request-ignored";
        if (D.ncalls != 0)
            mc_fail("C06/non-request-no-access", "a %s frame caused %d memory accesses", q->rawtype == RT_META ? "meta" : "response", D.ncalls);
        else if (D.outlen != 0)
            mc_fail("C06/non-request-no-reply", "a %s frame caused a reply of %zu octets", q->rawtype == RT_META ? "meta" : "response", D.outlen);
        goto out;
    }
    if (nfr != 1) {
        mc_fail("C06/exactly-one-reply", "the reply stream holds %d frames (%zu octets)", nfr, D.outlen);
        goto out;
    }
    struct rframe r;
    const unsigned v = rr_verdict(scratch + fr.off[0], fr.len[0], &r);
    if (!rr_reply_ok(v, &r)) {
        mc_fail("C06/reply-well-formed", "the reply is not a valid frame (reference verdict %u)", v);
        goto out;
    }
    if (r.type != (q->write ? RT_WRITE_RESP : RT_READ_RESP) || r.seq != q->seq || r.addr != q->addr) {
        mc_fail("C06/reply-echoes-request", "reply type=%u seq=%04x addr=%08x for request type=%s seq=%04x addr=%08x", r.type, r.seq, r.addr,
                q->write ? "write" : "read", q->seq, q->addr);
        goto out;
    }
    if (mismatch) {
        outcome = "wordsize-mismatch";
        if (D.ncalls != 0)
            mc_fail("C06/wordsize-no-access", "word-size mismatch caused %d memory accesses", D.ncalls);
        else if (r.meta != 1 || r.plen != 0)
            mc_fail("C06/wordsize-response", "word-size mismatch answered with code %u, %zu payload octets", r.meta, r.plen);
        goto out;
    }
    if (!q->write) {
        const size_t rawcap = BLOCKSIZE - sizeof(RPFrame);
        const uint64_t octets = (uint64_t)q->bsize * (q->mem16 ? 2u : 1u);
        const bool cannot_fit = octets + req_hdr(q) > rawcap;      /* not even behind the request's own header */
        const bool band = !cannot_fit && octets + 16 > rawcap;      /* not together with a full response header */
        if (cannot_fit || (band && D.ncalls == 0)) {
            outcome = cannot_fit ? "read-too-large-refused" : "read-band-refused";
            const uint32_t val = r.plen == 4 ? ((uint32_t)r.payload[0] << 24 | (uint32_t)r.payload[1] << 16 | (uint32_t)r.payload[2] << 8 | r.payload[3]) : 0;
            if (D.ncalls != 0)
                mc_fail("C06/too-large-read-no-access", "a read of %llu octets cannot fit the %zu-octet buffer but caused %d memory accesses",
                        (unsigned long long)octets, rawcap, D.ncalls);
            else if (r.meta != 5)
                mc_fail("C06/too-large-read-response", "a read of %llu octets that was not executed was answered with code %u (expected transmit overflow)",
                        (unsigned long long)octets, r.meta);
            else if (r.plen != 4 || r.bsize != 4 || (r.options & RO_W16) || !bufsize_ok(q, val))
                mc_fail("C06/error-payload", "transmit-overflow response: %zu payload octets, block size %u, options %x, value %u; buffer size is %zu", r.plen, r.bsize,
                        r.options, val, rawcap);
            goto out;
        }
    }
    if (D.ncalls != 1) {
        mc_fail("C06/exactly-one-access", "%d memory accesses for one request", D.ncalls);
        goto out;
    }
    const struct drv_call *c = &D.call[0];
    if (c->write != q->write || c->m16 != q->mem16 || c->addr != q->addr || c->bsize != q->bsize) {
        mc_fail("C06/access-matches-request", "backend saw %s addr=%08x size=%zu for request %s addr=%08x size=%u", c->write ? "write" : "read", c->addr,
                c->bsize, q->write ? "write" : "read", q->addr, q->bsize);
        goto out;
    }
    if (q->write && (c->plen != plen || memcmp(c->payload, payload, plen) != 0)) {
        mc_fail("C06/write-payload-delivered", "the backend did not receive exactly the request's payload");
        goto out;
    }
    const unsigned code = (unsigned)q->verdict;
    if (r.meta != code) {
        mc_fail("C06/response-code", "backend verdict %s answered with response code %u", RESPNAME[code], r.meta);
        goto out;
    }
    if (code == 0) {
        outcome = q->write ? "write-acked" : "read-acked";
        if (prc < 0) {
            mc_fail("C06/process-succeeds", "regp_process returned %d for an acknowledged request", prc);
            goto out;
        }
        if (q->write) {
            if (r.plen != 0 || r.bsize != 0)
                mc_fail("C06/write-ack-empty", "write acknowledgement carries %zu octets, block size %u", r.plen, r.bsize);
        } else {
            const size_t ws = q->mem16 ? 2 : 1;
            bool same = r.plen == q->bsize * ws && r.bsize == q->bsize && ((r.options & RO_W16) != 0) == q->mem16;
            for (size_t i = 0; same && i < r.plen; ++i)
                same = r.payload[i] == drv_read_octet(q->addr, i);
            if (!same)
                mc_fail("C06/read-ack-carries-data", "read acknowledgement: %zu octets, block size %u, options %x; backend delivered %zu octets", r.plen, r.bsize,
                        r.options, (size_t)q->bsize * ws);
        }
        goto out;
    }
    outcome = "error-response";
    if (carries_address(code) || carries_bufsize(code)) {
        const uint32_t val = r.plen == 4 ? ((uint32_t)r.payload[0] << 24 | (uint32_t)r.payload[1] << 16 | (uint32_t)r.payload[2] << 8 | r.payload[3]) : 0;
        if (r.plen != 4 || r.bsize != 4 || (r.options & RO_W16))
            mc_fail("C06/error-payload", "%s response: %zu payload octets, block size %u, options %x (expected 4 octets in octet semantics)", RESPNAME[code], r.plen,
                    r.bsize, r.options);
        else if (carries_address(code) && val != q->vaddr)
            mc_fail("C06/error-payload", "%s response carries %08x, backend reported %08x", RESPNAME[code], val, q->vaddr);
        else if (carries_bufsize(code) && !bufsize_ok(q, val))
            mc_fail("C06/error-payload", "%s response carries %u, buffer size is %zu", RESPNAME[code], val, BLOCKSIZE - sizeof(RPFrame));
    } else if (r.plen != 0 || r.bsize != 0) {
        mc_fail("C06/error-payload", "%s response carries %zu octets, block size %u (expected none)", RESPNAME[code], r.plen, r.bsize);
    }
out:
    drv_release(&D);
    return mc.cur_failed ? "failed" : outcome;
}

static void
desc_req(const struct req *q, char *b, size_t n)
{
    if (q->rawtype < 0)
        snprintf(b, n, "%s %s%d mem%d addr=%08x size=%u content=%d seq=%04x verdict=%s@%08x", q->tcp ? "tcp" : "serial", q->write ? "write" : "read",
                 q->sem16 ? 16 : 8, q->mem16 ? 16 : 8, q->addr, q->bsize, q->content, q->seq, RESPNAME[q->verdict], q->vaddr);
    else
        snprintf(b, n, "%s input-frame type=%d meta=%u sem%d mem%d addr=%08x size=%u seq=%04x", q->tcp ? "tcp" : "serial", q->rawtype, q->rawmeta,
                 q->sem16 ? 16 : 8, q->mem16 ? 16 : 8, q->addr, q->bsize, q->seq);
}

/* largest block size (in words of the request's semantics) that family A uses */
static uint32_t
capacity(bool tcp, bool write, bool sem16)
{
    const size_t rawcap = BLOCKSIZE - sizeof(RPFrame);
    /* exact: a read's answer is stored behind the request's own header (12
     * octets on tcp, 14 on serial: header checksum only); a write must fit
     * with its header (12 on tcp, 16 on serial: both checksums) */
    const size_t hdr = tcp ? 12 : (write ? 16 : 14);
    return (uint32_t)((rawcap - hdr) / (sem16 ? 2 : 1));
}

int
main(int argc, char **argv)
{
    mc_init(argc, argv);
    MC_ANCHOR(rr_crc(0, (const unsigned char *)"123456789", 9) == 0xbb3d, "CRC check value");
    MC_ANCHOR(sizeof(RPFrame) + 16 + 8 <= BLOCKSIZE, "block size leaves room for a payload");
    const bool th = mc_thorough();
    char d[300];
    /* family A */
    for (int tcp = 0; tcp < 2; ++tcp)
        for (int write = 0; write < 2; ++write)
            for (int sem16 = 0; sem16 < 2; ++sem16)
                for (int mem16 = 0; mem16 < 2; ++mem16)
                    for (unsigned ai = 0; ai < 6; ++ai)
                        for (uint32_t bs = 0; bs <= capacity(tcp, write, sem16); ++bs)
                            for (int content = 0; content < (write ? 4 : 1); ++content)
                                for (unsigned si = 0; si < 4; ++si) {
                                    if (!th && si != (ai & 3) && !(bs <= 2))
                                        continue; /* quick: sequence values rotate with the address except for tiny blocks */
                                    struct req q = { tcp, write, sem16, mem16, ADDRS[ai], bs, content, SEQS[si], RP_RESP_ACK, ADDRS[ai], -1, 0 };
                                    desc_req(&q, d, sizeof d);
                                    if (!mc_case("A %s", d))
                                        continue;
                                    mc_end(true, check_request(&q));
                                }
    /* family B: verdicts */
    for (int tcp = 0; tcp < 2; ++tcp)
        for (int write = 0; write < 2; ++write)
            for (int sem16 = 0; sem16 < 2; ++sem16)
                for (unsigned code = 0; code < 12; ++code)
                    for (int va = 0; va < 3; ++va)
                        for (uint32_t bs = 0; bs <= 3; ++bs)
                            for (unsigned ai = 2; ai < 6; ai += 3) {
                                const uint32_t addr = ADDRS[ai];
                                const uint32_t vaddr = va == 0 ? addr : va == 1 ? addr + 1 : 0xffffffffu - (addr == 0xffffffffu);
                                struct req q = { tcp, write, sem16, sem16, addr, bs, 3, 0xc0db, (RPResponse)code, vaddr, -1, 0 };
                                desc_req(&q, d, sizeof d);
                                if (!mc_case("B %s", d))
                                    continue;
                                mc_end(true, check_request(&q));
                            }
    /* family C: responses and meta messages as input */
    for (int tcp = 0; tcp < 2; ++tcp)
        for (int sem16 = 0; sem16 < 2; ++sem16)
            for (int mem16 = 0; mem16 < 2; ++mem16)
                for (int kind = 0; kind < 3; ++kind)
                    for (unsigned meta = 0; meta < 12; ++meta)
                        for (uint32_t bs = 0; bs <= 4; ++bs) {
                            const int type = kind == 0 ? RT_READ_RESP : kind == 1 ? RT_WRITE_RESP : RT_META;
                            if (type == RT_META && (meta < 1 || meta > 2 || bs != 0 || sem16))
                                continue;
                            if (type != RT_META) {
                                /* only responses doc/regp.txt 3.1 admits: read acknowledgements carry
                                 * data, write acknowledgements and codes 1,2,3,6,11 nothing, codes
                                 * 4,5,7..10 four octets in octet semantics (a receiver may hold
                                 * responses to that; the statement is silent) */
                                const bool four = meta == 4 || meta == 5 || (meta >= 7 && meta <= 10);
                                const bool data = meta == 0 && type == RT_READ_RESP;
                                if (four ? (bs != 4 || sem16) : data ? bs > 2 : bs != 0)
                                    continue;
                            }
                            struct req q = { tcp, false, sem16, mem16, 0x64, bs, 0, 7, RP_RESP_ACK, 0, type, meta };
                            desc_req(&q, d, sizeof d);
                            if (!mc_case("C %s", d))
                                continue;
                            mc_end(true, check_request(&q));
                        }
    /* family D: sessions.  Alphabet of frames; every ordered pair on one instance. */
    {
        struct req alpha[40];
        int na = 0;
        for (int write = 0; write < 2; ++write)
            for (int sem16 = 0; sem16 < 2; ++sem16)
                for (uint32_t bs = 0; bs <= 2; bs += 2)
                    for (int vi = 0; vi < 2; ++vi) {
                        alpha[na] = (struct req){ false, write, sem16, true, 0x64 + bs, bs, 1, (uint16_t)(na * 257), vi ? RP_RESP_ERANGE : RP_RESP_ACK, 0x65, -1, 0 };
                        na++;
                    }
        alpha[na++] = (struct req){ false, false, true, true, 0x10, 1, 0, 9, RP_RESP_ACK, 0, RT_READ_RESP, 0 };
        alpha[na++] = (struct req){ false, false, false, true, 0x10, 4, 0, 9, RP_RESP_ACK, 0, RT_WRITE_RESP, 7 };
        alpha[na++] = (struct req){ false, false, false, true, 0, 0, 0, 0, RP_RESP_ACK, 0, RT_META, 1 };
        for (int tcp = 0; tcp < 2; ++tcp)
            for (int i = 0; i < na; ++i)
                for (int j = 0; j < na; ++j) {
                    if (!mc_case("D session %s: frame#%d then frame#%d on one instance", tcp ? "tcp" : "serial", i, j))
                        continue;
                    unsigned char w1[600], w2[600], pl[600];
                    size_t plen;
                    struct req a = alpha[i], b = alpha[j];
                    a.tcp = b.tcp = tcp;
                    const size_t n1 = build_wire(&a, w1, pl, &plen);
                    const size_t n2 = build_wire(&b, w2, pl, &plen);
                    int rrc, prc, errid;
                    bool had;
                    /* fresh instance: only the second frame */
                    drv_init(&F, tcp, true, BLOCKSIZE, !tcp);
                    F.verdict = b.verdict;
                    F.verdict_addr = b.vaddr;
                    cycle(&F, w2, n2, &rrc, &prc, &errid, &had);
                    const int f_calls = F.ncalls, f_rrc = rrc, f_prc = prc, f_err = errid;
                    /* session: first, then second */
                    drv_init(&D, tcp, true, BLOCKSIZE, !tcp);
                    RegP before;
                    memcpy(&before, &D.p, sizeof before);
                    D.verdict = a.verdict;
                    D.verdict_addr = a.vaddr;
                    cycle(&D, w1, n1, &rrc, &prc, &errid, &had);
                    D.verdict = b.verdict;
                    D.verdict_addr = b.vaddr;
                    cycle(&D, w2, n2, &rrc, &prc, &errid, &had);
                    mc_log("fresh: calls=%d rc=%d/%d err=%d reply=%zu; session: calls=%d rc=%d/%d err=%d reply=%zu", f_calls, f_rrc, f_prc, f_err, F.outlen,
                           D.ncalls, rrc, prc, errid, D.outlen);
                    (void)before;
                    (void)f_rrc;
                    (void)f_prc; /* return values are not part of the statement */
                    if (D.ncalls != f_calls || errid != f_err || D.outlen != F.outlen
                             || memcmp(D.out, F.out, D.outlen) != 0
                             || (f_calls == 1 && !same_call(&D.call[0], &F.call[0])))
                        mc_fail("C06/requests-independent", "the second exchange of the session differs from the same exchange on a fresh instance");
                    else if (!drv_balanced(&D) || D.allocs < 2 || D.frees != D.allocs)
                        mc_fail("C06/frame-block-released", "allocs=%d frees=%d live=%d", D.allocs, D.frees, D.nlive);
                    drv_release(&D);
                    drv_release(&F);
                    mc_end(true, mc.cur_failed ? "failed" : "session-pair");
                }
    }
    /* family E: reads that cannot fit */
    for (int tcp = 0; tcp < 2; ++tcp)
        for (int m16 = 0; m16 < 2; ++m16) {
            const size_t rawcap = BLOCKSIZE - sizeof(RPFrame);
            const size_t ws = m16 ? 2 : 1;
            const size_t hdr = tcp ? 12 : 14;
            const uint32_t first = (uint32_t)((rawcap - hdr) / ws + 1); /* smallest size that does not fit behind the request header */
            const uint32_t BS[] = { first, first + 1, first + 2, (uint32_t)(rawcap / ws), (uint32_t)(rawcap / ws + 1), BLOCKSIZE, 1000, 0xffff, 0x10000,
                                    0x7fffffffu, 0x80000000u, 0x80000001u, 0x80000002u, 0x80000008u, 0x80000010u, 0x80000000u + (uint32_t)(rawcap / 2),
                                    0xfffffffeu, 0xffffffffu };
            for (unsigned bi = 0; bi < sizeof BS / sizeof *BS; ++bi)
                for (unsigned ai = 0; ai < 6; ai += 5) {
                    struct req q = { tcp, false, m16, m16, ADDRS[ai], BS[bi], 0, 0x0e0e, RP_RESP_ACK, ADDRS[ai], -1, 0 };
                    desc_req(&q, d, sizeof d);
                    if (!mc_case("E %s", d))
                        continue;
                    mc_end(true, check_request(&q));
                }
        }
    mc_finish(true, th ? "A: 2 transports x read/write x 8/16-bit semantics x 8/16-bit memory x 6 addresses x every block size 0..capacity(160-octet block) x 4 contents x 4 sequence numbers; B: 12 verdicts x 3 reported addresses x kinds x sizes 0..3; C: every response code / meta code as input (document-conformant payloads); D: all ordered pairs of 19 frames per transport; E: reads of 18 sizes that cannot fit (just above the buffer .. 2^32-1, incl. sizes whose octet count wraps in 32 bits) x transports x memory widths"
                       : "A: as thorough with the sequence number rotating with the address for blocks > 2; B: 12 verdicts x 3 reported addresses x kinds x sizes 0..3; C: every response code / meta code as input (document-conformant payloads); D: all ordered pairs of 19 frames per transport; E: reads of 18 sizes that cannot fit (just above the buffer .. 2^32-1, incl. sizes whose octet count wraps in 32 bits) x transports x memory widths");
    return 0;
}
