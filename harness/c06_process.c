/*
 * C06 -- a valid request is executed exactly once and answered faithfully.
 *
 * Requests are produced by the reference encoder (regp_ref.h), fed through
 * regp_recv + regp_process + regp_free of a real RegP whose memory backend
 * records every call and answers with a scripted verdict; the reply octets
 * are decoded by the reference decoder.
 *   family A: every request kind x semantics x attached memory x address x
 *             block size 0..capacity x payload content x sequence x transport,
 *             backend acknowledging;
 *   family B: every backend verdict (12 codes) x reported address;
 *   family C: responses and meta messages as input (no call, no reply);
 *   family D: sessions -- every ordered pair of a reduced frame alphabet on
 *             one instance; the second exchange must equal the exchange on a
 *             fresh instance (memory accesses and reply octets).
 *   family E: reads from just above what fits behind the request's header up to
 *             sizes whose octet count wraps in 32 bits: served with the full
 *             oracle (the backend fills the whole announced block; ASan sees a
 *             buffer that is too small), or not executed and answered with a
 *             transmit-overflow response.
 *   family O: option bits -- every combination of the header-checksum and
 *             payload-checksum bits on either transport (the parser goes by
 *             the bits, not by the transport): a receiver may refuse the
 *             combinations doc/regp.txt 5.x does not mandate (then: no access);
 *             one that accepts them has received a request and owes the full
 *             exchange, with the capacity boundary where the *received* header
 *             puts it.
 *   family F: frames that are invalid by an independent reading of the
 *             document (payload size against block sizes straddling 2^7, 2^8,
 *             2^15, 2^16, 2^31, 2^32; wrong checksums; bad header encodings):
 *             whenever the library itself reports that reception failed
 *             (negative return, error.id, no frame) never a memory access.
 *             (Whether such a frame may be taken as valid is C07's sentence.)
 *   family S: sessions of the documented serving loop (regp_loop.h): every
 *             sequence of 2..3 (thorough: 4) receptions out of good requests,
 *             non-requests, corrupted frames and channel-level failures on one
 *             instance, with the caller's RPMaybeFrame cleared per round /
 *             reused / reused with indeterminate first contents, on a heap and
 *             on a pool allocator.  Whether reception failed is what the library
 *             reports in that round (negative return, error.id, no frame), also
 *             for the two valid requests that a receiver taking a frame into one
 *             allocator block cannot receive (no block / larger than the block):
 *             reported as received they are requests.  After a channel failure
 *             that regp_recv reported (negative return) an instance may refuse
 *             or lose the next frame (latched failure, framing layer that
 *             resynchronises at the next frame boundary): a round whose
 *             reception the library reports as failed is then judged no access /
 *             no acknowledgement, and the frame is offered once more after
 *             regp_use_channel, judged like any round.
 *   family G: the reply cannot be sent (sink failure at every octet offset of
 *             every reply kind): still exactly one access; the next request,
 *             if the instance still receives it, is served as on a fresh
 *             instance (the statement says nothing about sink failures: an
 *             instance that latches the failure and refuses reception --
 *             negative return, or error.id without a frame -- until a channel is
 *             installed again is admitted: then no access and no
 *             acknowledgement; the request after regp_use_channel is judged
 *             the same way).
 * The capacity of the 160-octet block (how much of it the receiver keeps for
 * itself is the library's business) is learned from the library's own answers
 * (regp_ref.h: drv_learn_capacity): the length of the longest well-formed
 * request it receives into such a block.  160 - sizeof(RPFrame) places the
 * enumerated windows.  From "data + a full 16-octet response header exceed the
 * learned capacity" upwards a read may be served -- then with the full oracle;
 * the backend fills the whole announced block, so the exact-size blocks under
 * ASan see a buffer that is too small -- or answered with a transmit-overflow
 * response without access (statement C09 prescribes the latter for "a read
 * whose answer cannot fit"; C06 says nothing about reads above the capacity,
 * and whether the data goes behind the request's header, over it, behind a
 * response header or into a transmit block of its own is the library's
 * business).  A write
 * request whose frame reaches into the top 16 octets of the capacity may
 * likewise be received and executed, or refused by reception (then: no access;
 * its reply is C07's/C09's subject).
 * A request whose word size does not match the attached memory may be answered
 * by regp_process or already by regp_recv (which then flags the frame in
 * error.id): either way exactly one word-size error response, no access.
 * The allocator ledger (how many blocks, released when) is statement C09's
 * sentence; here only a release of something that is no live block (double or
 * foreign release) is reported.
 */
#include "mc.h"
#include "regp_ref.h"
#include "regp_loop.h"

#define BLOCKSIZE 160

static struct drv D, F;

static const uint32_t ADDRS[] = { 0, 1, 0x64, 0xffff, 0x10000, 0xffffffffu };
static const uint16_t SEQS[] = { 0, 1, 0xc0db, 0xffff };

static void
fill(unsigned char *p, size_t n, int content)
{
    static const unsigned char alt[2] = { 0xdc, 0xdd };
    for (size_t i = 0; i < n; ++i)
        p[i] = content == 0 ? (unsigned char)(i + 1) : content == 1 ? 0xc0 : content == 2 ? 0xdb : alt[i & 1];
}

struct req {
    bool tcp, write, sem16, mem16;
    uint32_t addr;
    uint32_t bsize;
    int content;
    uint16_t seq;
    RPResponse verdict;
    uint32_t vaddr;
    /* non-request input (family C): type/meta override */
    int rawtype; /* -1: request */
    unsigned rawmeta;
    /* option bits: 0 = the ones doc/regp.txt 5.x mandates for the transport;
     * 1 + (header checksum | payload checksum << 1) = forced */
    int optmode;
};

static unsigned
req_crcbits(const struct req *q, size_t plen)
{
    if (q->optmode == 0)
        return (q->tcp ? 0 : RO_HDCRC) | ((!q->tcp && plen) ? RO_PLCRC : 0);
    const int m = q->optmode - 1;
    return ((m & 1) ? RO_HDCRC : 0) | ((m & 2) ? RO_PLCRC : 0);
}

static size_t
req_plen(const struct req *q)
{
    const size_t ws = q->sem16 ? 2 : 1;
    if (q->rawtype < 0)
        return q->write ? q->bsize * ws : 0;
    return (q->rawtype == RT_READ_RESP || q->rawtype == RT_WRITE_RESP) ? q->bsize * ws : 0;
}

/* forced option bits that are the mandated ones anyway */
static bool
optmode_redundant(const struct req *q)
{
    struct req c = *q;
    c.optmode = 0;
    return q->optmode != 0 && req_crcbits(q, req_plen(q)) == req_crcbits(&c, req_plen(q));
}

static size_t
build_wire(const struct req *q, unsigned char *wire, unsigned char *payload, size_t *plen_out)
{
    unsigned char raw[RR_MAXFRAME];
    struct rframe f;
    memset(&f, 0, sizeof f);
    const size_t ws = q->sem16 ? 2 : 1;
    size_t plen = 0;
    if (q->rawtype < 0) {
        f.type = q->write ? RT_WRITE_REQ : RT_READ_REQ;
        plen = q->write ? q->bsize * ws : 0;
    } else {
        f.type = (unsigned)q->rawtype;
        f.meta = q->rawmeta;
        plen = (f.type == RT_READ_RESP || f.type == RT_WRITE_RESP) ? q->bsize * ws : 0;
    }
    fill(payload, plen, q->content);
    f.options = (q->sem16 ? RO_W16 : 0) | req_crcbits(q, plen);
    f.seq = q->seq;
    f.addr = q->addr;
    f.bsize = q->bsize;
    f.payload = payload;
    f.plen = plen;
    *plen_out = plen;
    const size_t rn = rr_build(raw, &f, false, false);
    return q->tcp ? rr_lenprefix(wire, raw, rn) : rr_slip(wire, raw, rn);
}

/* one receive/process/free cycle on driver d; returns reply length */
static void
cycle(struct drv *d, const unsigned char *wire, size_t wn, int *rrc, int *prc, int *errid, bool *hadframe)
{
    drv_feed(d, wire, wn);
    d->outlen = 0;
    d->ncalls = 0;
    RPMaybeFrame mf;
    memset(&mf, 0, sizeof mf);
    *rrc = regp_recv(&d->p, &mf);
    *errid = mf.error.id;
    *hadframe = mf.frame != NULL;
    *prc = 0;
    if (*rrc >= 0)
        *prc = regp_process(&d->p, &mf);
    if (mf.frame != NULL)
        regp_free(&d->p, mf.frame);
    mc_trans(3);
}

static bool
same_call(const struct drv_call *a, const struct drv_call *b)
{
    return a->write == b->write && a->m16 == b->m16 && a->addr == b->addr && a->bsize == b->bsize && a->plen == b->plen
        && memcmp(a->payload, b->payload, a->plen) == 0;
}

static const char *RESPNAME[12] = { "ACK", "EWORDSIZE", "EPAYLOADCRC", "EPAYLOADSIZE", "ERXOVERFLOW", "ETXOVERFLOW", "EBUSY", "EUNMAPPED", "EACCESS", "ERANGE", "EINVALID", "EIO" };

static bool
carries_address(unsigned code)
{
    return code >= 7 && code <= 10;
}

static bool
carries_bufsize(unsigned code)
{
    return code == 4 || code == 5;
}

/* octets of the request's own header in the receive block */
static size_t
req_hdr(const struct req *q)
{
    const unsigned o = req_crcbits(q, req_plen(q));
    return 12 + ((o & RO_HDCRC) ? 2 : 0) + ((o & RO_PLCRC) ? 2 : 0);
}

/* The receive capacity of a BLOCKSIZE block as the library itself shows it
 * (the longest well-formed request it receives into one); learned inside the
 * case that first needs it, so that a crash of a probe is that case's. */
static size_t
rawcap_learned(void)
{
    static size_t cap;
    static bool have;
    if (!have) {
        const size_t guess = BLOCKSIZE - sizeof(RPFrame);
        size_t c = drv_learn_capacity(BLOCKSIZE);
        if (c == DRV_CAP_UNKNOWN || c < 32) {
            mc_cap("the library's answers define no receive capacity for the %d-octet block: %zu assumed", BLOCKSIZE, guess);
            c = guess;
        } else if (!drv_capacity_serial_agrees(BLOCKSIZE))
            mc_cap("serial frames do not meet the receive capacity %zu learned on the length-prefix transport", c);
        else if (c > guess || c + 8 < guess)
            mc_cap("learned capacity %zu far from block - sizeof(RPFrame) = %zu: the enumerated windows may not straddle it", c, guess);
        cap = c;
        have = true;
    }
    return cap;
}

/* What a block can hold at all behind the frame descriptor the receiver keeps
 * in it (the learned capacity, should the library show a larger one): a read of
 * more octets has no placement under any reading. */
static size_t
physical_room(void)
{
    const size_t room = BLOCKSIZE - sizeof(RPFrame), cap = rawcap_learned();
    return cap > room ? cap : room;
}

/* value admitted as "the buffer size" in overflow responses: how much of the
 * block counts as the buffer is the library's business (the whole block, the
 * block minus its descriptor, that minus a header, ...): anything from the
 * learned capacity minus a full header up to the block */
static bool
bufsize_ok(const struct req *q, uint32_t val)
{
    (void)q;
    const size_t cap = rawcap_learned();
    return val <= BLOCKSIZE && (size_t)val + 16 >= cap;
}

/* a release of something that is no live block */
#define FAIL_BAD_RELEASE(d) mc_fail("C06/frame-block-released", "%d releases of something that is no live block (double or foreign release); allocs=%d frees=%d", lp_bad_releases(d), (d)->allocs, (d)->frees)

/* the full oracle for one request on a fresh driver */
static const char *
check_request(const struct req *q)
{
    unsigned char wire[2 * RR_MAXFRAME + 16], payload[1200], scratch[DRV_WIRE];
    size_t plen;
    drv_init(&D, q->tcp, q->mem16, BLOCKSIZE, !q->tcp);
    D.verdict = q->verdict;
    D.verdict_addr = q->vaddr;
    const size_t wn = build_wire(q, wire, payload, &plen);
    RegP before;
    memcpy(&before, &D.p, sizeof before);
    int rrc, prc, errid;
    bool hadframe;
    cycle(&D, wire, wn, &rrc, &prc, &errid, &hadframe);
    mc_log("recv rc=%d error.id=%d process rc=%d backend calls=%d reply octets=%zu", rrc, errid, prc, D.ncalls, D.outlen);
    mc_log_hex("request-wire", wire, wn);
    mc_log_hex("reply-wire", D.out, D.outlen);
    const char *outcome = "?";
    const bool mismatch = q->rawtype < 0 && (q->sem16 != q->mem16);
    {
        /* option bits other than the ones doc/regp.txt 5.1/5.2 mandate for the
         * transport, or a payload checksum declared without payload (2.2.3:
         * "shall be unset"): the document does not say that a receiver has to
         * take such a frame.  If it does not, reception failed: no access. */
        struct req canon = *q;
        canon.optmode = 0;
        const unsigned o = req_crcbits(q, plen);
        const bool undecided = o != req_crcbits(&canon, plen) || ((o & RO_PLCRC) && plen == 0);
        if (undecided && (rrc < 0 || errid != 0 || !hadframe)) {
            outcome = "unmandated-options-refused";
            if (D.ncalls != 0)
                mc_fail("C06/failed-reception-no-access", "reception refused the frame (rc=%d error.id=%d) but %d memory accesses happened", rrc, errid, D.ncalls);
            else if (lp_bad_releases(&D))
                FAIL_BAD_RELEASE(&D);
            goto out;
        }
    }
    const size_t rawcap = rawcap_learned();
    if (rrc < 0 || errid != 0 || !hadframe) {
        /* a write request whose frame reaches into the top 16 octets of the
         * capacity (or beyond it): how much of a block the receiver keeps for
         * itself is its business; refusing such a frame is a failed reception */
        if (q->rawtype < 0 && q->write && req_hdr(q) + plen + 16 > rawcap) {
            outcome = "write-band-refused";
            if (D.ncalls != 0)
                mc_fail("C06/failed-reception-no-access", "reception refused the %zu-octet frame (rc=%d error.id=%d; capacity %zu) but %d memory accesses happened",
                        req_hdr(q) + plen, rrc, errid, rawcap, D.ncalls);
            else if (lp_bad_releases(&D))
                FAIL_BAD_RELEASE(&D);
            goto out;
        }
        /* a request whose word size does not match the attached memory: the statement
         * prescribes the answer (word-size error, no access), not which of the two calls
         * gives it.  A receiver that answers in regp_recv and flags the frame in error.id
         * is judged by the mismatch oracle below (exactly one EWORDSIZE reply echoing
         * sequence and address, no access).  Not admitted: no frame handed over, or a
         * negative return without any reply. */
        if (!(mismatch && errid != 0 && hadframe && !(rrc < 0 && D.outlen == 0))) {
            mc_fail("C06/valid-frame-received", "reception of a valid frame of %zu octets (capacity %zu): rc=%d error.id=%d frame=%d", req_hdr(q) + plen, rawcap, rrc, errid,
                    hadframe);
            goto out;
        }
    }
    /* the return value of regp_process is not fixed by the statement; only an
     * acknowledged request must not be reported as a failure (below) */
    (void)before; /* an instance that keeps statistics is not forbidden by the statement: not compared */
    if (lp_bad_releases(&D)) {
        FAIL_BAD_RELEASE(&D);
        goto out;
    }
    struct rr_frames fr;
    const int nfr = rr_unframe(q->tcp, D.out, D.outlen, scratch, &fr);
    if (q->rawtype >= 0) {
        outcome = "non-request-ignored";
        if (D.ncalls != 0)
            mc_fail("C06/non-request-no-access", "a %s frame caused %d memory accesses", q->rawtype == RT_META ? "meta" : "response", D.ncalls);
        else if (D.outlen != 0)
            mc_fail("C06/non-request-no-reply", "a %s frame caused a reply of %zu octets", q->rawtype == RT_META ? "meta" : "response", D.outlen);
        goto out;
    }
    if (nfr != 1) {
        mc_fail("C06/exactly-one-reply", "the reply stream holds %d frames (%zu octets)", nfr, D.outlen);
        goto out;
    }
    struct rframe r;
    const unsigned v = rr_verdict(scratch + fr.off[0], fr.len[0], &r);
    if (!rr_reply_ok(v, &r)) {
        mc_fail("C06/reply-well-formed", "the reply is not a valid frame (reference verdict %u)", v);
        goto out;
    }
    if (r.type != (q->write ? RT_WRITE_RESP : RT_READ_RESP) || r.seq != q->seq || r.addr != q->addr) {
        mc_fail("C06/reply-echoes-request", "reply type=%u seq=%04x addr=%08x for request type=%s seq=%04x addr=%08x", r.type, r.seq, r.addr,
                q->write ? "write" : "read", q->seq, q->addr);
        goto out;
    }
    if (mismatch) {
        outcome = "wordsize-mismatch";
        if (D.ncalls != 0)
            mc_fail("C06/wordsize-no-access", "word-size mismatch caused %d memory accesses", D.ncalls);
        else if (r.meta != 1 || r.plen != 0)
            mc_fail("C06/wordsize-response", "word-size mismatch answered with code %u, %zu payload octets", r.meta, r.plen);
        goto out;
    }
    if (!q->write) {
        const uint64_t octets = (uint64_t)q->bsize * (q->mem16 ? 2u : 1u);
        /* From "data + a full response header exceed the learned receive capacity"
         * upwards the statement does not say that the read has to be served (what
         * happens to a read whose answer cannot fit is statement C09's sentence, and
         * where an implementation prepares its answers -- in the request's block or
         * in a transmit block of its own -- is its business).  A read that is served
         * is judged with the full oracle below (the backend fills the whole announced
         * block: ASan's exact-size blocks see a buffer that is too small); a read that
         * is not executed must be answered with a transmit-overflow response. */
        const size_t physical = physical_room();
        const bool above = octets + 16 > rawcap;
        if (above && D.ncalls == 0) {
            outcome = octets > physical ? "read-too-large-refused" : "read-band-refused";
            const uint32_t val = r.plen == 4 ? ((uint32_t)r.payload[0] << 24 | (uint32_t)r.payload[1] << 16 | (uint32_t)r.payload[2] << 8 | r.payload[3]) : 0;
            if (r.meta != 5)
                mc_fail("C06/too-large-read-response", "a read of %llu octets that was not executed was answered with code %u (expected transmit overflow)",
                        (unsigned long long)octets, r.meta);
            else if (r.plen != 4 || r.bsize != 4 || (r.options & RO_W16) || !bufsize_ok(q, val))
                mc_fail("C06/error-payload", "transmit-overflow response: %zu payload octets, block size %u, options %x, value %u; the block has 160 octets, its learned capacity is %zu", r.plen, r.bsize,
                        r.options, val, rawcap);
            goto out;
        }
    }
    if (D.ncalls != 1) {
        mc_fail("C06/exactly-one-access", "%d memory accesses for one request", D.ncalls);
        goto out;
    }
    const struct drv_call *c = &D.call[0];
    if (c->write != q->write || c->m16 != q->mem16 || c->addr != q->addr || c->bsize != q->bsize) {
        mc_fail("C06/access-matches-request", "backend saw %s addr=%08x size=%zu for request %s addr=%08x size=%u", c->write ? "write" : "read", c->addr,
                c->bsize, q->write ? "write" : "read", q->addr, q->bsize);
        goto out;
    }
    if (q->write && (c->plen != plen || memcmp(c->payload, payload, plen) != 0)) {
        mc_fail("C06/write-payload-delivered", "the backend did not receive exactly the request's payload");
        goto out;
    }
    const unsigned code = (unsigned)q->verdict;
    if (r.meta != code) {
        mc_fail("C06/response-code", "backend verdict %s answered with response code %u", RESPNAME[code], r.meta);
        goto out;
    }
    if (code == 0) {
        outcome = q->write ? "write-acked" : "read-acked";
        if (prc < 0) {
            mc_fail("C06/process-succeeds", "regp_process returned %d for an acknowledged request", prc);
            goto out;
        }
        if (q->write) {
            if (r.plen != 0 || r.bsize != 0)
                mc_fail("C06/write-ack-empty", "write acknowledgement carries %zu octets, block size %u", r.plen, r.bsize);
        } else {
            const size_t ws = q->mem16 ? 2 : 1;
            bool same = r.plen == q->bsize * ws && r.bsize == q->bsize && ((r.options & RO_W16) != 0) == q->mem16;
            for (size_t i = 0; same && i < r.plen; ++i)
                same = r.payload[i] == drv_read_octet(q->addr, i);
            if (!same)
                mc_fail("C06/read-ack-carries-data", "read acknowledgement: %zu octets, block size %u, options %x; backend delivered %zu octets", r.plen, r.bsize,
                        r.options, (size_t)q->bsize * ws);
        }
        goto out;
    }
    outcome = "error-response";
    if (carries_address(code) || carries_bufsize(code)) {
        const uint32_t val = r.plen == 4 ? ((uint32_t)r.payload[0] << 24 | (uint32_t)r.payload[1] << 16 | (uint32_t)r.payload[2] << 8 | r.payload[3]) : 0;
        if (r.plen != 4 || r.bsize != 4 || (r.options & RO_W16))
            mc_fail("C06/error-payload", "%s response: %zu payload octets, block size %u, options %x (expected 4 octets in octet semantics)", RESPNAME[code], r.plen,
                    r.bsize, r.options);
        else if (carries_address(code) && val != q->vaddr)
            mc_fail("C06/error-payload", "%s response carries %08x, backend reported %08x", RESPNAME[code], val, q->vaddr);
        else if (carries_bufsize(code) && !bufsize_ok(q, val))
            mc_fail("C06/error-payload", "%s response carries %u; the block has %d octets, its learned capacity is %zu", RESPNAME[code], val, BLOCKSIZE, rawcap);
    } else if (r.plen != 0 || r.bsize != 0) {
        mc_fail("C06/error-payload", "%s response carries %zu octets, block size %u (expected none)", RESPNAME[code], r.plen, r.bsize);
    }
out:
    drv_release(&D);
    return mc.cur_failed ? "failed" : outcome;
}

static void
desc_req(const struct req *q, char *b, size_t n)
{
    char o[24] = "";
    if (q->optmode)
        snprintf(o, sizeof o, " hdcrc=%d plcrc=%d", (q->optmode - 1) & 1, ((q->optmode - 1) >> 1) & 1);
    if (q->rawtype < 0)
        snprintf(b, n, "%s %s%d mem%d addr=%08x size=%u content=%d seq=%04x verdict=%s@%08x%s", q->tcp ? "tcp" : "serial", q->write ? "write" : "read",
                 q->sem16 ? 16 : 8, q->mem16 ? 16 : 8, q->addr, q->bsize, q->content, q->seq, RESPNAME[q->verdict], q->vaddr, o);
    else
        snprintf(b, n, "%s input-frame type=%d meta=%u sem%d mem%d addr=%08x size=%u seq=%04x%s", q->tcp ? "tcp" : "serial", q->rawtype, q->rawmeta,
                 q->sem16 ? 16 : 8, q->mem16 ? 16 : 8, q->addr, q->bsize, q->seq, o);
}

/* largest block size (in words of the request's semantics) that family A uses */
static uint32_t
capacity(bool tcp, bool write, bool sem16)
{
    const size_t rawcap = BLOCKSIZE - sizeof(RPFrame);
    /* exact: a read's answer is stored behind the request's own header (12
     * octets on tcp, 14 on serial: header checksum only); a write must fit
     * with its header (12 on tcp, 16 on serial: both checksums) */
    const size_t hdr = tcp ? 12 : (write ? 16 : 14);
    return (uint32_t)((rawcap - hdr) / (sem16 ? 2 : 1));
}

/* ---- family O: every combination of the two checksum option bits ---------------------------- */
static void
family_options(bool th)
{
    char d[300];
    const size_t rawcap = BLOCKSIZE - sizeof(RPFrame);
    for (int tcp = 0; tcp < 2; ++tcp)
        for (int write = 0; write < 2; ++write)
            for (int sem16 = 0; sem16 < 2; ++sem16)
                for (int om = 1; om <= 4; ++om) {
                    const size_t hdr = 12 + (((om - 1) & 1) ? 2 : 0) + (((om - 1) & 2) ? 2 : 0);
                    const uint32_t cap = (uint32_t)((rawcap - hdr) / (sem16 ? 2 : 1));
                    /* writes up to what fits the block with this header; reads from what fits
                     * behind it up to three words beyond the block's capacity (served with the
                     * full oracle, or refused with a transmit-overflow response) */
                    const uint32_t top = write ? cap : (uint32_t)(rawcap / (sem16 ? 2 : 1)) + 3;
                    for (uint32_t bs = 0; bs <= top; ++bs) {
                        if (!th && bs > 2 && bs + 3 < cap)
                            continue; /* quick: tiny blocks and the capacity boundary */
                        for (unsigned ai = 2; ai < 6; ai += 3)
                            for (int content = 0; content < (write ? 4 : 1); content += 3) {
                                struct req q = { tcp, write, sem16, sem16, ADDRS[ai], bs, content, SEQS[ai & 3], RP_RESP_ACK, ADDRS[ai], -1, 0, om };
                                if (optmode_redundant(&q))
                                    continue;
                                desc_req(&q, d, sizeof d);
                                if (!mc_case("O %s", d))
                                    continue;
                                mc_end(true, check_request(&q));
                            }
                    }
                }
}

/* ---- family F: frames that fail reception never cause an access ------------------------------ */
static const uint32_t *
size_family(unsigned *n)
{
    static uint32_t S[64];
    static unsigned ns;
    if (!ns) {
        for (uint32_t b = 0; b <= 4; ++b)
            S[ns++] = b;
        static const int K[] = { 7, 8, 15, 16, 31 };
        for (unsigned k = 0; k < 5; ++k)
            for (int w = -1; w <= 3; ++w)
                S[ns++] = (uint32_t)((1ull << K[k]) + (unsigned long long)(long long)w);
        S[ns++] = 0xfffffffdu;
        S[ns++] = 0xfffffffeu;
        S[ns++] = 0xffffffffu;
    }
    *n = ns;
    return S;
}

static void
family_invalid(void)
{
    unsigned ns;
    const uint32_t *S = size_family(&ns);
    static const char *VN[] = { "as built", "header checksum wrong", "payload checksum wrong", "version 1", "reserved option bit", "meta field 1" };
    for (int tcp = 0; tcp < 2; ++tcp)
        for (int write = 0; write < 2; ++write)
            for (int sem16 = 0; sem16 < 2; ++sem16)
                for (int om = 0; om <= 4; ++om)
                    for (unsigned si = 0; si < ns; ++si) {
                        if (!mc_case("F %s %s%d hdcrc/plcrc-mode=%d size=%u x payload 0..8 octets x {as built, wrong checksums, version, reserved option, meta}: frames invalid by the document",
                                     tcp ? "tcp" : "serial", write ? "write" : "read", sem16 ? 16 : 8, om, S[si]))
                            continue;
                        int judged = 0, refused = 0;
                        for (size_t p = 0; p <= 8 && !mc.cur_failed; ++p)
                            for (int v = 0; v < 6 && !mc.cur_failed; ++v) {
                                unsigned char raw[64], wire[160], pl[8];
                                struct req q = { tcp, write, sem16, sem16, 0x64, S[si], 0, 0x0f06, RP_RESP_ACK, 0x64, -1, 0, om };
                                struct rframe f, rf;
                                memset(&f, 0, sizeof f);
                                for (size_t i = 0; i < p; ++i)
                                    pl[i] = (unsigned char)(0xa1 + 5 * i);
                                const unsigned crcbits = req_crcbits(&q, p);
                                if (v == 1 && !(crcbits & RO_HDCRC))
                                    continue;
                                if (v == 2 && !((crcbits & RO_PLCRC) && p))
                                    continue;
                                f.version = v == 3;
                                f.type = write ? RT_WRITE_REQ : RT_READ_REQ;
                                f.options = (sem16 ? RO_W16 : 0) | crcbits | (v == 4 ? 8u : 0);
                                f.meta = v == 5;
                                f.seq = q.seq;
                                f.addr = q.addr;
                                f.bsize = q.bsize;
                                f.payload = pl;
                                f.plen = p;
                                const size_t rn = rr_build(raw, &f, v == 1, v == 2);
                                if (rr_verdict(raw, rn, &rf) & RV_OK)
                                    continue; /* valid under some reading: not this family's subject */
                                const size_t wn = tcp ? rr_lenprefix(wire, raw, rn) : rr_slip(wire, raw, rn);
                                drv_init(&D, tcp, sem16, BLOCKSIZE, !tcp);
                                drv_feed(&D, wire, wn);
                                RPMaybeFrame mf;
                                memset(&mf, 0, sizeof mf);
                                struct lp_result r;
                                lp_round(&D, &mf, &r);
                                mc_trans(3);
                                judged++;
                                mc_log("payload=%zu octets, %s: recv rc=%d error.id=%d process rc=%d calls=%d reply=%zu octets", p, VN[v], r.rrc, r.errid, r.prc, r.calls,
                                       D.outlen);
                                /* "a frame that failed reception": the library itself said so (negative
                                 * return, error.id, no frame).  A frame the reference calls invalid but the
                                 * library took as valid did not fail reception: whether it may be taken is
                                 * statement C07's sentence, not this one's. */
                                const bool failed = r.rrc < 0 || r.errid != 0 || !r.hadframe;
                                if (failed)
                                    refused++;
                                if (failed && r.calls != 0)
                                    mc_fail("C06/failed-reception-no-access",
                                            "reception of a %s request announcing %u words with %zu payload octets (%s; no valid frame by doc/regp.txt) failed (rc=%d error.id=%d frame=%d) but it caused %d memory accesses",
                                            write ? "write" : "read", S[si], p, VN[v], r.rrc, r.errid, r.hadframe, r.calls);
                                else if (lp_bad_releases(&D))
                                    FAIL_BAD_RELEASE(&D);
                                drv_release(&D);
                            }
                        mc_end(refused > 0, mc.cur_failed ? "failed" : refused ? "invalid-frame-no-access" : judged ? "invalid-frame-taken-as-valid" : "no-invalid-frame");
                    }
}

/* ---- family S: sessions of the documented serving loop ------------------------------------------ */
enum { IK_GOOD, IK_NONREQ, IK_BAD, IK_CHAN };
struct item {
    int kind;
    const char *name;
    unsigned char wire[640];
    size_t n;
    long src_err_at;
    bool alloc_fails; /* every allocation of the round is refused */
    RPResponse verdict;
    uint32_t vaddr;
    bool isreq;       /* the wire octets are a request that is valid by the reference: q */
    struct req q;
};
#define NITEMS 14

static void
item_from_req(struct item *it, int kind, const char *name, const struct req *q)
{
    unsigned char pl[600];
    size_t plen;
    memset(it, 0, sizeof *it);
    it->kind = kind;
    it->name = name;
    it->n = build_wire(q, it->wire, pl, &plen);
    it->src_err_at = -1;
    it->verdict = q->verdict;
    it->vaddr = q->vaddr;
    it->isreq = q->rawtype < 0;
    it->q = *q;
}

static void
item_from_raw(struct item *it, int kind, const char *name, bool tcp, const unsigned char *raw, size_t rn)
{
    memset(it, 0, sizeof *it);
    it->kind = kind;
    it->name = name;
    it->n = tcp ? rr_lenprefix(it->wire, raw, rn) : rr_slip(it->wire, raw, rn);
    it->src_err_at = -1;
    it->verdict = RP_RESP_ACK;
}

static void
build_items(bool tcp, struct item *it)
{
    const struct req w16 = { tcp, true, true, true, 0x64, 2, 1, 0x0101, RP_RESP_ACK, 0x64, -1, 0, 0 };
    const struct req r16 = { tcp, false, true, true, 0x66, 2, 0, 0x0202, RP_RESP_ACK, 0x66, -1, 0, 0 };
    const struct req wer = { tcp, true, true, true, 0x68, 1, 3, 0xc0db, RP_RESP_ERANGE, 0x69, -1, 0, 0 };
    const struct req w8 = { tcp, true, false, true, 0x6a, 2, 0, 0x0404, RP_RESP_ACK, 0x6a, -1, 0, 0 };
    const struct req rsp = { tcp, false, true, true, 0x10, 1, 0, 9, RP_RESP_ACK, 0, RT_READ_RESP, 0, 0 };
    const struct req met = { tcp, false, false, true, 0, 0, 0, 0, RP_RESP_ACK, 0, RT_META, 1, 0 };
    item_from_req(&it[0], IK_GOOD, "write16-acked", &w16);
    item_from_req(&it[1], IK_GOOD, "read16-acked", &r16);
    item_from_req(&it[2], IK_GOOD, "write16-ERANGE", &wer);
    item_from_req(&it[3], IK_GOOD, "write8-to-16bit-memory", &w8);
    item_from_req(&it[4], IK_NONREQ, "read-response", &rsp);
    item_from_req(&it[5], IK_NONREQ, "meta-message", &met);
    /* corrupted variants of an executable write request */
    unsigned char raw[64], pl[8] = { 0x11, 0x22, 0x33, 0x44 };
    struct rframe f, chk;
    memset(&f, 0, sizeof f);
    f.type = RT_WRITE_REQ;
    f.options = RO_W16 | (tcp ? 0 : RO_HDCRC | RO_PLCRC);
    f.seq = 0x0606;
    f.addr = 0x70;
    f.bsize = 2;
    f.payload = pl;
    f.plen = 4;
    size_t rn;
    if (tcp) {
        f.version = 1;
        rn = rr_build(raw, &f, false, false);
        f.version = 0;
    } else
        rn = rr_build(raw, &f, true, false);
    MC_ANCHOR(!(rr_verdict(raw, rn, &chk) & RV_OK), "session item: header fault is invalid by the reference");
    item_from_raw(&it[6], IK_BAD, tcp ? "write16-bad-version" : "write16-bad-header-checksum", tcp, raw, rn);
    if (tcp) {
        f.plen = 3;
        rn = rr_build(raw, &f, false, false);
        f.plen = 4;
    } else
        rn = rr_build(raw, &f, false, true);
    MC_ANCHOR(!(rr_verdict(raw, rn, &chk) & RV_OK), "session item: payload fault is invalid by the reference");
    item_from_raw(&it[7], IK_BAD, tcp ? "write16-payload-one-octet-short" : "write16-bad-payload-checksum", tcp, raw, rn);
    /* channel-level failures while the executable write request arrives */
    item_from_req(&it[8], IK_CHAN, "source-error-inside-frame", &w16);
    it[8].src_err_at = 7;
    item_from_req(&it[9], IK_CHAN, tcp ? "stream-ends-inside-frame" : "slip-escape-violation", &w16);
    if (tcp)
        it[9].n -= 3;
    else {
        it[9].wire[5] = 0xdb;
        it[9].wire[6] = 0x01;
        MC_ANCHOR(!lp_slip_may_be_valid(it[9].wire, it[9].n), "session item: no reading of the escape violation yields a valid frame");
    }
    item_from_req(&it[10], IK_CHAN, "source-has-nothing", &w16);
    it[10].n = 0;
    it[8].isreq = it[9].isreq = it[10].isreq = false; /* the channel does not deliver the request */
    memset(&it[11], 0, sizeof it[11]);
    it[11].kind = IK_BAD;
    it[11].name = tcp ? "zero-length-frame" : "empty-frame";
    it[11].wire[0] = tcp ? 0x00 : 0xc0;
    it[11].n = 1;
    it[11].src_err_at = -1;
    /* receptions that fail for want of memory in a receiver that takes a frame into one allocator
     * block: no block at all / a frame larger than the block.  Both are valid requests: whether
     * reception failed is what the library reports in that round (a receiver with a reserve block,
     * or one whose receive block grows, has received a request and owes the exchange) */
    item_from_req(&it[12], IK_BAD, "write16-while-allocation-fails", &w16);
    it[12].alloc_fails = true;
    const struct req big = { tcp, true, false, true, 0x90, 2 * BLOCKSIZE - 60, 0, 0x0909, RP_RESP_ACK, 0x90, -1, 0, 0 };
    item_from_req(&it[13], IK_BAD, "write8-larger-than-the-block", &big);
}

static void
feed_item(struct drv *d, const struct item *x)
{
    drv_feed(d, x->wire, x->n);
    d->src_err_at = x->src_err_at;
    d->src_err = -EIO;
    d->outlen = 0;
    d->ncalls = 0;
    d->verdict = x->verdict;
    d->verdict_addr = x->vaddr;
    d->fail_mask = x->alloc_fails ? ~0u << (d->allocs > 31 ? 31 : d->allocs) : 0;
}

static const char *MFMODE[] = { "cleared-per-round", "reused", "reused-indeterminate-at-start" };

/* a good frame's exchange on D (just done, result r) equals the exchange on a fresh instance */
static int g_srcmode = -1; /* -1: octet source on serial, chunk source on tcp (as in the other families) */
static const char *SRCNAME[] = { "chunk source", "octet source", "chunk source with getbuffer" };

static int
srcmode_of(bool tcp)
{
    return g_srcmode >= 0 ? g_srcmode : tcp ? DRV_SRC_CHUNK : DRV_SRC_OCTET;
}

static bool
equals_fresh(bool tcp, const struct item *x, const struct lp_result *r)
{
    drv_init_ex(&F, tcp, true, BLOCKSIZE, srcmode_of(tcp));
    feed_item(&F, x);
    RPMaybeFrame mf;
    memset(&mf, 0, sizeof mf);
    struct lp_result fr;
    lp_round(&F, &mf, &fr);
    const bool same = r->calls == fr.calls && r->errid == fr.errid && D.outlen == F.outlen && memcmp(D.out, F.out, D.outlen) == 0
        && (fr.calls != 1 || same_call(&D.call[0], &F.call[0]));
    mc_log("  fresh instance: calls=%d error.id=%d reply=%zu octets", fr.calls, fr.errid, F.outlen);
    drv_release(&F);
    g_drv = &D; /* the backend records into the driver initialised last */
    return same;
}

/* the caller's "error handling" of the documented loop: install the channel again */
static void
reinstall_channel(struct drv *d, bool tcp)
{
    const int sm = srcmode_of(tcp);
    Source src;
    Sink snk;
    if (sm == DRV_SRC_OCTET)
        octet_source_init(&src, drv_src_octet, d);
    else
        chunk_source_init(&src, drv_src_chunk, d);
    if (sm == DRV_SRC_CHUNK_GETBUFFER)
        src.ext.getbuffer = drv_src_getbuffer;
    chunk_sink_init(&snk, drv_sink_chunk, d);
    regp_use_channel(&d->p, tcp ? RP_EP_TCP : RP_EP_SERIAL, src, snk);
}

/* "a frame that failed reception": what the library itself reports for the round */
static bool
lp_failed(const struct lp_result *r)
{
    return r->rrc < 0 || r->errid != 0 || !r->hadframe;
}

/* did the reply octets of the round hold an acknowledgement? */
static bool
round_acked(bool tcp, const struct drv *d)
{
    unsigned char scratch[DRV_WIRE];
    struct rr_frames fr;
    struct rframe rp;
    const int nfr = rr_unframe(tcp, d->out, d->outlen, scratch, &fr);
    for (int i = 0; i < nfr; ++i)
        if ((rr_verdict(scratch + fr.off[i], fr.len[i], &rp) & RV_OK) && (rp.type == RT_READ_RESP || rp.type == RT_WRITE_RESP) && rp.meta == 0)
            return true;
    return false;
}

static void
run_session(bool tcp, const struct item *it, const int *seq, int len, int mfmode, int pool)
{
    drv_init_ex(&D, tcp, true, BLOCKSIZE, srcmode_of(tcp));
    if (pool)
        lp_use_pool(&D, 0);
    RPMaybeFrame mf;
    memset(&mf, 0, sizeof mf);
    if (mfmode == 2)
        lp_decoy(&mf, true);
    bool chan_failed = false; /* an earlier regp_recv of the session reported a failure (negative return) */
    for (int k = 0; k < len && !mc.cur_failed; ++k) {
        const struct item *x = &it[seq[k]];
        if (mfmode == 0)
            memset(&mf, 0, sizeof mf);
        feed_item(&D, x);
        struct lp_result r;
        lp_round(&D, &mf, &r);
        mc_trans(3);
        mc_log("round %d %s: recv rc=%d error.id=%d process rc=%d calls=%d reply=%zu octets, %zu of %zu source octets consumed", k, x->name, r.rrc, r.errid, r.prc, r.calls,
               D.outlen, D.inpos, D.inlen);
        /* The statement is about requests that were received.  It says nothing about
         * what a channel failure that regp_recv reported (negative return: hard source
         * error, framing violation, ...) does to the instance: one that latches the
         * failure, or whose framing layer resynchronises at the next frame boundary and
         * so loses the frame that follows, is admitted.  After such a failure a round
         * whose reception the library itself reports as failed (negative return,
         * error.id, no frame) is judged: no access, no acknowledgement; then the
         * caller's error handling installs the channel again and the same frame is
         * offered once more, now judged like any round. */
        bool failed = lp_failed(&r);
        if (chan_failed && x->n > 0 && failed) {
            if (r.calls != 0)
                mc_fail("C06/failed-reception-no-access", "round %d (%s): reception after a reported channel failure failed (rc=%d error.id=%d frame=%d) but caused %d memory accesses", k,
                        x->name, r.rrc, r.errid, r.hadframe, r.calls);
            else if (round_acked(tcp, &D))
                mc_fail("C06/refused-not-acknowledged", "round %d (%s): reception after a reported channel failure failed (rc=%d error.id=%d frame=%d), nothing was executed, but an acknowledgement was sent", k,
                        x->name, r.rrc, r.errid, r.hadframe);
            else {
                reinstall_channel(&D, tcp);
                chan_failed = false;
                if (mfmode == 0)
                    memset(&mf, 0, sizeof mf);
                feed_item(&D, x);
                lp_round(&D, &mf, &r);
                mc_trans(3);
                failed = lp_failed(&r);
                mc_log("round %d %s once more after regp_use_channel: recv rc=%d error.id=%d process rc=%d calls=%d reply=%zu octets, %zu of %zu source octets consumed", k, x->name,
                       r.rrc, r.errid, r.prc, r.calls, D.outlen, D.inpos, D.inlen);
            }
        }
        if (mc.cur_failed)
            break;
        if (r.rrc < 0)
            chan_failed = true;
        if (x->kind == IK_GOOD || x->kind == IK_NONREQ) {
            if (!equals_fresh(tcp, x, &r))
                mc_fail("C06/requests-independent", "round %d (%s): the exchange differs from the same exchange on a fresh instance (calls=%d, reply %zu octets)", k,
                        x->name, r.calls, D.outlen);
        } else if (x->isreq && !failed) {
            /* a valid request that the library reports as received (although a receiver
             * that takes a frame into one allocator block could not have): a request */
            const struct drv_call *c = &D.call[0];
            const int want = x->q.sem16 == x->q.mem16; /* a word-size mismatch owes no access */
            if (r.calls != want)
                mc_fail(want ? "C06/exactly-one-access" : "C06/wordsize-no-access", "round %d (%s): the library reports the request as received (rc=%d error.id=0) and performed %d memory accesses (expected %d)", k, x->name, r.rrc,
                        r.calls, want);
            else if (want && (c->write != x->q.write || c->m16 != x->q.mem16 || c->addr != x->q.addr || c->bsize != x->q.bsize))
                mc_fail("C06/access-matches-request", "round %d (%s): backend saw %s addr=%08x size=%zu for request %s addr=%08x size=%u", k, x->name, c->write ? "write" : "read",
                        c->addr, c->bsize, x->q.write ? "write" : "read", x->q.addr, x->q.bsize);
            else if (!equals_fresh(tcp, x, &r))
                mc_fail("C06/requests-independent", "round %d (%s): the exchange differs from the same exchange on a fresh instance (calls=%d, reply %zu octets)", k,
                        x->name, r.calls, D.outlen);
        } else if (r.calls != 0 && (failed || x->kind == IK_CHAN)) {
            /* a frame that failed reception -- by the library's own report, or because the
             * channel never delivered a frame (source error, stream cut, nothing there; no
             * reading of the octets holds a valid frame).  A corrupted frame that the library
             * reports as received is statement C07's sentence, not this one's. */
            mc_fail("C06/failed-reception-no-access", "round %d (%s): reception failed (rc=%d error.id=%d frame=%d) but the round caused %d memory accesses (%s addr=%08x size=%zu)",
                    k, x->name, r.rrc, r.errid, r.hadframe, r.calls, D.call[0].write ? "write" : "read", D.call[0].addr, D.call[0].bsize);
        }
    }
    if (!mc.cur_failed && lp_bad_releases(&D))
        FAIL_BAD_RELEASE(&D);
    lp_release(&D);
}

static void
family_sessions(bool th)
{
    static struct item items[2][NITEMS];
    build_items(false, items[0]);
    build_items(true, items[1]);
    for (int sm = -1; sm < (th ? 3 : 0); ++sm)
    for (int tcp = 0; tcp < 2; ++tcp)
        for (int mfmode = 0; mfmode < 3; ++mfmode)
            for (int pool = 0; pool < 2; ++pool)
                for (int len = 2; len <= (th && sm < 0 ? 4 : 3); ++len) {
                    if (sm >= 0 && sm == (tcp ? DRV_SRC_CHUNK : DRV_SRC_OCTET))
                        continue; /* that is the default */
                    g_srcmode = sm;
                    int seq[4] = { 0, 0, 0, 0 };
                    for (;;) {
                        char sd[200];
                        size_t o = 0;
                        for (int k = 0; k < len; ++k)
                            o += (size_t)snprintf(sd + o, sizeof sd - o, "%s%s", k ? ", " : "", items[tcp][seq[k]].name);
                        if (mc_case("S %s loop (%s): RPMaybeFrame %s, %s allocator: %s", tcp ? "tcp" : "serial", SRCNAME[srcmode_of(tcp)], MFMODE[mfmode],
                                    pool ? "pool" : "heap", sd)) {
                            run_session(tcp, items[tcp], seq, len, mfmode, pool);
                            bool fail_round = false;
                            for (int k = 0; k < len; ++k)
                                fail_round |= items[tcp][seq[k]].kind >= IK_BAD;
                            mc_end(true, mc.cur_failed ? "failed" : fail_round ? "session-with-failed-reception" : "session-all-received");
                        }
                        int k = len - 1;
                        while (k >= 0 && ++seq[k] == NITEMS)
                            seq[k--] = 0;
                        if (k < 0)
                            break;
                    }
                }
    g_srcmode = -1;
}

/* ---- family G: the reply cannot be sent ------------------------------------------------------------ */
static void
family_sendfail(void)
{
    static const int ERRS[] = { -EIO, -ENOMEM, -EPIPE }; /* not -EAGAIN/-EINTR: the endpoint layer retries those by contract */
    static const char *KN[] = { "read16-acked", "write16-acked", "write16-ERANGE", "read16-EIO", "write8-to-16bit-memory", "read16-too-large", "read16-EUNMAPPED",
                                "write16-while-allocation-fails", "write8-larger-than-the-block" };
    for (int tcp = 0; tcp < 2; ++tcp)
        for (int kind = 0; kind < 9; ++kind)
            for (int at = 0; at < 24; ++at)
                for (int ei = 0; ei < 3; ++ei) {
                    if (!mc_case("G %s %s: sink fails with %d at reply octet %d; then a write16 on the healed channel", tcp ? "tcp" : "serial", KN[kind], ERRS[ei], at))
                        continue;
                    const struct req Q[9] = {
                        { tcp, false, true, true, 0x66, 2, 0, 0x0202, RP_RESP_ACK, 0x66, -1, 0, 0 },
                        { tcp, true, true, true, 0x64, 2, 1, 0x0101, RP_RESP_ACK, 0x64, -1, 0, 0 },
                        { tcp, true, true, true, 0x68, 1, 3, 0xc0db, RP_RESP_ERANGE, 0x69, -1, 0, 0 },
                        { tcp, false, true, true, 0x6c, 1, 0, 0x0303, RP_RESP_EIO, 0, -1, 0, 0 },
                        { tcp, true, false, true, 0x6a, 2, 0, 0x0404, RP_RESP_ACK, 0x6a, -1, 0, 0 },
                        { tcp, false, true, true, 0x6e, 0x10000, 0, 0x0505, RP_RESP_ACK, 0, -1, 0, 0 },
                        { tcp, false, true, true, 0x72, 3, 0, 0x0707, RP_RESP_EUNMAPPED, 0x73, -1, 0, 0 },
                        { tcp, true, true, true, 0x64, 2, 1, 0x0101, RP_RESP_ACK, 0x64, -1, 0, 0 },
                        { tcp, true, false, true, 0x90, 2 * BLOCKSIZE - 60, 0, 0x0909, RP_RESP_ACK, 0x90, -1, 0, 0 },
                    };
                    const struct req next = { tcp, true, true, true, 0x80, 1, 0, 0x0808, RP_RESP_ACK, 0x80, -1, 0, 0 };
                    struct item a, b;
                    item_from_req(&a, IK_GOOD, KN[kind], &Q[kind]);
                    item_from_req(&b, IK_GOOD, "write16-acked", &next);
                    a.alloc_fails = kind == 7;
                    drv_init(&D, tcp, true, BLOCKSIZE, !tcp);
                    RPMaybeFrame mf;
                    memset(&mf, 0, sizeof mf);
                    feed_item(&D, &a);
                    D.sink_err_at = at;
                    D.sink_err = ERRS[ei];
                    struct lp_result r;
                    lp_round(&D, &mf, &r);
                    mc_trans(3);
                    const bool hit = D.sink_err_hit;
                    mc_log("round 0: recv rc=%d error.id=%d process rc=%d calls=%d sent=%zu octets, sink failure %s", r.rrc, r.errid, r.prc, r.calls, D.outlen,
                           hit ? "hit" : "not reached");
                    const struct drv_call *c = &D.call[0];
                    /* how many accesses the round owes: none for the word-size mismatch; none or one
                     * for the read far above any block (whether such a read is served is not C06's
                     * sentence; a served one is seen by ASan when the backend fills its buffer); for
                     * the two requests that a receiver taking a frame into one allocator block cannot
                     * receive (no block / larger than the block) what the library reports decides:
                     * reception failed -> none, request received -> one (none if its word size does not
                     * match the memory); one otherwise */
                    const int want = kind == 4 ? 0 : kind == 5 ? (r.calls == 1) : kind >= 7 ? (!lp_failed(&r) && Q[kind].sem16 == Q[kind].mem16) : 1;
                    if (r.calls != want)
                        mc_fail(want ? "C06/exactly-one-access" : kind == 4 ? "C06/wordsize-no-access" : kind == 5 ? "C06/exactly-one-access" : lp_failed(&r) ? "C06/failed-reception-no-access" : "C06/wordsize-no-access",
                                "%d memory accesses for one request whose reply %s (expected %d; recv rc=%d error.id=%d frame=%d)", r.calls, hit ? "could not be sent" : "was sent", want,
                                r.rrc, r.errid, r.hadframe);
                    else if (want && (c->write != Q[kind].write || !c->m16 || c->addr != Q[kind].addr || c->bsize != Q[kind].bsize))
                        mc_fail("C06/access-matches-request", "backend saw %s addr=%08x size=%zu for request %s addr=%08x size=%u", c->write ? "write" : "read", c->addr,
                                c->bsize, Q[kind].write ? "write" : "read", Q[kind].addr, Q[kind].bsize);
                    else {
                        D.sink_err_at = -1;
                        D.sink_err_hit = false;
                        /* The statement is about requests that were received.  It says nothing
                         * about what a failed transmission does to the channel: an instance that
                         * latches the failure and refuses reception is admitted (then: nothing is
                         * executed, nothing acknowledged); one that receives the request owes the
                         * exchange of a fresh instance.  Round 2: the same after the caller has
                         * installed the channel again. */
                        bool refused = false;
                        for (int round = 1; round <= 2 && !mc.cur_failed; ++round) {
                            if (round == 2) {
                                if (!refused)
                                    break; /* served (and judged) already */
                                Source src;
                                Sink snk;
                                if (tcp)
                                    chunk_source_init(&src, drv_src_chunk, &D);
                                else
                                    octet_source_init(&src, drv_src_octet, &D);
                                chunk_sink_init(&snk, drv_sink_chunk, &D);
                                regp_use_channel(&D.p, tcp ? RP_EP_TCP : RP_EP_SERIAL, src, snk);
                                mc_log("reception is refused after the failed transmission: the channel is installed again (regp_use_channel) and the request repeated");
                            }
                            feed_item(&D, &b);
                            lp_round(&D, &mf, &r);
                            mc_trans(3);
                            mc_log("round %d: recv rc=%d error.id=%d frame=%d process rc=%d calls=%d reply=%zu octets", round, r.rrc, r.errid, r.hadframe, r.prc, r.calls, D.outlen);
                            /* refused: a negative return, or an error reported without handing a frame over */
                            refused = r.rrc < 0 || (r.errid != 0 && !r.hadframe);
                            if (refused) {
                                unsigned char scratch[DRV_WIRE];
                                struct rr_frames fr;
                                struct rframe rp;
                                bool acked = false;
                                const int nfr = rr_unframe(tcp, D.out, D.outlen, scratch, &fr);
                                for (int i = 0; i < nfr; ++i)
                                    if ((rr_verdict(scratch + fr.off[i], fr.len[i], &rp) & RV_OK) && (rp.type == RT_READ_RESP || rp.type == RT_WRITE_RESP) && rp.meta == 0)
                                        acked = true;
                                if (r.calls != 0)
                                    mc_fail("C06/failed-reception-no-access", "reception after a failed transmission was refused (rc=%d error.id=%d) but caused %d memory accesses", r.rrc,
                                            r.errid, r.calls);
                                else if (acked)
                                    mc_fail("C06/refused-not-acknowledged", "reception after a failed transmission was refused (rc=%d error.id=%d), nothing was executed, but an acknowledgement was sent",
                                            r.rrc, r.errid);
                            } else if (!equals_fresh(tcp, &b, &r))
                                mc_fail("C06/requests-independent", "the request %s is not served as on a fresh instance (calls=%d, reply %zu octets)",
                                        round == 1 ? "after a failed transmission" : "after a failed transmission and regp_use_channel", r.calls, D.outlen);
                        }
                        if (!mc.cur_failed && lp_bad_releases(&D))
                            FAIL_BAD_RELEASE(&D);
                    }
                    drv_release(&D);
                    mc_end(hit, mc.cur_failed ? "failed" : hit ? "reply-unsendable" : "sink-failure-not-reached");
                }
}

int
main(int argc, char **argv)
{
    mc_init(argc, argv);
    MC_ANCHOR(rr_crc(0, (const unsigned char *)"123456789", 9) == 0xbb3d, "CRC check value");
    MC_ANCHOR(sizeof(RPFrame) + 16 + 8 <= BLOCKSIZE, "block size leaves room for a payload");
    const bool th = mc_thorough();
    char d[300];
    /* family A */
    for (int tcp = 0; tcp < 2; ++tcp)
        for (int write = 0; write < 2; ++write)
            for (int sem16 = 0; sem16 < 2; ++sem16)
                for (int mem16 = 0; mem16 < 2; ++mem16)
                    for (unsigned ai = 0; ai < 6; ++ai)
                        for (uint32_t bs = 0; bs <= capacity(tcp, write, sem16); ++bs)
                            for (int content = 0; content < (write ? 4 : 1); ++content)
                                for (unsigned si = 0; si < 4; ++si) {
                                    if (!th && si != (ai & 3) && !(bs <= 2))
                                        continue; /* quick: sequence values rotate with the address except for tiny blocks */
                                    struct req q = { tcp, write, sem16, mem16, ADDRS[ai], bs, content, SEQS[si], RP_RESP_ACK, ADDRS[ai], -1, 0 };
                                    desc_req(&q, d, sizeof d);
                                    if (!mc_case("A %s", d))
                                        continue;
                                    mc_end(true, check_request(&q));
                                }
    /* family B: verdicts */
    for (int tcp = 0; tcp < 2; ++tcp)
        for (int write = 0; write < 2; ++write)
            for (int sem16 = 0; sem16 < 2; ++sem16)
                for (unsigned code = 0; code < 12; ++code)
                    for (int va = 0; va < 3; ++va)
                        for (uint32_t bs = 0; bs <= 3; ++bs)
                            for (unsigned ai = 2; ai < 6; ai += 3) {
                                const uint32_t addr = ADDRS[ai];
                                const uint32_t vaddr = va == 0 ? addr : va == 1 ? addr + 1 : 0xffffffffu - (addr == 0xffffffffu);
                                struct req q = { tcp, write, sem16, sem16, addr, bs, 3, 0xc0db, (RPResponse)code, vaddr, -1, 0 };
                                desc_req(&q, d, sizeof d);
                                if (!mc_case("B %s", d))
                                    continue;
                                mc_end(true, check_request(&q));
                            }
    /* family C: responses and meta messages as input */
    for (int tcp = 0; tcp < 2; ++tcp)
        for (int sem16 = 0; sem16 < 2; ++sem16)
            for (int mem16 = 0; mem16 < 2; ++mem16)
                for (int kind = 0; kind < 3; ++kind)
                    for (unsigned meta = 0; meta < 12; ++meta)
                        for (uint32_t bs = 0; bs <= 4; ++bs) {
                            const int type = kind == 0 ? RT_READ_RESP : kind == 1 ? RT_WRITE_RESP : RT_META;
                            if (type == RT_META && (meta < 1 || meta > 2 || bs != 0 || sem16))
                                continue;
                            if (type != RT_META) {
                                /* only responses doc/regp.txt 3.1 admits: read acknowledgements carry
                                 * data, write acknowledgements and codes 1,2,3,6,11 nothing, codes
                                 * 4,5,7..10 four octets in octet semantics (a receiver may hold
                                 * responses to that; the statement is silent) */
                                const bool four = meta == 4 || meta == 5 || (meta >= 7 && meta <= 10);
                                const bool data = meta == 0 && type == RT_READ_RESP;
                                if (four ? (bs != 4 || sem16) : data ? bs > 2 : bs != 0)
                                    continue;
                            }
                            struct req q = { tcp, false, sem16, mem16, 0x64, bs, 0, 7, RP_RESP_ACK, 0, type, meta };
                            desc_req(&q, d, sizeof d);
                            if (!mc_case("C %s", d))
                                continue;
                            mc_end(true, check_request(&q));
                        }
    /* family D: sessions.  Alphabet of frames; every ordered pair on one instance. */
    {
        struct req alpha[40];
        int na = 0;
        for (int write = 0; write < 2; ++write)
            for (int sem16 = 0; sem16 < 2; ++sem16)
                for (uint32_t bs = 0; bs <= 2; bs += 2)
                    for (int vi = 0; vi < 2; ++vi) {
                        alpha[na] = (struct req){ false, write, sem16, true, 0x64 + bs, bs, 1, (uint16_t)(na * 257), vi ? RP_RESP_ERANGE : RP_RESP_ACK, 0x65, -1, 0 };
                        na++;
                    }
        alpha[na++] = (struct req){ false, false, true, true, 0x10, 1, 0, 9, RP_RESP_ACK, 0, RT_READ_RESP, 0 };
        alpha[na++] = (struct req){ false, false, false, true, 0x10, 4, 0, 9, RP_RESP_ACK, 0, RT_WRITE_RESP, 7 };
        alpha[na++] = (struct req){ false, false, false, true, 0, 0, 0, 0, RP_RESP_ACK, 0, RT_META, 1 };
        for (int tcp = 0; tcp < 2; ++tcp)
            for (int i = 0; i < na; ++i)
                for (int j = 0; j < na; ++j) {
                    if (!mc_case("D session %s: frame#%d then frame#%d on one instance", tcp ? "tcp" : "serial", i, j))
                        continue;
                    unsigned char w1[600], w2[600], pl[600];
                    size_t plen;
                    struct req a = alpha[i], b = alpha[j];
                    a.tcp = b.tcp = tcp;
                    const size_t n1 = build_wire(&a, w1, pl, &plen);
                    const size_t n2 = build_wire(&b, w2, pl, &plen);
                    int rrc, prc, errid;
                    bool had;
                    /* fresh instance: only the second frame */
                    drv_init(&F, tcp, true, BLOCKSIZE, !tcp);
                    F.verdict = b.verdict;
                    F.verdict_addr = b.vaddr;
                    cycle(&F, w2, n2, &rrc, &prc, &errid, &had);
                    const int f_calls = F.ncalls, f_rrc = rrc, f_prc = prc, f_err = errid;
                    /* session: first, then second */
                    drv_init(&D, tcp, true, BLOCKSIZE, !tcp);
                    RegP before;
                    memcpy(&before, &D.p, sizeof before);
                    D.verdict = a.verdict;
                    D.verdict_addr = a.vaddr;
                    cycle(&D, w1, n1, &rrc, &prc, &errid, &had);
                    D.verdict = b.verdict;
                    D.verdict_addr = b.vaddr;
                    cycle(&D, w2, n2, &rrc, &prc, &errid, &had);
                    mc_log("fresh: calls=%d rc=%d/%d err=%d reply=%zu; session: calls=%d rc=%d/%d err=%d reply=%zu", f_calls, f_rrc, f_prc, f_err, F.outlen,
                           D.ncalls, rrc, prc, errid, D.outlen);
                    (void)before;
                    (void)f_rrc;
                    (void)f_prc; /* return values are not part of the statement */
                    if (D.ncalls != f_calls || errid != f_err || D.outlen != F.outlen
                             || memcmp(D.out, F.out, D.outlen) != 0
                             || (f_calls == 1 && !same_call(&D.call[0], &F.call[0])))
                        mc_fail("C06/requests-independent", "the second exchange of the session differs from the same exchange on a fresh instance");
                    else if (lp_bad_releases(&D))
                        FAIL_BAD_RELEASE(&D);
                    drv_release(&D);
                    drv_release(&F);
                    mc_end(true, mc.cur_failed ? "failed" : "session-pair");
                }
    }
    /* family E: reads at and far above the capacity, under every combination of the checksum option bits */
    for (int tcp = 0; tcp < 2; ++tcp)
        for (int m16 = 0; m16 < 2; ++m16)
            for (int om = 0; om <= 4; ++om) {
                struct req probe = { tcp, false, m16, m16, 0, 0, 0, 0, RP_RESP_ACK, 0, -1, 0, om };
                if (optmode_redundant(&probe))
                    continue;
                const size_t rawcap = BLOCKSIZE - sizeof(RPFrame);
                const size_t ws = m16 ? 2 : 1;
                const size_t hdr = req_hdr(&probe);
                const uint32_t first = (uint32_t)((rawcap - hdr) / ws + 1); /* smallest size that does not fit behind the request header */
                const uint32_t BS[] = { first, first + 1, first + 2, (uint32_t)(rawcap / ws), (uint32_t)(rawcap / ws + 1), BLOCKSIZE, 1000, 0x7fff, 0x8000, 0x8001, 0xffff, 0x10000,
                                        0x10001, 0x10000 + first - 1, 0x7fffffffu, 0x80000000u, 0x80000001u, 0x80000002u, 0x80000008u, 0x80000010u,
                                        0x80000000u + (uint32_t)(rawcap / 2), 0x80000000u + first - 1, 0xfffffffeu, 0xffffffffu };
                for (unsigned bi = 0; bi < sizeof BS / sizeof *BS; ++bi)
                    for (unsigned ai = 0; ai < 6; ai += 5) {
                        struct req q = { tcp, false, m16, m16, ADDRS[ai], BS[bi], 0, 0x0e0e, RP_RESP_ACK, ADDRS[ai], -1, 0, om };
                        desc_req(&q, d, sizeof d);
                        if (!mc_case("E %s", d))
                            continue;
                        mc_end(true, check_request(&q));
                    }
            }
    family_options(th);
    family_invalid();
    family_sessions(th);
    family_sendfail();
#define BOUND_REST "B: 12 verdicts x 3 reported addresses x kinds x sizes 0..3; C: every response code / meta code as input (document-conformant payloads); D: all ordered pairs of 19 frames per transport; E: reads of 24 sizes from just above what fits behind the request header (served with the full oracle or refused with a transmit-overflow response) to 2^32-1 (straddling 2^15/2^16/2^31/2^32, incl. sizes whose octet count wraps in 16 or 32 bits) x transports x memory widths x every checksum-option combination; F: frames invalid by the document (no access whenever the library reports failed reception): read/write x 8/16 x transports x 5 option modes x 33 block sizes (0..4 and 2^k-1..2^k+3 for k=7,8,15,16,31, 2^32-3..2^32-1) x payload 0..8 octets x 6 variants; G: 9 reply kinds (incl. the busy and receive-overflow replies of reception) x sink failure at reply octet 0..23 x 3 error codes x transports, followed by a request on the healed channel (and, if reception is refused, once more after regp_use_channel); capacity = 160 - sizeof(RPFrame) places the windows, the band in which a read may be refused starts at the capacity learned from the library minus 16 and is open upwards; in S and G 'reception failed' is what the library reports in the round"
    mc_finish(true, th ? "A: 2 transports x read/write x 8/16-bit semantics x 8/16-bit memory x 6 addresses x every block size 0..capacity(160-octet block) x 4 contents x 4 sequence numbers; O: all 4 combinations of the checksum option bits x every block size 0..capacity (reads: up to block capacity + 3 words); S: every sequence of 2..4 receptions out of 14 (4 requests, 2 non-requests, 3 corrupted/empty frames, 3 channel failures, allocation failure, frame larger than the block) x 3 RPMaybeFrame disciplines x heap/pool allocator x transports, and every sequence of 2..3 with each of the other two source kinds (chunk, octet, chunk with getbuffer); " BOUND_REST
                       : "A: as thorough with the sequence number rotating with the address for blocks > 2; O: all 4 combinations of the checksum option bits x block sizes 0..2 and capacity-3..capacity (reads: up to block capacity + 3 words); S: every sequence of 2..3 receptions out of 14 (4 requests, 2 non-requests, 3 corrupted/empty frames, 3 channel failures, allocation failure, frame larger than the block) x 3 RPMaybeFrame disciplines x heap/pool allocator x transports; " BOUND_REST);
    return 0;
}
